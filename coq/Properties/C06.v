(** C06 — a seeded function is a pure function of key and arguments. *)
From Coq Require Import List Arith Bool Lia.
Import ListNotations.
From GV Require Import Model.Seed Lemmas.SeedLemmas.

(** The keys used by a seeded call — hence, given the keyful samplers, its
    result — do not depend on the process-global key counter or on whether the
    staging cache is warm: any interleaving with other sampling calls only moves
    the global state, which a seeded run never reads. *)
Theorem C06_seed_pure :
  forall G1 G2 p k cs, fst (seeded_call G1 p k cs) = fst (seeded_call G2 p k cs).
Proof. reflexivity. Qed.
Print Assumptions C06_seed_pure.

(** repeating the call after arbitrary global-state histories gives the same keys *)
Theorem C06_repeatable :
  forall (hist : list (gstate -> gstate)) G p k cs,
    fst (seeded_call (fold_left (fun g f => f g) hist G) p k cs) = fst (seeded_call G p k cs).
Proof. reflexivity. Qed.
Print Assumptions C06_repeatable.

(** a seeded call changes the global state only by advancing the counter (staging) *)
Theorem C06_only_counter_moves :
  forall G p k cs, counter G <= counter (snd (seeded_call G p k cs)).
Proof. intros. unfold seeded_call. cbn. destruct (cache_warm G); lia. Qed.
Print Assumptions C06_only_counter_moves.

(** distinct (incomparable) root keys give pairwise distinct streams at all sites *)
Theorem C06_distinct_keys_distinct_streams :
  forall p q k1 k2 cs1 cs2, incomp k1 k2 ->
    forall x y, In x (fst (seed_run p k1 cs1)) -> In y (fst (seed_run q k2 cs2)) -> incomp x y.
Proof.
  intros p q k1 k2 cs1 cs2 Hi. eapply runs_incomp; eauto.
  - apply (seed_run_good p k1 cs1).
  - apply (seed_run_good q k2 cs2).
Qed.
Print Assumptions C06_distinct_keys_distinct_streams.
