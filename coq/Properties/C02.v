(** C02 — generate honours constraints and returns the importance weight. *)
From GV Require Import Model.Gfi Model.Spec Model.Ast Lemmas.CmLemmas Lemmas.GfiCoh Lemmas.GfiGen.

(** For every program, arguments, constraint (None, {}, any sub-map) and every
    outcome of the unconstrained draws: the trace is coherent, every visited
    site bound by the constraint holds the constrained value, and the weight is
    the sum of the log probabilities of exactly the constrained sites given the
    values they depend on. *)
Theorem C02_generate :
  forall g x args t w, reach (gf_generate g x args) (t, w) ->
    exists l, gf_sites g (choices t) args = Ok (l, get_retval t)
              /\ total l = - get_score t
              /\ w = gen_weight x l
              /\ gen_held x (choices t) l.
Proof.
  intros g x args t w H. destruct (generate_spec g x args t w H) as [_ G].
  exact (G _ (covers_refl _)).
Qed.
Print Assumptions C02_generate.

Theorem C02_generate_coherent :
  forall g x args t w, reach (gf_generate g x args) (t, w) ->
                       den g (choices t) args = Ok (- get_score t, get_retval t).
Proof.
  intros g x args t w H. destruct (C02_generate _ _ _ _ _ H) as [l [Hl [Ht _]]].
  unfold den. rewrite Hl. cbn. rewrite Ht. reflexivity.
Qed.
Print Assumptions C02_generate_coherent.

(** Nothing constrained (None) => weight 0. *)
Theorem C02_none_weight_zero :
  forall g args t w, reach (gf_generate g None args) (t, w) -> w = 0.
Proof.
  intros g args t w H. destruct (C02_generate _ _ _ _ _ H) as [l [_ [_ [Hw _]]]]. exact Hw.
Qed.
Print Assumptions C02_none_weight_zero.

(** Everything constrained => weight = assess = joint log density. *)
Theorem C02_all_constrained :
  forall g c args t w, reach (gf_generate g (Some c) args) (t, w) ->
    (forall l r, gf_sites g (choices t) args = Ok (l, r) ->
                 forall q, In q l -> cm_binds c (fst q) = true) ->
    den g (choices t) args = Ok (w, get_retval t).
Proof.
  intros g c args t w H Hall. destruct (C02_generate _ _ _ _ _ H) as [l [Hl [Ht [Hw _]]]].
  unfold den. rewrite Hl. cbn. f_equal. f_equal. rewrite Hw. cbn.
  unfold total_on. f_equal.
  specialize (Hall _ _ Hl). clear - Hall.
  induction l as [|q l IH]; cbn; [reflexivity|].
  rewrite (Hall q (or_introl eq_refl)). f_equal. apply IH. intros q' Hq'. apply Hall. right; exact Hq'.
Qed.
Print Assumptions C02_all_constrained.

(** A whole sub-call left unconstrained contributes 0: sites under an address
    the constraint does not bind are not counted. *)
Theorem C02_unbound_subcall_zero :
  forall (LX : list (addr * cm)) a (l : list (path * Z)),
    lookup a LX = None ->
    total_on (cm_binds (CNode LX)) (map (fun q => (a :: fst q, snd q)) l) = 0.
Proof.
  intros LX a l H. rewrite total_on_prefix.
  erewrite total_on_ext; [apply total_on_false|].
  intros p. cbn. rewrite H. reflexivity.
Qed.
Print Assumptions C02_unbound_subcall_zero.

Definition ex_prog : gast :=
  AFn (PCall 0 (ADist 0) [EV 0; EV 1]
      (PCall 1 (AVmap 2 [true; false] (AFn (PCall 0 (ADist 1) [EV 0; EV 1] (PRet (EV 2)))))
               [ETup [EK 1; EK 4]; EV 2]
      (PRet (EIdx (EV 3) 1)))).

Example C02_nonvacuous :
  exists t w, reach (gf_generate (compile ex_prog)
                       (Some (CNode [(AName 1, CNode [(ALane 1, CNode [(AName 0, CLeaf (VZ 9))])])]))
                       (VTup [VZ 3; VZ 1])) (t, w)
              /\ w = -13 /\ get_retval t = VZ 9.
Proof.
  destruct (run_echo (gf_generate (compile ex_prog)
                       (Some (CNode [(AName 1, CNode [(ALane 1, CNode [(AName 0, CLeaf (VZ 9))])])]))
                       (VTup [VZ 3; VZ 1]))) as [[t w]|] eqn:E; [|vm_compute in E; discriminate].
  exists t, w. split; [apply run_echo_reach; exact E|].
  vm_compute in E. inversion E; subst. vm_compute. auto.
Qed.

(** ** generate is a properly weighted sampler (finite discrete, Cond-free programs)
    For every Cond-free program (any nesting of distributions, @gen functions, Vmap and
    Scan), every constraint map with values in the outcome universe U, all arguments
    and every test function G:
        E_generate[ exp(w) G(trace) ] = E_simulate[ 1{trace holds the constrained values} G(trace) ]
    in particular exp(weight) is an unbiased estimate of the probability of the
    constraints, and weighted generate samples target the conditional distribution.
    Cond is excluded (partial). *)
From Coq Require Import QArith Qcanon.
From GV Require Import Lemmas.Law.
Theorem C02_importance_identity :
  forall (U : list value), NoDup U ->
  forall g x args (G : tr -> Qc), NC g -> oleaves_in U x ->
    Ex U (gf_generate g x args) (fun tw => pow2 (snd tw) * G (fst tw))%Qc
    = Ex U (gf_simulate g args) (fun t => if agreesb x t then G t else 0%Qc).
Proof. intros U HU g x args G. apply importance_identity'. exact HU. Qed.
Print Assumptions C02_importance_identity.

Theorem C02_weight_unbiased :
  forall (U : list value), NoDup U ->
  forall g x args, NC g -> oleaves_in U x ->
    Ex U (gf_generate g x args) (fun tw => pow2 (snd tw))
    = Ex U (gf_simulate g args) (fun t => if agreesb x t then 1%Qc else 0%Qc).
Proof. intros U HU g x args. apply generate_weight_unbiased. exact HU. Qed.
Print Assumptions C02_weight_unbiased.

(** every syntax tree without Cond compiles to such a program *)
Theorem C02_compile_cond_free : forall g, nocond g = true -> NC (compile g).
Proof. exact NC_compile. Qed.
Print Assumptions C02_compile_cond_free.
