(** C04 — regenerate: coherent new trace for every selection; MH weight when no
    Cond switches branch; the frame clause for Cond-free programs
    (C04_regenerate_frame).  The frame clause for Cond programs, the discard clause
    and definedness are judged per case by the correspondence (Model/Corr.v:regen_spec). *)
From GV Require Import Model.Gfi Model.Spec Model.Ast Model.Corr
     Lemmas.CmLemmas Lemmas.GfiCoh Lemmas.GfiGen Lemmas.GfiUpd Lemmas.GfiRegen Lemmas.Law Lemmas.GfiFrame.

Theorem C04_regenerate_coherent :
  forall g t s args' t' w d, reach (gf_regenerate g t s args') (t', w, d) ->
    den g (choices t') args' = Ok (- get_score t', get_retval t').
Proof.
  intros g t s args' t' w d H.
  destruct (SC_coherent _ _ _ (regenerate_SC _ _ _ _ _ _ _ H)) as [l [Hl Ht]].
  unfold den. rewrite Hl. cbn. rewrite Ht. reflexivity.
Qed.
Print Assumptions C04_regenerate_coherent.

(** weight = (change in joint log density) - (change in the log prior of the
    selected sites), for every program, selection and outcome of the resampled
    draws, whenever no Cond switches branch and the address skeleton is static. *)
Theorem C04_regenerate_weight :
  forall g args t s args' t' w d,
    SC g args t -> reach (gf_regenerate g t s args') (t', w, d) -> same_shape_chk t t' = true ->
    exists l l' r r',
      gf_sites g (choices t) args = Ok (l, r) /\ gf_sites g (choices t') args' = Ok (l', r') /\
      w = (total l' - total l) - (total_on (selected s) l' - total_on (selected s) l).
Proof.
  intros g args t s args' t' w d Hsc H Hs.
  pose proof (regenerate_weight _ _ _ _ _ _ _ H (SC_WS _ _ _ Hsc) Hs) as Hw.
  destruct (SC_unsel _ _ _ Hsc _ (covers_refl _)) as [l [Hl Hu]].
  destruct (SC_unsel _ _ _ (regenerate_SC _ _ _ _ _ _ _ H) _ (covers_refl _)) as [l' [Hl' Hu']].
  exists l, l', (get_retval t), (get_retval t'). repeat split; auto.
  rewrite (total_split (selected s) l), (total_split (selected s) l').
  specialize (Hu s). specialize (Hu' s). unfold unselp in *. lia.
Qed.
Print Assumptions C04_regenerate_weight.

(** Everything selected => weight 0. *)
Theorem C04_all_selected_zero :
  forall g args t args' t' w d,
    SC g args t -> reach (gf_regenerate g t SAll args') (t', w, d) -> same_shape_chk t t' = true ->
    w = 0.
Proof.
  intros g args t args' t' w d Hsc H Hs.
  destruct (C04_regenerate_weight _ _ _ _ _ _ _ _ Hsc H Hs) as [l [l' [r [r' [_ [_ Hw]]]]]].
  assert (E : forall m, total_on (selected SAll) m = total m).
  { intros m. rewrite <- total_on_true. apply total_on_ext. intros p. apply selected_all. }
  rewrite !E in Hw. lia.
Qed.
Print Assumptions C04_all_selected_zero.

(** Nothing selected => weight = plain density ratio (0 under unchanged
    arguments, because then no value and no parameter changes). *)
Theorem C04_none_selected_ratio :
  forall g args t args' t' w d,
    SC g args t -> reach (gf_regenerate g t SNone args') (t', w, d) -> same_shape_chk t t' = true ->
    w = get_score t - get_score t'.
Proof.
  intros g args t args' t' w d Hsc H Hs.
  destruct (C04_regenerate_weight _ _ _ _ _ _ _ _ Hsc H Hs) as [l [l' [r [r' [Hl [Hl' Hw]]]]]].
  assert (E : forall m, total_on (selected SNone) m = 0).
  { intros m. rewrite <- (total_on_false m). apply total_on_ext. intros p. apply selected_none. }
  rewrite !E in Hw.
  destruct (SC_coherent _ _ _ Hsc) as [l0 [Hl0 Ht0]].
  destruct (SC_coherent _ _ _ (regenerate_SC _ _ _ _ _ _ _ H)) as [l1 [Hl1 Ht1]].
  rewrite Hl in Hl0. rewrite Hl' in Hl1. inversion Hl0; inversion Hl1; subst. lia.
Qed.
Print Assumptions C04_none_selected_ratio.

Definition ex_prog : gast :=
  AFn (PCall 0 (ADist 0) [EV 0; EK 1]
      (PCall 1 (AScan 2 (AFn (PCall 0 (ADist 1) [EAdd (EV 1) (EV 0); EV 0]
                          (PRet (ETup [EV 2; EV 2])))))
               [EV 2; ETup [EV 1; EK 4]]
      (PRet (EIdx (EV 3) 0)))).

Example C04_nonvacuous :
  exists t t' w d,
    reach (gf_simulate (compile ex_prog) (VTup [VZ 3; VZ 1])) t /\
    reach (gf_regenerate (compile ex_prog) t (SStr 0) (VTup [VZ 7; VZ 2])) (t', w, d) /\
    same_shape_chk t t' = true /\ w <> 0.
Proof.
  destruct (run_echo (gf_simulate (compile ex_prog) (VTup [VZ 3; VZ 1]))) as [t|] eqn:E;
    [|vm_compute in E; discriminate].
  destruct (run_echo (gf_regenerate (compile ex_prog) t (SStr 0) (VTup [VZ 7; VZ 2])))
    as [[[t' w] d]|] eqn:U.
  - exists t, t', w, d. split; [apply run_echo_reach; exact E|]. split; [apply run_echo_reach; exact U|].
    vm_compute in E. inversion E; subst. vm_compute in U. inversion U; subst.
    vm_compute. split; auto; discriminate.
  - vm_compute in E. inversion E; subst. vm_compute in U. discriminate.
Qed.

(** Frame (Cond-free programs): every leaf of the regenerated trace's choice map lies in the
    selection or is the old trace's value at that path - unselected choices are untouched. *)
Theorem C04_regenerate_frame :
  forall g, NC g ->
  forall t s args t' w d, reach (gf_regenerate g t s args) (t', w, d) ->
    forall p v, leaf_at (choices t') p v -> selected s p = true \/ leaf_at (choices t) p v.
Proof. intros g Hg t s args t' w d H. exact (regenerate_framed g Hg t s args t' w d H). Qed.
Print Assumptions C04_regenerate_frame.
