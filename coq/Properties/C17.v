(** C17 — the ELBO objective and the VI loop.
    Mechanised: the value of the objective for every draw, tightness at the exact
    posterior, merge precedence, the update rule and the completeness of the
    history; the bound E_q[elbo] <= log p(x) with equality at the exact posterior for
    latents of finite support (over the reals, at the end of this file).  NOT mechanised
    (partial): unbiasedness of the ELBO and of its gradient (they are C11's statement
    applied to this objective, proved there for finite flip programs), and the bound
    for continuous latents. *)
From Coq Require Import QArith List Lia Reals Lra.
Import ListNotations.
From GV Require Import Model.Gfi Model.Spec Model.Vi Lemmas.CmLemmas Lemmas.GfiCoh Lemmas.Jensen Properties.C01.

(** For every target, family, constraint, arguments and every draw z of the
    family: objective = log p(merged choices) + (-log q(z)) = log p(x, z) - log q(z). *)
Theorem C17_elbo_value :
  forall target family obs targs qargs v,
    reach (elbo target family obs targs qargs) v ->
    exists tq lp r lq rq,
      reach (gf_simulate family qargs) tq /\
      den target (cm_merge obs (choices tq)) targs = Ok (lp, r) /\
      den family (choices tq) qargs = Ok (lq, rq) /\
      v = (lp - lq)%Z.
Proof.
  intros target family obs targs qargs v H. unfold elbo in H.
  apply reach_bind in H as [tq [Hq H]].
  apply reach_bind in H as [[lp r] [Ha H]]. apply reach_lift in Ha. apply reach_ret in H. subst v.
  exists tq, lp, r, (- get_score tq)%Z, (get_retval tq).
  split; [exact Hq|]. split; [apply C01_assess_is_density; exact Ha|].
  split; [apply C01_simulate_coherent; exact Hq|]. lia.
Qed.
Print Assumptions C17_elbo_value.

(** Tight at the exact posterior: if for every draw log q(z) = log p(x,z) - C
    then the objective equals C (= log p(x)) for every draw. *)
Theorem C17_elbo_tight :
  forall target family obs targs qargs C,
    (forall tq lp r lq rq,
        reach (gf_simulate family qargs) tq ->
        den target (cm_merge obs (choices tq)) targs = Ok (lp, r) ->
        den family (choices tq) qargs = Ok (lq, rq) -> lq = (lp - C)%Z) ->
    forall v, reach (elbo target family obs targs qargs) v -> v = C.
Proof.
  intros target family obs targs qargs C Hpost v H.
  destruct (C17_elbo_value _ _ _ _ _ _ H) as [tq [lp [r [lq [rq [Hq [Hp [Hlq Hv]]]]]]]].
  pose proof (Hpost _ _ _ _ _ Hq Hp Hlq). lia.
Qed.
Print Assumptions C17_elbo_tight.

(** merge precedence: on an address present in both, the family's choice wins *)
Theorem C17_merge_precedence :
  forall a vc vq, cm_get a (cm_merge (CNode [(a, CLeaf vc)]) (CNode [(a, CLeaf vq)])) = Some (CLeaf vq).
Proof. intros. cbn. rewrite !addr_eqb_refl. reflexivity. Qed.
Print Assumptions C17_merge_precedence.

(** optimize_vi applies params + learning_rate * gradient at every iteration,
    returns every iterate in the history and the last one as final parameters —
    for every gradient estimator, learning rate and iteration count. *)
Theorem C17_vi_rule :
  forall grad lr n k p,
    let '(fin, hist) := ascent grad lr n k p in
    length hist = n /\
    (forall i, (i < n)%nat -> nth i hist 0%Q = iterate grad lr (S i) k p) /\
    fin = iterate grad lr n k p.
Proof.
  intros grad lr n. induction n as [|n IH]; intros k p; cbn [ascent].
  - split; [reflexivity|]. split; [intros i Hi; lia|reflexivity].
  - specialize (IH (S k) (p + lr * grad k p)%Q).
    destruct (ascent grad lr n (S k) (p + lr * grad k p)%Q) as [fin hist].
    destruct IH as [Hl [Hn Hf]]. split; [cbn; lia|]. split.
    + intros i Hi. destruct i as [|i]; cbn [nth iterate]; [reflexivity|]. apply Hn. lia.
    + exact Hf.
Qed.
Print Assumptions C17_vi_rule.

Example C17_nonvacuous :
  let r := ascent (fun _ p => (- (2 # 1) * (p - (3 # 1)))%Q) (1 # 4)%Q 3 0 (1 # 1)%Q in
  (fst r == 11 # 4)%Q /\ length (snd r) = 3%nat /\ (nth 0 (snd r) 0 == 2 # 1)%Q.
Proof. vm_compute. repeat split; reflexivity. Qed.

(** The objective lies below the log evidence in expectation, with equality at the exact posterior:
    for a latent with finitely many values, family masses q_i > 0 summing to 1 and joint masses
    p_i = p(x, z_i) > 0 (the list holds the pairs (q_i, p_i)),
       E_q[log p(x,z) - log q(z)] = sum_i q_i ln (p_i / q_i) <= ln (sum_i p_i) = ln p(x). *)
Theorem C17_elbo_below_log_evidence :
  forall l : list (R * R),
    l <> [] -> Forall (fun qp => (0 < fst qp /\ 0 < snd qp)%R) l -> rsum fst l = 1%R ->
    (rsum (fun qp => fst qp * ln (snd qp / fst qp)) l <= ln (rsum snd l))%R.
Proof. exact elbo_le_log_evidence. Qed.
Print Assumptions C17_elbo_below_log_evidence.

Theorem C17_elbo_tight_at_posterior_real :
  forall ps : list R,
    ps <> [] -> Forall (fun p => (0 < p)%R) ps ->
    let P := rsum (fun p => p) ps in
    rsum (fun p => (p / P) * ln (p / (p / P)))%R ps = ln P.
Proof. exact elbo_tight_at_posterior. Qed.
Print Assumptions C17_elbo_tight_at_posterior_real.

Example C17_bound_nonvacuous :
  [(1/2, 1/4); (1/2, 1/8)]%R <> [] /\
  Forall (fun qp : R * R => (0 < fst qp /\ 0 < snd qp)%R) [(1/2, 1/4); (1/2, 1/8)]%R /\
  rsum fst [(1/2, 1/4); (1/2, 1/8)]%R = 1%R.
Proof.
  split; [discriminate|]. split.
  - repeat constructor; cbn; lra.
  - cbn. lra.
Qed.
