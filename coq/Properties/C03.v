(** C03 — update: coherent new trace, weight = density ratio (also across a
    Cond flip).  The value-frame clause is proved for Cond-free programs
    (C03_update_frame) and refuted for Cond flips (C03_frame_full_refuted, K1); the
    discard / round-trip clauses are checked by the correspondence
    (Model/Corr.v:upd_spec) only (partial). *)
From GV Require Import Model.Gfi Model.Spec Model.Ast Model.Corr
     Lemmas.CmLemmas Lemmas.GfiCoh Lemmas.GfiUpd Lemmas.Law Lemmas.GfiFrame.

(** The updated trace is coherent under the new arguments: for every program,
    every old trace, every constraint and every new argument value. *)
Theorem C03_update_coherent :
  forall g t x args' t' w d, gf_update g t x args' = Ok (t', w, d) ->
    den g (choices t') args' = Ok (- get_score t', get_retval t').
Proof.
  intros g t x args' t' w d H.
  destruct (SC_coherent _ _ _ (update_SC _ _ _ _ _ _ _ H)) as [l [Hl Ht]].
  unfold den. rewrite Hl. cbn. rewrite Ht. reflexivity.
Qed.
Print Assumptions C03_update_coherent.

(** weight = log p(new choices; new args) - log p(old choices; old args),
    whenever the new execution visits the addresses recorded in the old trace
    (static address structure) — including argument changes that switch the
    branch taken by a Cond. *)
Theorem C03_update_weight :
  forall g args t x args' t' w d,
    SC g args t -> gf_update g t x args' = Ok (t', w, d) -> same_shape t t' = true ->
    exists p p' r r',
      den g (choices t) args = Ok (p, r) /\ den g (choices t') args' = Ok (p', r') /\ w = p' - p.
Proof.
  intros g args t x args' t' w d Hsc H Hs.
  pose proof (update_weight _ _ _ _ _ _ _ H (SC_WS _ _ _ Hsc) Hs) as Hw.
  destruct (SC_coherent _ _ _ Hsc) as [l [Hl Ht]].
  destruct (SC_coherent _ _ _ (update_SC _ _ _ _ _ _ _ H)) as [l' [Hl' Ht']].
  exists (total l), (total l'), (get_retval t), (get_retval t'). unfold den. rewrite Hl, Hl'. cbn.
  repeat split; auto. lia.
Qed.
Print Assumptions C03_update_weight.

(** Consecutive updates telescope (used by C05). *)
Theorem C03_update_telescope :
  forall g t0 x1 a1 t1 w1 d1 x2 a2 t2 w2 d2,
    WS t0 ->
    gf_update g t0 x1 a1 = Ok (t1, w1, d1) -> same_shape t0 t1 = true ->
    WS t1 ->
    gf_update g t1 x2 a2 = Ok (t2, w2, d2) -> same_shape t1 t2 = true ->
    w1 + w2 = get_score t0 - get_score t2.
Proof.
  intros. pose proof (update_weight _ _ _ _ _ _ _ H0 H H1).
  pose proof (update_weight _ _ _ _ _ _ _ H3 H2 H4). lia.
Qed.
Print Assumptions C03_update_telescope.

(** Full frame statement (judged per case by the correspondence, not yet proved
    for all programs). *)
Definition C03_frame_full : Prop :=
  forall g args t x args' t' w d,
    SC g args t -> gf_update g t x args' = Ok (t', w, d) ->
    upd_spec true g (obs_of t) args x args' (obs_of t', w, d) = true.

(** Known finding K1: when the new arguments flip a top-level Cond whose
    branches share an address, the unconstrained shared address does not keep
    its old visible value (the newly visible branch shows its own retained
    value), so [C03_frame_full] is false of the faithful model. *)
Definition k1_prog : gast :=
  ACond (AFn (PCall 0 (ADist 0) [EV 0; EK 0] (PRet (EV 1))))
        (AFn (PCall 0 (ADist 0) [EAdd (EV 0) (EK 10); EK 0] (PRet (EV 1)))).

Theorem C03_frame_full_refuted : ~ C03_frame_full.
Proof.
  intros F.
  destruct (run_echo (gf_simulate (compile k1_prog) (VTup [VB true; VZ 3]))) as [t|] eqn:E;
    [|vm_compute in E; discriminate].
  pose proof (simulate_SC _ _ _ (run_echo_reach _ _ E)) as Hsc.
  destruct (gf_update (compile k1_prog) t None (VTup [VB false; VZ 3])) as [[[t' w] d]|] eqn:U.
  - specialize (F _ _ _ _ _ _ _ _ Hsc U).
    vm_compute in E. inversion E; subst. vm_compute in U. inversion U; subst.
    vm_compute in F. discriminate.
  - vm_compute in E. inversion E; subst. vm_compute in U. discriminate.
Qed.
Print Assumptions C03_frame_full_refuted.

(** Non-vacuity: an update that flips a Cond inside a function; the weight is
    the density ratio across the flip. *)
Definition ex_prog : gast :=
  AFn (PCall 0 (ADist 0) [EV 0; EK 1]
      (PCall 1 (ACond (AFn (PCall 0 (ADist 1) [EV 0; EK 0] (PRet (EV 1))))
                      (AFn (PCall 0 (ADist 2) [EAdd (EV 0) (EK 2); EK 5] (PRet (EV 1)))))
               [EGt (EV 1) (EK 0); EV 0]
      (PRet (EAdd (EV 2) (EV 3))))).

Example C03_nonvacuous :
  exists t t' w d,
    reach (gf_simulate (compile ex_prog) (VTup [VZ 3; VZ 1])) t /\
    gf_update (compile ex_prog) t (Some (CNode [(AName 0, CLeaf (VZ 4))])) (VTup [VZ 3; VZ (-1)]) = Ok (t', w, d) /\
    same_shape t t' = true /\ w = get_score t - get_score t' /\ w <> 0.
Proof.
  destruct (run_echo (gf_simulate (compile ex_prog) (VTup [VZ 3; VZ 1]))) as [t|] eqn:E;
    [|vm_compute in E; discriminate].
  destruct (gf_update (compile ex_prog) t (Some (CNode [(AName 0, CLeaf (VZ 4))])) (VTup [VZ 3; VZ (-1)]))
    as [[[t' w] d]|] eqn:U.
  - exists t, t', w, d. split; [apply run_echo_reach; exact E|]. split; [exact U|].
    vm_compute in E. inversion E; subst. vm_compute in U. inversion U; subst.
    vm_compute. repeat split; auto; discriminate.
  - vm_compute in E. inversion E; subst. vm_compute in U. discriminate.
Qed.

(** Frame (Cond-free programs: any nesting of distributions, @gen functions, Vmap and Scan):
    every leaf of the updated trace's choice map is the constraint's value at that path or,
    where the constraint does not reach, the old trace's value - nothing else changes. *)
Theorem C03_update_frame :
  forall g, NC g ->
  forall t x args t' w d, gf_update g t (Some x) args = Ok (t', w, d) ->
    forall p v, leaf_at (choices t') p v ->
      leaf_at x p v \/ (cm_at x p = None /\ leaf_at (choices t) p v).
Proof. intros g Hg t x args t' w d H. exact (update_framed g Hg t x args t' w d H). Qed.
Print Assumptions C03_update_frame.
