(** C15 — on deterministic code ADEV is forward-mode AD. *)
From Coq Require Import QArith List Bool Setoid.
Import ListNotations.
From GV Require Import Model.AdevDet.
Open Scope Q_scope.

Lemma inst_canon t : instantiate (canonicalize t) = instantiate t.
Proof. destruct t; reflexivity. Qed.

Lemma map_inst_canon ts :
  map (fun t => TV (instantiate t)) (map canonicalize ts) = map (fun t => TV (instantiate t)) ts.
Proof. induction ts as [|t ts IH]; cbn; [reflexivity|]. rewrite inst_canon, IH. reflexivity. Qed.

Lemma all_zero_forall ts : forallb is_zero ts = true -> Forall (fun t => instantiate t == 0) ts.
Proof.
  induction ts as [|t ts IH]; cbn; intros H; constructor.
  - destruct t; cbn in *; try discriminate; reflexivity.
  - apply IH. destruct (is_zero t); [exact H|discriminate].
Qed.

(** For every primitive whose JVP rule meets JAX's contract (primal output is
    the value; symbolic zeros mean zero; linear in the tangents), every input
    and every mix of symbolic-zero / float0 / materialised tangents, the ADEV
    default branch returns the same primal and tangent as jax.jvp. *)
Theorem C15_default_is_jvp :
  forall p ps ts, jvp_ok p ->
    fst (adev_default p ps ts) = fst (reference_jvp p ps ts) /\
    snd (adev_default p ps ts) == snd (reference_jvp p ps ts).
Proof.
  intros p ps ts [Hv [Hi Hz]]. unfold adev_default, reference_jvp.
  destruct (forallb is_zero (map canonicalize ts)) eqn:E.
  - pose proof (all_zero_forall _ E) as Hall.
    destruct (p_jvp p ps (map (fun t => TV (instantiate t)) ts)) as [v t] eqn:Er. cbn.
    split.
    + rewrite <- (Hv ps (map (fun t => TV (instantiate t)) ts)), Er. reflexivity.
    + assert (Hall' : Forall (fun t => instantiate t == 0) (map (fun t => TV (instantiate t)) ts)).
      { clear - Hall. induction ts as [|t ts IH]; cbn in *; constructor; inversion Hall; subst.
        - cbn. rewrite <- inst_canon. assumption.
        - apply IH; assumption. }
      pose proof (Hz ps _ Hall') as H0. rewrite Er in H0. cbn in H0. symmetry. exact H0.
  - destruct (p_jvp p ps (map canonicalize ts)) as [v t] eqn:E1.
    destruct (p_jvp p ps (map (fun t => TV (instantiate t)) ts)) as [v' t'] eqn:E2. cbn.
    split.
    + pose proof (Hv ps (map canonicalize ts)) as A. pose proof (Hv ps (map (fun t => TV (instantiate t)) ts)) as B.
      rewrite E1 in A. rewrite E2 in B. cbn in A, B. congruence.
    + pose proof (Hi ps (map canonicalize ts)) as A. rewrite E1, map_inst_canon, E2 in A. exact A.
Qed.
Print Assumptions C15_default_is_jvp.

(** cond with either branch taken: the reversed branch list handed to lax.cond
    selects the same branch as cond_p's integer index *)
Theorem C15_cond_either_branch :
  forall A (bF bT d : A) pred, adev_cond [bF; bT] pred d = cond_p_semantics [bF; bT] pred d.
Proof. intros A bF bT d pred. destruct pred; reflexivity. Qed.
Print Assumptions C15_cond_either_branch.

(** estimate returns the function value: zero tangents of any shape give the primal *)
Theorem C15_estimate_is_value :
  forall p ps, jvp_ok p -> fst (adev_default p ps (estimate_tangents ps)) = p_val p ps.
Proof.
  intros p ps [Hv _]. unfold adev_default.
  destruct (forallb is_zero (map canonicalize (estimate_tangents ps))); [reflexivity|].
  destruct (p_jvp p ps (map canonicalize (estimate_tangents ps))) as [v t] eqn:E.
  cbn. rewrite <- (Hv ps (map canonicalize (estimate_tangents ps))), E. reflexivity.
Qed.
Print Assumptions C15_estimate_is_value.

(** non-vacuity: multiplication with its JVP rule meets the contract *)
Definition mul_prim : prim :=
  {| p_val := fun ps => nth 0 ps 0 * nth 1 ps 0;
     p_jvp := fun ps ts =>
       (nth 0 ps 0 * nth 1 ps 0,
        match nth 0 ts TZero, nth 1 ts TZero with
        | TV a, TV b => TV (a * nth 1 ps 0 + nth 0 ps 0 * b)
        | TV a, _ => TV (a * nth 1 ps 0)
        | _, TV b => TV (nth 0 ps 0 * b)
        | _, _ => TZero
        end) |}.
Example C15_nonvacuous :
  adev_default mul_prim [3; 5] [TFloat0; TV 2] = (15, 6) /\ reference_jvp mul_prim [3; 5] [TFloat0; TV 2] = (15, 3 * 2 + 0 * 5).
Proof. split; reflexivity. Qed.
