(** C10 — SMC particles are properly weighted (weight identities); resampling
    keeps exp(log_marginal_likelihood).  The expectation statement (unbiased
    evidence) is not mechanised here: it is the finite-support corollary of
    these identities and is listed as the unproved remainder. *)
From Coq Require Import QArith.
From GV Require Import Model.Gfi Model.Spec Model.Smc Model.Resample
     Lemmas.CmLemmas Lemmas.GfiCoh Lemmas.GfiGen Lemmas.ResampleLemmas.

Definition unbound (c : cm) (p : path) : bool := negb (cm_binds c p).

Lemma total_on_split c l : total l = total_on (cm_binds c) l + total_on (unbound c) l.
Proof.
  unfold total_on, total, unbound. induction l as [|[p z] l IH]; cbn; [reflexivity|].
  destruct (cm_binds c p); cbn; lia.
Qed.

(** init / extend with the model's own proposal: the (incremental) log weight is
    log p(all choices) - log q(unconstrained choices | constraints), q being the
    conditional prior of the unconstrained sites. *)
Theorem C10_default_weight :
  forall g args obs t lw, reach (init_default g args obs) (t, lw) ->
    exists l, gf_sites g (choices t) args = Ok (l, get_retval t)
              /\ total l = - get_score t
              /\ lw = total l - total_on (unbound obs) l
              /\ held obs (choices t) l.
Proof.
  intros g args obs t lw H. unfold init_default in H.
  destruct (generate_spec _ _ _ _ _ H) as [_ G].
  destruct (G _ (covers_refl _)) as [l [Hl [Ht [Hw Hh]]]].
  exists l. repeat split; auto. cbn in Hw. rewrite (total_on_split obs l). lia.
Qed.
Print Assumptions C10_default_weight.

(** custom proposal: weight = log p(choices, obs) - log q(proposed choices)
    whenever the proposal and the observations together cover the target's sites. *)
Theorem C10_custom_weight :
  forall g q args obs t lw, reach (init_custom g q args obs) (t, lw) ->
    exists tq l lq r,
      reach (gf_simulate q args) tq /\
      gf_sites g (choices t) args = Ok (l, get_retval t) /\
      gf_sites q (choices tq) args = Ok (lq, r) /\
      total l = - get_score t /\
      lw = total_on (cm_binds (cm_merge (choices tq) obs)) l - total lq /\
      held (cm_merge (choices tq) obs) (choices t) l /\
      ((forall p, In p l -> cm_binds (cm_merge (choices tq) obs) (fst p) = true) ->
       lw = total l - total lq).
Proof.
  intros g q args obs t lw H. unfold init_custom in H.
  apply reach_bind in H as [tq [Hq H]].
  apply reach_bind in H as [[t' w] [Hg H]]. apply reach_ret in H. inversion H; subst.
  destruct (generate_spec _ _ _ _ _ Hg) as [_ G].
  destruct (G _ (covers_refl _)) as [l [Hl [Ht [Hw Hh]]]].
  destruct (SC_coherent _ _ _ (simulate_SC _ _ _ Hq)) as [lq [Hlq Htq]].
  exists tq, l, lq, (get_retval tq). repeat split; auto.
  - cbn in Hw. lia.
  - intros Hall. cbn in Hw. rewrite Hw.
    assert (E : total_on (cm_binds (cm_merge (choices tq) obs)) l = total l).
    { unfold total_on. f_equal. clear - Hall. induction l as [|p l IH]; cbn; [reflexivity|].
      rewrite (Hall p (or_introl eq_refl)). f_equal. apply IH. intros p' Hp'. apply Hall. right; exact Hp'. }
    lia.
Qed.
Print Assumptions C10_custom_weight.

(** extend accumulates exactly the incremental weight of the same form *)
Theorem C10_extend_weight :
  forall g args obs lw0 t lw, reach (extend_default g args obs lw0) (t, lw) ->
    exists l, gf_sites g (choices t) args = Ok (l, get_retval t)
              /\ lw - lw0 = total l - total_on (unbound obs) l.
Proof.
  intros g args obs lw0 t lw H. unfold extend_default in H.
  apply reach_bind in H as [[t' w] [Hg H]]. apply reach_ret in H. inversion H; subst.
  destruct (C10_default_weight _ _ _ _ _ Hg) as [l [Hl [_ [Hw _]]]].
  exists l; split; auto. lia.
Qed.
Print Assumptions C10_extend_weight.

Theorem C10_extend_custom_weight :
  forall g q args obs lw0 t lw, reach (extend_custom g q args obs lw0) (t, lw) ->
    exists tq l lq r,
      gf_sites g (choices t) args = Ok (l, get_retval t) /\
      gf_sites q (choices tq) args = Ok (lq, r) /\
      lw - lw0 = total_on (cm_binds (cm_merge obs (choices tq))) l - total lq.
Proof.
  intros g q args obs lw0 t lw H. unfold extend_custom in H.
  apply reach_bind in H as [tq [Hq H]].
  apply reach_bind in H as [[t' w] [Hg H]]. apply reach_ret in H. inversion H; subst.
  destruct (generate_spec _ _ _ _ _ Hg) as [_ G].
  destruct (G _ (covers_refl _)) as [l [Hl [Ht [Hw Hh]]]].
  destruct (SC_coherent _ _ _ (simulate_SC _ _ _ Hq)) as [lq [Hlq Htq]].
  exists tq, l, lq, (get_retval tq). repeat split; auto. cbn in Hw. lia.
Qed.
Print Assumptions C10_extend_custom_weight.

(** rejuvenation moves leave weights untouched, whatever the kernel *)
Theorem C10_rejuvenate_keeps_weight :
  forall A (kernel : tr -> samp A) p t' lw, reach (rejuvenate kernel p) (t', lw) -> lw = snd p.
Proof.
  intros A kernel p t' lw H. unfold rejuvenate in H.
  apply reach_bind in H as [t1 [_ H]]. apply reach_ret in H. inversion H; reflexivity.
Qed.
Print Assumptions C10_rejuvenate_keeps_weight.

(** resampling (any trigger, any index vector) keeps exp(log_marginal_likelihood) *)
Theorem C10_resample_keeps_marginal :
  forall (P : Type) (d : P) (c : pc P) (idx : list nat),
    idx <> [] -> weights c <> [] -> (marginal (resample d c idx) == marginal c)%Q.
Proof. intros. apply resample_marginal; assumption. Qed.
Print Assumptions C10_resample_keeps_marginal.

(** ** the evidence estimate of init is unbiased (finite discrete, Cond-free targets,
    default proposal, N >= 1 independent particles, no mass lost to exceptions):
    E[ (1/N) sum_i exp(w_i) ] = P_simulate(observations).  The estimate after
    extend / resample / rejuvenate stages is covered by the weight identities above
    only (partial). *)
From Coq Require Import Qcanon.
From GV Require Import Lemmas.Law.
Theorem C10_init_estimate_unbiased :
  forall (U : list value), NoDup U ->
  forall g obs args n, NC g -> leaves_in U obs -> (0 < n)%nat ->
    Ex U (init_default g args obs) (fun _ => 1%Qc) = 1%Qc ->
    Ex U (repl n (init_default g args obs))
       (fun ps => sumf (fun tw => pow2 (snd tw)) ps / qcn n)%Qc
    = Ex U (gf_simulate g args) (fun t => if agreesb (Some obs) t then 1%Qc else 0%Qc).
Proof. intros U HU g obs args n. apply smc_init_estimate_unbiased. exact HU. Qed.
Print Assumptions C10_init_estimate_unbiased.

(** One resample-then-extend stage (categorical method; the ancestor vector modelled as N independent
    draws with probabilities w_i / W, [ResampleLaw.EcatN] the exact expectation over them): with running
    estimate [est], weights w_i and u(i) the expected incremental weight of extending particle i, the
    estimate est * mean(w) * mean_j u(a_j) after resampling and extension has the expectation
    est * mean_i (w_i u(i)) of the estimate obtained by extending without resampling - resampling
    introduces no bias into the next step (so unbiasedness propagates through hand-composed
    init / resample / extend pipelines, given the per-particle weight identities above). *)
From GV Require Lemmas.ResampleLaw.
Theorem C10_resample_then_extend_unbiased :
  forall (ws : list Qc) (u : nat -> Qc) (est : Qc) (n : nat),
    ResampleLaw.sumq ws <> 0%Qc -> (0 < n)%nat ->
    ResampleLaw.EcatN ws n
      (fun l => est * (ResampleLaw.sumq ws / ResampleLaw.qcn n) * (ResampleLaw.sumf u l / ResampleLaw.qcn n))%Qc
    = (est * (ResampleLaw.sumf (fun i => nth i ws 0 * u i) (seq 0 (length ws)) / ResampleLaw.qcn n))%Qc.
Proof. intros ws u est n HW Hn. apply ResampleLaw.resample_extend_unbiased; assumption. Qed.
Print Assumptions C10_resample_then_extend_unbiased.
