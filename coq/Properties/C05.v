(** C05 — traces stay coherent under any history; update weights telescope. *)
From GV Require Import Model.Gfi Model.Spec Model.Ast
     Lemmas.CmLemmas Lemmas.GfiCoh Lemmas.GfiUpd Lemmas.GfiRegen Lemmas.GfiHist.

(** After any finite sequence of update / regenerate / mh-shaped / mala-hmc-
    shaped moves (accepted or rejected) and identity round trips, starting from
    any trace simulate can return, the trace's score is minus the joint log
    density of its choices under the arguments it records and its return value
    is the program's return value on those choices. *)
Theorem C05_history_coherent :
  forall g args0 t0 ops t a,
    reach (gf_simulate g args0) t0 -> hsteps g (t0, args0) ops (t, a) ->
    den g (choices t) a = Ok (- get_score t, get_retval t).
Proof.
  intros g args0 t0 ops t a H0 Hh.
  pose proof (history_SC g _ _ _ Hh (simulate_SC _ _ _ H0)) as Hsc. cbn in Hsc.
  destruct (SC_coherent _ _ _ Hsc) as [l [Hl Ht]].
  unfold den. rewrite Hl. cbn. rewrite Ht. reflexivity.
Qed.
Print Assumptions C05_history_coherent.

(** The weights of consecutive updates sum to a quantity that depends only on
    the first and the last trace: log p(last) - log p(first). *)
Theorem C05_updates_telescope :
  forall g args0 t0 us t W,
    reach (gf_simulate g args0) t0 -> usteps g t0 us t W ->
    W = get_score t0 - get_score t.
Proof.
  intros g args0 t0 us t W H0 Hu.
  exact (updates_telescope g args0 _ _ _ _ Hu (simulate_SC _ _ _ H0)).
Qed.
Print Assumptions C05_updates_telescope.

Definition ex_prog : gast :=
  AFn (PCall 0 (ADist 0) [EV 0; EK 1]
      (PCall 1 (ACond (AFn (PCall 0 (ADist 1) [EV 0; EK 0] (PRet (EV 1))))
                      (AFn (PCall 0 (ADist 2) [EAdd (EV 0) (EK 2); EK 5] (PRet (EV 1)))))
               [EGt (EV 1) (EK 0); EV 0]
      (PRet (EAdd (EV 2) (EV 3))))).

Example C05_nonvacuous :
  exists t0 t a,
    reach (gf_simulate (compile ex_prog) (VTup [VZ 3; VZ 1])) t0 /\
    hsteps (compile ex_prog) (t0, VTup [VZ 3; VZ 1])
           [HUpd (Some (CNode [(AName 0, CLeaf (VZ 4))])) (VTup [VZ 3; VZ (-1)]);
            HMh (SStr 1) true; HId; HMove (CNode [(AName 0, CLeaf (VZ 2))]) false]
           (t, a) /\ get_score t <> get_score t0.
Proof.
  destruct (run_echo (gf_simulate (compile ex_prog) (VTup [VZ 3; VZ 1]))) as [t0|] eqn:E;
    [|vm_compute in E; discriminate].
  pose proof (run_echo_reach _ _ E) as R0.
  vm_compute in E. inversion E; subst. clear E.
  eexists _, _, _. split; [exact R0|]. split.
  - econstructor. { eapply hs_upd. vm_compute. reflexivity. }
    econstructor. { eapply hs_mh. apply run_echo_reach. vm_compute. reflexivity. }
    econstructor. { apply hs_id. }
    econstructor. { eapply hs_move. vm_compute. reflexivity. }
    constructor.
  - vm_compute. discriminate.
Qed.
