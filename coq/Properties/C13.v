(** C13 — distributions: documented parameterisation, normalised mass, shapes.

    The model (Model/Dists.v) gives, for each of the 24 exported distributions and
    each documented call signature, the log density / log mass as a reflected real
    expression of the rational parameters and value.  It is tied to the code by
    the correspondence (harness/p_dists.py): the implementation's logpdf is
    compared with the denotation of that expression by certified interval
    arithmetic, on every run.

    Mechanised here: total mass 1 for the finitely supported families (flip,
    bernoulli by probs and by logits, categorical over any non-empty logits,
    binomial for every n), the partial masses 1 - (1-p)^n of geometric and their
    limit 1, total mass 1 of poisson as a series, exponential (rate) and uniform
    normalised as integrals, density = CDF' for laplace / cauchy / weibull and the
    two user-wrapped families (Lemmas/DistCalculus.v), and the shape algebra of
    sample_shape / vectorised draws.

    NOT mechanised (partial): normalisation of the families whose normalising
    constant needs the Gaussian integral or the Gamma / Beta / zeta functions as
    integrals (normal, log_normal, half_normal, multivariate_normal, gamma, beta,
    chi2, student_t, inverse_gamma, dirichlet, multinomial, negative_binomial,
    zipf): for these the closed form is validated against the code point-wise
    only; and that the TFP samplers draw from the density (checked statistically
    by the correspondence: goodness of fit against an independent reference). *)
From Coq Require Import Reals QArith List ZArith.
From Coquelicot Require Import Coquelicot.
From GV Require Import Model.Dists Model.DistTable Lemmas.DistLemmas Lemmas.DistCalculus.
Import ListNotations.
Open Scope R_scope.

Theorem C13_flip_normalised : forall p : Q,
  0 < q2r p < 1 -> mass (fun v => spec FlipProb [p] [v]) [0%Q; 1%Q] = 1.
Proof. exact flip_normalised. Qed.
Print Assumptions C13_flip_normalised.

Theorem C13_bernoulli_normalised : forall l p : Q,
  mass (fun v => spec BernoulliLogits [l] [v]) [0%Q; 1%Q] = 1 /\
  (0 < q2r p < 1 -> mass (fun v => spec BernoulliProbs [p] [v]) [0%Q; 1%Q] = 1).
Proof. intros l p. split; [apply bernoulli_logits_normalised|apply bernoulli_probs_normalised]. Qed.
Print Assumptions C13_bernoulli_normalised.

Theorem C13_categorical_normalised : forall ls : list Q,
  ls <> [] -> mass (fun v => spec CategoricalLogits ls [v]) (seq_q (length ls)) = 1.
Proof. exact categorical_normalised. Qed.
Print Assumptions C13_categorical_normalised.

Theorem C13_binomial_normalised : forall (n : nat) (p : Q),
  0 < q2r p < 1 -> mass (fun v => spec BinomialProbs [qn n; p] [v]) (seq_q (S n)) = 1.
Proof. exact binomial_normalised. Qed.
Print Assumptions C13_binomial_normalised.

(** geometric counts failures before the first success: support from 0, mass
    p (1-p)^k, and the first n masses sum to 1 - (1-p)^n *)
Theorem C13_geometric_mass : forall (p : Q) (n : nat),
  0 < q2r p < 1 ->
  (forall k, match spec GeometricProbs [p] [qn k] with Some e => exp (den e) | None => 0 end
             = (1 - q2r p) ^ k * q2r p) /\
  mass (fun v => spec GeometricProbs [p] [v]) (seq_q n) = 1 - (1 - q2r p) ^ n.
Proof. intros p n Hp. split; [intros k; apply geom_pmf; exact Hp|apply geometric_partial_mass; exact Hp]. Qed.
Print Assumptions C13_geometric_mass.

(** the geometric masses sum to 1 in the limit; the poisson masses are a series with sum 1 *)
Theorem C13_geometric_poisson_total_mass : forall p lam : Q,
  (0 < q2r p < 1 -> is_lim_seq (fun n => mass (fun v => spec GeometricProbs [p] [v]) (seq_q n)) 1) /\
  (0 < q2r lam ->
   is_series (fun k => match spec PoissonRate [lam] [qn k] with Some e => exp (den e) | None => 0 end) 1).
Proof. intros p lam. split; [apply geometric_total_mass|apply poisson_total_mass]. Qed.
Print Assumptions C13_geometric_poisson_total_mass.

(** exponential takes a RATE: the specification denotes ln lam - lam x at every rational
    input; that density is the derivative of 1 - exp(-lam x), integrates to F(b) - F(0)
    on [0,b], and F rises from 0 to 1 *)
Theorem C13_exponential_rate_normalised : forall lam : R, 0 < lam ->
  (forall l x : Q, qle 0 x = true ->
     exists e, spec ExponentialRate [l] [x] = Some e /\ den e = lpR_exponential (q2r l) (q2r x)) /\
  (forall x, is_derive (cdf_exponential lam) x (exp (lpR_exponential lam x))) /\
  (forall b, 0 <= b -> is_RInt (fun x => exp (lpR_exponential lam x)) 0 b
                               (cdf_exponential lam b - cdf_exponential lam 0)) /\
  cdf_exponential lam 0 = 0 /\ is_lim (cdf_exponential lam) p_infty 1.
Proof.
  intros lam H. split; [intros l x Hx; apply spec_exponential_R; exact Hx|].
  split; [intros x; apply exponential_pdf_cdf; exact H|].
  split; [intros b Hb; apply exponential_normalised; assumption|].
  apply exponential_cdf_limits; exact H.
Qed.
Print Assumptions C13_exponential_rate_normalised.

Theorem C13_uniform_normalised : forall a b : R, a < b ->
  is_RInt (fun _ => exp (lpR_uniform a b)) a b 1.
Proof. exact uniform_normalised. Qed.
Print Assumptions C13_uniform_normalised.

(** laplace, cauchy, weibull and the two user-wrapped families: the specified density is
    the derivative of the family's CDF everywhere in the support (so it integrates to
    F(b) - F(a) on every interval, lemma pdf_cdf_RInt); laplace's two halves glue at
    1/2, cauchy's CDF stays inside (0,1).  The limits of these CDFs at the ends of the
    support are not mechanised (partial). *)
Theorem C13_cdf_derivatives_partial : forall m s x : R, 0 < s ->
  (x < m -> is_derive (cdf_laplace_lo m s) x (exp (lpR_laplace m s x))) /\
  (m < x -> is_derive (cdf_laplace_hi m s) x (exp (lpR_laplace m s x))) /\
  is_derive (cdf_cauchy m s) x (exp (lpR_cauchy m s x)) /\ 0 < cdf_cauchy m s x < 1 /\
  is_derive (cdf_logistic m s) x (exp (lpR_logistic m s x)) /\
  is_derive (cdf_gumbel m s) x (exp (lpR_gumbel m s x)) /\
  (forall k, 0 < k -> 0 < x -> is_derive (cdf_weibull k s) x (exp (lpR_weibull k s x))).
Proof.
  intros m s x Hs.
  split; [intros H; apply laplace_pdf_cdf_lo; assumption|].
  split; [intros H; apply laplace_pdf_cdf_hi; assumption|].
  split; [apply cauchy_pdf_cdf; exact Hs|].
  split; [apply cauchy_cdf_bounds|].
  split; [apply logistic_pdf_cdf; exact Hs|].
  split; [apply gumbel_pdf_cdf; exact Hs|].
  intros k Hk Hx. apply weibull_pdf_cdf; assumption.
Qed.
Print Assumptions C13_cdf_derivatives_partial.

(** source-level tie: a table regenerated from distributions.py (constructor and parameter
    passing of every wrapper) that equals the expected one denotes exactly the documented call
    signatures the behavioural correspondence is run against *)
Theorem C13_wrappers_denote_documented_signatures :
  forall tbl, table_eqb tbl expected_code_table = true ->
              doc_consistent tbl = true /\ names_covered expected_code_table = true.
Proof.
  intros tbl H. rewrite (table_eqb_eq _ _ H). exact expected_table_consistent.
Qed.
Print Assumptions C13_wrappers_denote_documented_signatures.

(** sample_shape and vectorisation only prepend dimensions to the shape of a
    plain draw: lanes ++ sample_shape ++ (batch ++ event) *)
Theorem C13_sample_shape_threaded : forall lanes ss batches event s0,
  draw_shape [] [] batches event = Some s0 ->
  draw_shape lanes ss batches event = Some (lanes ++ ss ++ s0)%list.
Proof. exact draw_shape_threaded. Qed.
Print Assumptions C13_sample_shape_threaded.

(** non-vacuity: concrete instances *)
Example C13_example_cat : mass (fun v => spec CategoricalLogits [(1#2)%Q; (-3#4)%Q; 0%Q] [v]) (seq_q 3) = 1.
Proof. apply categorical_normalised. discriminate. Qed.
Example C13_example_shape : draw_shape [4%nat] [2%nat; 3%nat] [[]; [5%nat]] [2%nat] = Some [4; 2; 3; 5; 2]%nat.
Proof. reflexivity. Qed.
