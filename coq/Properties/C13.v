(** C13 — distributions: documented parameterisation, normalised mass, shapes.

    The model (Model/Dists.v) gives, for each of the 24 exported distributions and
    each documented call signature, the log density / log mass as a reflected real
    expression of the rational parameters and value.  It is tied to the code by
    the correspondence (harness/p_dists.py): the implementation's logpdf is
    compared with the denotation of that expression by certified interval
    arithmetic, on every run.

    Mechanised here: total mass 1 for the finitely supported families (flip,
    bernoulli by probs and by logits, categorical over any non-empty logits,
    binomial for every n), the partial masses 1 - (1-p)^n of geometric and their
    limit 1, total mass 1 of poisson as a series, normalisation of the
    continuous families with an elementary CDF (Lemmas/DistCalculus.v), and the
    shape algebra of sample_shape / vectorised draws.

    NOT mechanised (partial): normalisation of the families whose normalising
    constant needs the Gaussian integral or the Gamma / Beta / zeta functions as
    integrals (normal, log_normal, half_normal, multivariate_normal, gamma, beta,
    chi2, student_t, inverse_gamma, dirichlet, multinomial, negative_binomial,
    zipf): for these the closed form is validated against the code point-wise
    only; and that the TFP samplers draw from the density (checked statistically
    by the correspondence: goodness of fit against an independent reference). *)
From Coq Require Import Reals QArith List ZArith.
Import ListNotations.
From GV Require Import Model.Dists Lemmas.DistLemmas.
Open Scope R_scope.

Theorem C13_flip_normalised : forall p : Q,
  0 < q2r p < 1 -> mass (fun v => spec FlipProb [p] [v]) [0%Q; 1%Q] = 1.
Proof. exact flip_normalised. Qed.
Print Assumptions C13_flip_normalised.

Theorem C13_bernoulli_normalised : forall l p : Q,
  mass (fun v => spec BernoulliLogits [l] [v]) [0%Q; 1%Q] = 1 /\
  (0 < q2r p < 1 -> mass (fun v => spec BernoulliProbs [p] [v]) [0%Q; 1%Q] = 1).
Proof. intros l p. split; [apply bernoulli_logits_normalised|apply bernoulli_probs_normalised]. Qed.
Print Assumptions C13_bernoulli_normalised.

Theorem C13_categorical_normalised : forall ls : list Q,
  ls <> [] -> mass (fun v => spec CategoricalLogits ls [v]) (seq_q (length ls)) = 1.
Proof. exact categorical_normalised. Qed.
Print Assumptions C13_categorical_normalised.

Theorem C13_binomial_normalised : forall (n : nat) (p : Q),
  0 < q2r p < 1 -> mass (fun v => spec BinomialProbs [qn n; p] [v]) (seq_q (S n)) = 1.
Proof. exact binomial_normalised. Qed.
Print Assumptions C13_binomial_normalised.

(** geometric counts failures before the first success: support from 0, mass
    p (1-p)^k, and the first n masses sum to 1 - (1-p)^n *)
Theorem C13_geometric_mass : forall (p : Q) (n : nat),
  0 < q2r p < 1 ->
  (forall k, match spec GeometricProbs [p] [qn k] with Some e => exp (den e) | None => 0 end
             = (1 - q2r p) ^ k * q2r p) /\
  mass (fun v => spec GeometricProbs [p] [v]) (seq_q n) = 1 - (1 - q2r p) ^ n.
Proof. intros p n Hp. split; [intros k; apply geom_pmf; exact Hp|apply geometric_partial_mass; exact Hp]. Qed.
Print Assumptions C13_geometric_mass.

(** sample_shape and vectorisation only prepend dimensions to the shape of a
    plain draw: lanes ++ sample_shape ++ (batch ++ event) *)
Theorem C13_sample_shape_threaded : forall lanes ss batches event s0,
  draw_shape [] [] batches event = Some s0 ->
  draw_shape lanes ss batches event = Some (lanes ++ ss ++ s0)%list.
Proof. exact draw_shape_threaded. Qed.
Print Assumptions C13_sample_shape_threaded.

(** non-vacuity: concrete instances *)
Example C13_example_cat : mass (fun v => spec CategoricalLogits [(1#2)%Q; (-3#4)%Q; 0%Q] [v]) (seq_q 3) = 1.
Proof. apply categorical_normalised. discriminate. Qed.
Example C13_example_shape : draw_shape [4%nat] [2%nat; 3%nat] [[]; [5%nat]] [2%nat] = Some [4; 2; 3; 5; 2]%nat.
Proof. reflexivity. Qed.
