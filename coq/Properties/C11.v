(** C11 — ADEV value and gradient estimators are unbiased (exact for enumeration). *)
From Coq Require Import QArith Qcanon List Bool.
Import ListNotations.
From GV Require Import Model.Adev Lemmas.AdevLemmas.
Open Scope Qc_scope.

(** For EVERY expectation program built from flip sites with the enumeration,
    REINFORCE (score function) and measure-valued estimators — composed in any
    order, with arbitrary deterministic (dual-number) code in between — the mean
    of the estimator's primal over all outcomes of its sites is E[f] and the mean
    of its tangent is the derivative of E[f] (the tangent of the exact
    expectation in dual arithmetic), for all parameters in the open domain. *)
Theorem C11_adev_unbiased :
  forall e, ok e ->
    Ex (adev e) fst = fst (dualE e) /\ Ex (adev e) snd = snd (dualE e).
Proof. exact adev_unbiased. Qed.
Print Assumptions C11_adev_unbiased.

(** enumeration gives the exact value and derivative with zero variance *)
Theorem C11_enum_exact : forall e, all_enum e -> adev e = RRet (dualE e).
Proof. exact enum_exact. Qed.
Print Assumptions C11_enum_exact.

(** reparameterised sites give exactly the pathwise derivative for the noise drawn *)
Theorem C11_reparam_pathwise :
  (forall mu sigma eps, reparam_normal mu sigma eps = (fst mu + fst sigma * eps, snd mu + snd sigma * eps)) /\
  (forall lo hi eps, reparam_uniform lo hi eps
                     = (fst lo + (fst hi - fst lo) * eps, snd lo + (snd hi - snd lo) * eps)).
Proof. split; [exact reparam_normal_pathwise|exact reparam_uniform_pathwise]. Qed.
Print Assumptions C11_reparam_pathwise.

(** the pure continuation used by the measure-valued estimator samples the value with the right mean *)
Theorem C11_pure_continuation_mean : forall e, Ex (sample_primal e) (fun v => v) = fst (dualE e).
Proof. exact sample_primal_mean. Qed.
Print Assumptions C11_pure_continuation_mean.

(** non-vacuity: a three-site mixed program, theta-dependent probabilities *)
Definition q (a b : Z) : Qc := Q2Qc (Qmake a (Z.to_pos b)).
Definition ex_prog : eprog :=
  EFlip Reinforce (q 1 2, q 1 1) (fun b1 =>
  EFlip Mvd (q 1 4, q 1 2) (fun b2 =>
  EFlip Enum (q 3 4, q (-1) 1) (fun b3 =>
  ERet (dconst (if b1 then (if b2 then q 3 1 else q 1 1) else (if b3 then q 5 1 else q 2 1)))))).

Example C11_nonvacuous :
  ok ex_prog /\ dualE ex_prog = (q 23 8, q (-15) 4)
  /\ Ex (adev ex_prog) snd = q (-15) 4.
Proof.
  assert (Hok : ok ex_prog).
  { cbn. repeat split; intros; try discriminate; intro E; apply (f_equal this) in E; vm_compute in E; discriminate. }
  split; [exact Hok|]. split.
  - apply injective_projections; apply Qc_is_canon; vm_compute; reflexivity.
  - rewrite (proj2 (C11_adev_unbiased _ Hok)). apply Qc_is_canon; vm_compute; reflexivity.
Qed.
