(** C08 — modular_vmap's sample batching rule is lane-wise (and where it is not). *)
From Coq Require Import List Arith Bool Lia.
Import ListNotations.
From GV Require Import Model.Vmap Lemmas.VmapLemmas.
From GV Require Model.Ast.

(** Batched parameters (any batch axes, moved to the front), any site
    sample_shape S, equal per-lane ranks: element [lane, s ++ j] of the vectorized
    site is drawn with exactly lane [lane]'s parameter elements — the lanes are
    laid out along the output axis that follows S. *)
Theorem C08_sample_rule_lanewise :
  forall S x y n lane s j,
    lanes x y = Some n -> wf_arg n x -> wf_arg n y -> lane < n ->
    length s = length S ->
    (a_batched x = true -> per_lane_rank x = length j) ->
    (a_batched y = true -> per_lane_rank y = length j) ->
    (a_batched x = false -> per_lane_rank x <= length j) ->
    (a_batched y = false -> per_lane_rank y <= length j) ->
    let e := batched_elem S x y None lane s j in
    (e_a e, e_b e) = lane_elem S x y lane s j.
Proof. exact batched_is_lanewise. Qed.
Print Assumptions C08_sample_rule_lanewise.

(** Every lane is its own draw — never one draw broadcast to all lanes —
    whether the lanes come from batched parameters or from axis_size alone. *)
Theorem C08_lanes_are_separate_draws :
  (forall S x y n lane lane' s j, lanes x y = Some n -> lane <> lane' ->
      e_draw (batched_elem S x y None lane s j) <> e_draw (batched_elem S x y None lane' s j))
  /\ (forall S x y n lane lane' s j, lanes x y = None -> length s = length S -> lane <> lane' ->
      e_draw (batched_elem S x y (Some n) lane s j) <> e_draw (batched_elem S x y (Some n) lane' s j)).
Proof.
  split.
  - intros. eapply batched_draws_distinct; eauto.
  - intros S x y n lane lane' s j Hl Hs Hne.
    exact (proj2 (unbatched_lanes_are_separate_draws S x y n lane lane' s j Hl Hs) Hne).
Qed.
Print Assumptions C08_lanes_are_separate_draws.

(** Full statement without the rank hypothesis ... *)
Definition C08_full : Prop :=
  forall S x y n lane s j,
    lanes x y = Some n -> wf_arg n x -> wf_arg n y -> lane < n -> length s = length S ->
    length j = Nat.max (per_lane_rank x) (per_lane_rank y) ->
    let e := batched_elem S x y None lane s j in
    (e_a e, e_b e) = lane_elem S x y lane s j.

(** ... is false (known finding K3): per-lane parameter shapes of differing
    rank are mis-paired by the sampler's right-aligned broadcasting: with a per-lane
    scalar a (stacked shape [3]) and a per-lane vector b (stacked shape [3;3]),
    element [lane 0, position 1] is drawn with a[1] instead of a[0]. *)
Theorem C08_full_refuted : ~ C08_full.
Proof.
  intros F.
  specialize (F [] {| a_shape := [3]; a_batched := true |} {| a_shape := [3; 3]; a_batched := true |}
                3 0 [] [1] eq_refl).
  cbn in F.
  assert (W1 : wf_arg 3 {| a_shape := [3]; a_batched := true |}) by (intros _; exists []; reflexivity).
  assert (W2 : wf_arg 3 {| a_shape := [3; 3]; a_batched := true |}) by (intros _; exists [3]; reflexivity).
  specialize (F W1 W2 ltac:(lia) eq_refl eq_refl). discriminate.
Qed.
Print Assumptions C08_full_refuted.

(** The Vmap combinator's per-lane arguments: lane i gets element i of every
    mapped argument and the whole of every broadcast one. *)
Theorem C08_vmap_lane_args :
  forall i a b (l : list Data.value),
    Ast.lane_args [true; false] [Data.VTup l; b] i = [Ast.vnth i l; b]
    /\ Ast.lane_args [false; true] [a; Data.VTup l] i = [a; Ast.vnth i l].
Proof. intros; split; reflexivity. Qed.
Print Assumptions C08_vmap_lane_args.
