(** C19 — state/save collects exactly what was saved. *)
From Coq Require Import List Arith Bool Lia.
Import ListNotations.
From GV Require Import Model.StateM Lemmas.StateLemmas.

(** For every program built from saves (named and leaf-mode), namespaces,
    scans (nested, under namespaces), vmaps and deterministic code, the
    dictionary collected by the State interpreter (flat equation list, namespace
    stack, fresh interpreter per scan body, leafwise stacking) is the
    specification's: every value under its name and enclosing namespaces,
    scan-stacked, batched, later writes replacing earlier ones; the namespace
    stack is restored. *)
Theorem C19_state_collects :
  forall ps idx path bs acc,
    interp (flatten ps bs) idx {| coll := acc; nstack := path |}
    = {| coll := spec ps idx path bs acc; nstack := path |}.
Proof. exact interp_correct. Qed.
Print Assumptions C19_state_collects.

(** what the specification says about a single save *)
Theorem C19_saved_under_namespaces :
  forall path name v t, tget (path ++ [name]) (tset path name v t) = Some v.
Proof. exact tget_tset. Qed.
Print Assumptions C19_saved_under_namespaces.

Theorem C19_last_write_wins :
  forall path name v1 v2 t, tget (path ++ [name]) (tset path name v2 (tset path name v1 t)) = Some v2.
Proof. exact tset_last_wins. Qed.
Print Assumptions C19_last_write_wins.

Theorem C19_other_names_kept :
  forall path name name' v t, name <> name' ->
    tget (path ++ [name']) (tset path name v t) = tget (path ++ [name']) t.
Proof. exact tset_other_name. Qed.
Print Assumptions C19_other_names_kept.

(** direction of scans: for a scan body saving one value, the collected entry is the stack over the
    positions i = 0..len-1 of the value saved at execution step i (forward scan) resp. len-1-i
    (lax.scan(..., reverse=True)), i.e. exactly what was passed to save at the iteration that jax
    places at that position *)
Theorem C19_scan_stack_positions :
  forall len rv name site idx path bs acc, 0 < len ->
    let v := fun k => inst (wrap bs (VSite site)) (idx ++ [k]) in
    tget (path ++ [name]) (spec1 (PScan len rv [PSave name site]) idx path bs acc)
    = Some (TLeaf (AStack (map v (scan_order len rv))))
    /\ forall i, i < len ->
         nth i (map v (scan_order len rv)) (AStack []) = v (if rv then len - 1 - i else i).
Proof. exact scan_save_positions. Qed.
Print Assumptions C19_scan_stack_positions.

Example C19_nonvacuous :
  spec [PSave 0 1; PNs 5 [PScan 2 false [PSave 1 2; PVmap 2 [PSave 0 3]]; PSave 1 4]] [] [] [] (TNode [])
  = TNode [(0, TLeaf (ASite 1 []));
           (5, TNode [(1, TLeaf (ASite 4 []));
                      (0, TLeaf (AStack [AStack [ASite 3 [0; 0]; ASite 3 [0; 1]];
                                         AStack [ASite 3 [1; 0]; ASite 3 [1; 1]]]))])].
Proof. reflexivity. Qed.

(** a reverse scan stacks the value of execution step len-1-i at position i *)
Example C19_reverse_scan :
  spec [PScan 3 true [PSave 0 1]] [] [] [] (TNode [])
  = TNode [(0, TLeaf (AStack [ASite 1 [2]; ASite 1 [1]; ASite 1 [0]]))].
Proof. reflexivity. Qed.
