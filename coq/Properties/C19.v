(** C19 — state/save collects exactly what was saved. *)
From Coq Require Import List Arith Bool Lia.
Import ListNotations.
From GV Require Import Model.StateM Lemmas.StateLemmas.

(** For every program built from saves (named and leaf-mode), namespaces,
    scans (nested, under namespaces), vmaps and deterministic code, the
    dictionary collected by the State interpreter (flat equation list, namespace
    stack, fresh interpreter per scan body, leafwise stacking) is the
    specification's: every value under its name and enclosing namespaces,
    scan-stacked, batched, later writes replacing earlier ones; the namespace
    stack is restored. *)
Theorem C19_state_collects :
  forall ps idx path bs acc,
    interp (flatten ps bs) idx {| coll := acc; nstack := path |}
    = {| coll := spec ps idx path bs acc; nstack := path |}.
Proof. exact interp_correct. Qed.
Print Assumptions C19_state_collects.

(** what the specification says about a single save *)
Theorem C19_saved_under_namespaces :
  forall path name v t, tget (path ++ [name]) (tset path name v t) = Some v.
Proof. exact tget_tset. Qed.
Print Assumptions C19_saved_under_namespaces.

Theorem C19_last_write_wins :
  forall path name v1 v2 t, tget (path ++ [name]) (tset path name v2 (tset path name v1 t)) = Some v2.
Proof. exact tset_last_wins. Qed.
Print Assumptions C19_last_write_wins.

Theorem C19_other_names_kept :
  forall path name name' v t, name <> name' ->
    tget (path ++ [name']) (tset path name v t) = tget (path ++ [name']) t.
Proof. exact tset_other_name. Qed.
Print Assumptions C19_other_names_kept.

Example C19_nonvacuous :
  spec [PSave 0 1; PNs 5 [PScan 2 [PSave 1 2; PVmap 2 [PSave 0 3]]; PSave 1 4]] [] [] [] (TNode [])
  = TNode [(0, TLeaf (ASite 1 []));
           (5, TNode [(1, TLeaf (ASite 4 []));
                      (0, TLeaf (AStack [AStack [ASite 3 [0; 0]; ASite 3 [0; 1]];
                                         AStack [ASite 3 [1; 0]; ASite 3 [1; 1]]]))])].
Proof. reflexivity. Qed.
