(** C16 — selections are a Boolean algebra on address paths; filter partitions
    the leaves of a choice map by the selection. *)
From GV Require Import Model.Gfi Model.Spec Lemmas.CmLemmas Lemmas.SelLemmas.

(** The selection computed by chaining [match] along a path and probing [()]
    at the end — what regenerate, filter (and through it mala/hmc) use — is the
    denotation [sem]: union/intersection/complement are or/and/not, sel() selects
    nothing, sel(()) everything, sel("a") everything under a, sel((a,b,..))
    exactly that sub-tree, dict selections delegate per key. *)
Theorem C16_selected_is_denotation : forall s p, selected s (names p) = sem s p.
Proof. exact selected_sem. Qed.
Print Assumptions C16_selected_is_denotation.

Theorem C16_boolean_algebra : forall s t p,
    selected (SOr s t) p = selected s p || selected t p
    /\ selected (SIn s t) p = selected s p && selected t p
    /\ selected (SCompl s) p = negb (selected s p)
    /\ selected SNone p = false /\ selected SAll p = true.
Proof.
  intros. repeat split.
  - apply selected_or. - apply selected_in. - apply selected_compl.
  - apply selected_none'. - apply selected_all'.
Qed.
Print Assumptions C16_boolean_algebra.

Theorem C16_atoms : forall n q d a p l,
    selected (SStr n) (names l) = match l with m :: _ => Nat.eqb m n | [] => false end
    /\ selected (STup q) (names l) = match q with [] => false | _ => prefixb q l end
    /\ selected (SDict d) (AName a :: p) = match dict_get a d with Some s' => selected s' p | None => false end.
Proof.
  intros. repeat split.
  - apply selected_str. - apply selected_tup. - apply selected_dict.
Qed.
Print Assumptions C16_atoms.

(** filter(x, s): the first part holds exactly the selected leaves, the second
    exactly the others — disjoint, together all leaves of x — for every choice
    map and every selection; lanes of vectorized sub-calls are transparent. *)
Theorem C16_filter_partition : forall x s,
    oleaves (fst (cm_filter x s)) = filter (selq s) (cm_leaves x) /\
    oleaves (snd (cm_filter x s)) = filter (fun q => negb (selq s q)) (cm_leaves x).
Proof. exact filter_leaves. Qed.
Print Assumptions C16_filter_partition.

Example C16_nonvacuous :
  let x := CNode [(AName 0, CNode [(AName 1, CLeaf (VZ 1)); (AName 2, CLeaf (VZ 2))]); (AName 1, CLeaf (VZ 3))] in
  let s := SCompl (STup [0%nat; 1%nat]) in
  cm_filter x s = (Some (CNode [(AName 0, CNode [(AName 2, CLeaf (VZ 2))]); (AName 1, CLeaf (VZ 3))]),
                   Some (CNode [(AName 0, CNode [(AName 1, CLeaf (VZ 1))])])).
Proof. reflexivity. Qed.
