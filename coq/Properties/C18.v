(** C18 — chain returns exactly the burnt-in, thinned kernel iterates. *)
From Coq Require Import List Arith Lia Bool.
Import ListNotations.
From GV Require Import Model.Chain Lemmas.ChainLemmas.

Section C18.
  Variable S R : Type.
  Variable kernel : S -> R -> S * bool.   (* any kernel, any per-step randomness *)
  Variable dS : S.

  (** traces[i] = state after burn_in + i*thinning + 1 kernel applications, for
      all n_steps, burn_in, thinning >= 1 and every retained index. *)
  Theorem C18_chain_states : forall init rs burn thin i,
      1 <= thin -> burn + i * thin < length rs ->
      nth_error (r_states (chain kernel dS init rs burn thin)) i
      = Some (iterate kernel init rs (Datatypes.S (burn + i * thin))).
  Proof. exact (chain_states S R kernel dS). Qed.

  Theorem C18_chain_accepts : forall init rs burn thin i r,
      1 <= thin -> nth_error rs (burn + i * thin) = Some r ->
      nth_error (r_accepts (chain kernel dS init rs burn thin)) i
      = Some (snd (kernel (iterate kernel init rs (burn + i * thin)) r)).
  Proof. exact (chain_accepts S R kernel dS). Qed.

  (** with the same randomness the result is the slice burn::thin of the un-thinned run *)
  Theorem C18_chain_is_slice : forall init rs burn thin i,
      1 <= thin -> burn + i * thin < length rs ->
      nth_error (r_states (chain kernel dS init rs burn thin)) i
      = nth_error (r_states (chain kernel dS init rs 0 1)) (burn + i * thin)
      /\ nth_error (r_accepts (chain kernel dS init rs burn thin)) i
         = nth_error (r_accepts (chain kernel dS init rs 0 1)) (burn + i * thin).
  Proof. exact (chain_is_slice S R kernel dS). Qed.

  (** n_steps = ceil((n - burn)/thin) retained states; accepts and traces have
      that length; the acceptance rate is the mean of the retained flags. *)
  Theorem C18_chain_counts : forall init rs burn thin,
      1 <= thin ->
      r_n (chain kernel dS init rs burn thin) = (length rs - burn + thin - 1) / thin
      /\ r_accepted (chain kernel dS init rs burn thin)
         = count_true (r_accepts (chain kernel dS init rs burn thin))
      /\ length (r_accepts (chain kernel dS init rs burn thin)) = r_n (chain kernel dS init rs burn thin)
      /\ length (r_states (chain kernel dS init rs burn thin)) = r_n (chain kernel dS init rs burn thin).
  Proof.
    intros. split; [apply chain_n; assumption|]. apply chain_rate.
  Qed.
  (** n_chains > 1: a leading chain axis of length n_chains, and chain c is exactly the single-chain
      result for that chain's randomness - so every statement above holds per chain (that the
      chains' randomness is independent is the key discipline of C06 / C07). *)
  Theorem C18_chains_lanewise : forall init rss burn thin,
      length (chains kernel dS init rss burn thin) = length rss
      /\ forall c rs, nth_error rss c = Some rs ->
           nth_error (chains kernel dS init rss burn thin) c = Some (chain kernel dS init rs burn thin).
  Proof.
    intros init rss burn thin. unfold chains. split; [apply map_length|].
    intros c rs H. rewrite nth_error_map, H. reflexivity.
  Qed.
End C18.
Print Assumptions C18_chain_states.
Print Assumptions C18_chain_accepts.
Print Assumptions C18_chain_is_slice.
Print Assumptions C18_chain_counts.
Print Assumptions C18_chains_lanewise.

Example C18_nonvacuous :
  let k := fun (s : nat) (r : nat) => (s * 2 + r, Nat.even (s + r)) in
  let c := chain k 0 1 [1; 0; 2; 1; 0; 3; 1] 2 3 in
  r_states c = [14; 119] /\ r_accepts c = [true; false] /\ r_n c = 2 /\ r_accepted c = 1.
Proof. vm_compute. auto. Qed.
