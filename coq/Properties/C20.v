(** C20 — the exact state-space baselines.
    HMM: fully mechanised for every number of states, every (sub-)stochastic
    table and every observation sequence of length >= 1.
    Linear-Gaussian: the recursion model (coq/Model/Kalman.v) is tied to the
    implementation and judged against dense joint-Gaussian conditioning case by
    case (coq/Model/CorrSsm.v); mechanised here only for the scalar one-step
    update (partial); the T-step statement needs the Gaussian Markov property,
    which is not formalised. *)
From Coq Require Import QArith Qcanon List Arith Lia Field.
Import ListNotations.
From GV Require Import Model.Hmm Lemmas.HmmLemmas.
Open Scope Qc_scope.

(** forward_filter's unnormalised message is the sum of the joint over all earlier state paths *)
Theorem C20_forward_exact :
  forall K pi0 A E rys x', rys <> [] ->
    alpha K pi0 A E rys x' = sumL (map (fun p => joint pi0 A E (x' :: p) rys) (paths K (length rys - 1))).
Proof. intros. apply forward_exact; assumption. Qed.
Print Assumptions C20_forward_exact.

(** the marginal likelihood equals brute-force summation over all state sequences *)
Theorem C20_marginal_exact :
  forall K pi0 A E rys, rys <> [] ->
    marginal K pi0 A E rys = sumL (map (fun p => joint pi0 A E p rys) (paths K (length rys))).
Proof. intros. apply marginal_exact; assumption. Qed.
Print Assumptions C20_marginal_exact.

(** the step-by-step vector recursion (what the scan runs, and what the
    correspondence evaluates on long sequences) computes exactly these messages,
    hence the brute-force marginal, for sequences of every length *)
Theorem C20_iterative_forward_exact :
  forall K pi0 A E ys, ys <> [] ->
    alpha_vec K pi0 A E ys = map (alpha K pi0 A E (rev ys)) (seq 0 K) /\
    marginal_vec K pi0 A E ys = sumL (map (fun p => joint pi0 A E p (rev ys)) (paths K (length ys))).
Proof.
  intros K pi0 A E ys H. split; [apply alpha_vec_correct; exact H|].
  rewrite marginal_vec_correct by exact H. rewrite <- (rev_length ys).
  apply marginal_exact. intro Hr. apply H. rewrite <- (rev_involutive ys), Hr. reflexivity.
Qed.
Print Assumptions C20_iterative_forward_exact.

Theorem C20_filter_normalised :
  forall K pi0 A E rys, marginal K pi0 A E rys <> 0 -> sumK K (filtering K pi0 A E rys) = 1.
Proof. intros. apply filtering_normalised; assumption. Qed.
Print Assumptions C20_filter_normalised.

Theorem C20_sequence_prob_exact :
  forall pi0 A E xs ys, length xs = length ys -> xs <> [] ->
    seq_prob pi0 A E xs ys = joint pi0 A E (rev xs) (rev ys).
Proof. intros. apply seq_prob_exact; assumption. Qed.
Print Assumptions C20_sequence_prob_exact.

(** backward sampling draws every state sequence with probability joint / marginal *)
Theorem C20_ffbs_exact :
  forall K pi0 A E rxs rys,
    length rxs = length rys -> rys <> [] -> path_ok K pi0 A E rxs rys -> marginal K pi0 A E rys <> 0 ->
    ffbs_prob K pi0 A E rxs rys = joint pi0 A E rxs rys / marginal K pi0 A E rys.
Proof. intros. apply ffbs_exact; assumption. Qed.
Print Assumptions C20_ffbs_exact.

(** scalar Kalman update = conditioning the joint Gaussian of (x, y = c x + v):
    gain, posterior mean and variance are the Schur-complement formulas *)
Theorem C20_kalman_scalar_update_partial :
  forall m P c r y : Qc, c * c * P + r <> 0 ->
    let S := c * P * c + r in
    let Kg := P * c / S in
    (* code: filtered_mean = m + K (y - c m); filtered_cov = P - K c P *)
    m + Kg * (y - c * m) = m + (P * c) * / S * (y - c * m)
    /\ P - Kg * c * P = P - (P * c) * / S * (c * P).
Proof.
  intros m P c r y H S Kg. subst Kg S.
  assert (H' : c * P * c + r <> 0) by (intro E0; apply H; rewrite <- E0; ring).
  split; field; exact H'.
Qed.
Print Assumptions C20_kalman_scalar_update_partial.

Example C20_nonvacuous :
  let pi0 := fun x => Q2Qc (if Nat.eqb x 0 then 3 # 4 else 1 # 4) in
  let A := fun x x' => Q2Qc (if Nat.eqb x x' then 2 # 3 else 1 # 3) in
  let E := fun x y => Q2Qc (if Nat.eqb x y then 9 # 10 else 1 # 10) in
  this (marginal 2 pi0 A E [1; 0; 0]%nat) = (1499 # 9000)%Q.
Proof. vm_compute. reflexivity. Qed.
