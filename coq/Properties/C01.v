(** C01 — assess is the joint log density; simulate returns coherent traces.
    Property theorems only; each is closed by [exact] of a lemma proved in
    Lemmas/ and followed by Print Assumptions. *)
From GV Require Import Model.Gfi Model.Spec Model.Ast Lemmas.CmLemmas Lemmas.GfiCoh.

(** assess returns the sum of the log probabilities of the visited sites (given
    the values they depend on, taken branch of each Cond) and the program's
    return value — for every program, argument and choice map on which it is defined. *)
Theorem C01_assess_is_density :
  forall g x args w r, gf_assess g x args = Ok (w, r) -> den g x args = Ok (w, r).
Proof.
  intros g x args w r H. destruct (assess_sites g x args w r H) as [l [Hl Ht]].
  unfold den. rewrite Hl. cbn. rewrite Ht. reflexivity.
Qed.
Print Assumptions C01_assess_is_density.

(** Every trace simulate can return, for every outcome of every draw, has
    score = -(joint log density of its choices) and the program's return value
    on those choices. *)
Theorem C01_simulate_coherent :
  forall g args t, reach (gf_simulate g args) t ->
                   den g (choices t) args = Ok (- get_score t, get_retval t).
Proof.
  intros g args t H. destruct (SC_coherent _ _ _ (simulate_SC g args t H)) as [l [Hl Ht]].
  unfold den. rewrite Hl. cbn. rewrite Ht. reflexivity.
Qed.
Print Assumptions C01_simulate_coherent.

(** Hence score = -assess(choices) whenever assess is defined on them. *)
Theorem C01_simulate_then_assess :
  forall g args t w r, reach (gf_simulate g args) t ->
                       gf_assess g (choices t) args = Ok (w, r) ->
                       w = - get_score t /\ r = get_retval t.
Proof.
  intros g args t w r Hs Ha.
  pose proof (C01_assess_is_density _ _ _ _ _ Ha) as H1.
  pose proof (C01_simulate_coherent _ _ _ Hs) as H2.
  rewrite H1 in H2. inversion H2; auto.
Qed.
Print Assumptions C01_simulate_then_assess.

(** An address used twice at one level is rejected by simulate and by assess. *)
Theorem C01_collision_detected :
  forall a g1 args1 g2 args2 k,
    (forall st res, ~ reach (run_simulate (Call a g1 args1 (fun r => Call a g2 (args2 r) (k r))) st) res)
    /\ (forall X st, exists e, run_assess (Call a g1 args1 (fun r => Call a g2 (args2 r) (k r))) X st = Err e).
Proof.
  intros; split; intros.
  - apply simulate_collision.
  - apply assess_collision.
Qed.
Print Assumptions C01_collision_detected.

(** Non-vacuity: a Fn calling a Scan of a Fn and a Cond with shared addresses. *)
Definition ex_prog : gast :=
  AFn (PCall 0 (ADist 0) [EV 0; EV 1]
      (PCall 1 (AScan 2 (AFn (PCall 0 (ADist 1) [EV 1; EV 0]
                          (PRet (ETup [EAdd (EV 0) (EV 2); EV 2])))))
               [EV 2; ETup [EK 1; EK 4]]
      (PCall 2 (ACond (AFn (PCall 0 (ADist 0) [EV 0; EK 0] (PRet (EV 1))))
                      (AFn (PCall 0 (ADist 2) [EAdd (EV 0) (EK 1); EK 5] (PRet (EK 7)))))
               [EGt (EV 2) (EK 0); EV 0]
      (PRet (EAdd (EV 4) (EIdx (EV 3) 0)))))).

Example C01_nonvacuous :
  exists t, reach (gf_simulate (compile ex_prog) (VTup [VZ 3; VZ 1])) t
            /\ get_score t = 11
            /\ gf_assess (compile ex_prog) (choices t) (VTup [VZ 3; VZ 1]) = Ok (-11, VZ 11).
Proof.
  destruct (run_echo (gf_simulate (compile ex_prog) (VTup [VZ 3; VZ 1]))) as [t|] eqn:E;
    [|vm_compute in E; discriminate].
  exists t. split; [apply run_echo_reach; exact E|].
  vm_compute in E. inversion E; subst. vm_compute. auto.
Qed.

(** ** The law of simulate (finite discrete, Cond-free programs)
    [Ex U m F] is the expectation of F under m when every draw ranges over the finite
    universe U with mass 2^(logpdf) (Lemmas/Law.v).  If a choice map c determines the
    whole run — generate under c makes no draw and returns (t, w); by
    C02_all_constrained w is then the density assess gives c — simulate produces a
    trace holding exactly the values of c with probability 2^w: simulate samples from
    the density assess computes.  Cond is excluded (partial): its hidden branch is
    drawn as well. *)
From Coq Require Import QArith Qcanon.
From GV Require Import Lemmas.Law.
Theorem C01_simulate_law :
  forall (U : list value), NoDup U ->
  forall g c args t w, NC g -> leaves_in U c ->
    (forall F, Ex U (gf_generate g (Some c) args) F = F (t, w)) ->
    Ex U (gf_simulate g args) (fun t' => if agreesb (Some c) t' then 1%Qc else 0%Qc) = pow2 w.
Proof. intros U HU g c args t w. apply simulate_point_mass. exact HU. Qed.
Print Assumptions C01_simulate_law.

(** non-vacuity: in the two-site dyadic program of Lemmas/Law.v the choice map
    {0: 1, 1: 2} determines the run and has probability 2^-4 *)
Example C01_law_nonvacuous :
  Ex U3 (gf_simulate (compile law_ex_prog) (VTup [VZ 0]))
     (fun t' => if agreesb (Some (CNode [(AName 0%nat, CLeaf (VZ 1)); (AName 1%nat, CLeaf (VZ 2))])) t' then 1%Qc else 0%Qc)
  = pow2 (-4).
Proof. apply Qc_is_canon. vm_compute. reflexivity. Qed.
