(** C09 — mh / mala / hmc: the accept rule, the Metropolis-Hastings balance
    identity, leapfrog reversibility, frame and reject identity.
    Volume preservation of the leapfrog map is mechanised for affine gradients
    (C09_leapfrog_volume_affine).  Not mechanised (partial): volume preservation for
    general gradients and the measure-theoretic detailed balance on R^n; the finite-support detailed
    balance of mh follows from [C09_mh_balance] and the regenerate weight
    theorem (C04) but is not assembled into one statement. *)
From Coq Require Import QArith Qminmax List Bool Lia ZArith.
Import ListNotations.
From GV Require Import Model.Mcmc Lemmas.McmcLemmas.
From GV Require Model.Gfi Model.Spec Lemmas.GfiRegen Lemmas.GfiCoh Lemmas.CmLemmas Properties.C04.

(** accept iff log u < min(0, log_alpha), for all three kernels *)
Theorem C09_accept_rule : forall logu la, accepts logu la = true <-> logu < Qmin 0 la.
Proof. intros. rewrite accepts_spec, qmin0_spec. reflexivity. Qed.
Print Assumptions C09_accept_rule.

(** with acceptance min(1, b/a), a = pi(x) q(x->y), b = pi(y) q(y->x): detailed balance *)
Theorem C09_mh_balance : forall a b : Q, 0 < a -> 0 < b -> a * Qmin 1 (b / a) == b * Qmin 1 (a / b).
Proof. exact mh_balance. Qed.
Print Assumptions C09_mh_balance.

(** the weight mh feeds into the accept rule is the MH log ratio for the
    regenerate-from-prior proposal (restating C04 on the model of regenerate) *)
Theorem C09_mh_weight_is_ratio :
  forall g args t s t' w d,
    GfiCoh.SC g args t -> Data.reach (Gfi.gf_regenerate g t s args) (t', w, d) ->
    GfiRegen.same_shape_chk t t' = true ->
    exists l l' r r',
      Spec.gf_sites g (Gfi.choices t) args = Data.Ok (l, r) /\
      Spec.gf_sites g (Gfi.choices t') args = Data.Ok (l', r') /\
      (w = (Spec.total l' - Spec.total_on (Spec.selected s) l')
           - (Spec.total l - Spec.total_on (Spec.selected s) l))%Z.
Proof.
  intros g args t s t' w d Hsc H Hs.
  destruct (C04.C04_regenerate_weight _ _ _ _ _ _ _ _ Hsc H Hs) as [l [l' [r [r' [H1 [H2 Hw]]]]]].
  exists l, l', r, r'. repeat split; auto. lia.
Qed.
Print Assumptions C09_mh_weight_is_ratio.

(** mala: log_alpha is the MH log ratio of the Langevin proposal (drift
    eps^2/2 * grad, scale eps, one noise value per selected coordinate) *)
Theorem C09_mala_log_alpha :
  forall m args xs sel eps noise logu,
    let r := mala m args xs sel eps noise logu in
    let cur := get xs sel in
    let g := grad m args xs sel in
    let xs' := put xs sel (m_prop r) in
    let g' := grad m args xs' sel in
    m_prop r = map3 (fun x gk xi => Qred (x + (eps * eps / 2) * gk + eps * xi)) cur g noise /\
    m_log_alpha r ==
      (logp m args xs' + qsum (map3 (fun p x gk => nlp x (p + (eps * eps / 2) * gk) eps) (m_prop r) cur g'))
      - (logp m args xs + qsum (map3 (fun x p gk => nlp p (x + (eps * eps / 2) * gk) eps) cur (m_prop r) g)).
Proof.
  intros. split; [reflexivity|].
  subst g' xs' g cur r. unfold mala. cbn [m_prop m_log_alpha].
  rewrite Qred_correct. ring.
Qed.
Print Assumptions C09_mala_log_alpha.

(** hmc: n leapfrog steps are reversible under momentum flip, for ANY gradient
    function, over any commutative ring (scalars or vectors) *)
Theorem C09_leapfrog_reversible :
  forall (R : Type) (zero one : R) (add mul sub : R -> R -> R) (opp : R -> R),
    ring_theory zero one add mul sub opp (@eq R) ->
    forall (G : R -> R) (e h : R) (n : nat) (s : R * R),
      flipm R opp (iterl R add mul G e h n (flipm R opp (iterl R add mul G e h n s))) = s.
Proof. intros. eapply leapfrog_reversible; eauto. Qed.
Print Assumptions C09_leapfrog_reversible.

(** hmc: for an affine gradient (any Gaussian target, per coordinate), over any commutative ring,
    n leapfrog steps are an affine map of (position, momentum) whose linear part has determinant 1:
    the proposal preserves phase-space volume, so the plain energy difference is the
    Metropolis-Hastings ratio.  (For non-affine gradients see C09_leapfrog_volume_tangent below.) *)
Theorem C09_leapfrog_volume_affine :
  forall (R : Type) (zero one : R) (add mul sub : R -> R -> R) (opp : R -> R),
    ring_theory zero one add mul sub opp (@eq R) ->
    forall (G : R -> R) (e h a b : R), (forall x, G x = add (mul a x) b) ->
    forall n, exists M c,
      (forall s, iterl R add mul G e h n s = aff R add mul M c s) /\ det R mul sub M = one.
Proof. intros R zero one add mul sub opp Rth G e h a b HG n. eapply leapfrog_volume; eauto. Qed.
Print Assumptions C09_leapfrog_volume_affine.

(** hmc, arbitrary gradient (one coordinate): [iterT ... G' n s d] is the forward-mode tangent of n
    leapfrog steps at the phase point s in direction d, computed by the chain rule with G' standing for
    the derivative of the gradient G.  It is a linear map of d whose matrix (the Jacobian of the n-step
    map at s) has determinant 1, for every G, G', step size, n and s, over any commutative ring: the
    proposal preserves phase-space volume.  (That G' is the derivative of G in the analytic sense, and
    the multi-coordinate case with a symmetric Hessian, are outside this statement.) *)
Theorem C09_leapfrog_volume_tangent :
  forall (R : Type) (zero one : R) (add mul sub : R -> R -> R) (opp : R -> R),
    ring_theory zero one add mul sub opp (@eq R) ->
    forall (G : R -> R) (e h : R) (G' : R -> R) (n : nat) (s : R * R),
      (forall d, iterT R add mul G e h G' n s d = mapply R add mul (Jn R zero one add mul G e h G' n s) d)
      /\ det R mul sub (Jn R zero one add mul G e h G' n s) = one.
Proof. intros. eapply leapfrog_tangent_volume; eauto. Qed.
Print Assumptions C09_leapfrog_volume_tangent.

(** rejected moves return the input unchanged; accepted or not, unselected
    coordinates are untouched *)
Theorem C09_reject_identity :
  (forall m args xs sel eps noise logu,
      m_accept (mala m args xs sel eps noise logu) = false ->
      m_final (mala m args xs sel eps noise logu) = xs) /\
  (forall m args xs sel eps n mom logu,
      m_accept (hmc m args xs sel eps n mom logu) = false ->
      m_final (hmc m args xs sel eps n mom logu) = xs) /\
  (forall A (old new : A) w logu, accepts logu w = false -> fst (mh_select old new w logu) = old).
Proof.
  repeat split.
  - apply mala_reject.
  - apply hmc_reject.
  - intros A old new w logu H. unfold mh_select. cbn. rewrite H. reflexivity.
Qed.
Print Assumptions C09_reject_identity.

Theorem C09_frame :
  forall m args xs sel eps noise logu k, ~ In k sel ->
    nth k (m_final (mala m args xs sel eps noise logu)) 0 = nth k xs 0.
Proof.
  intros. unfold mala. cbn [m_final]. destruct (accepts _ _); [|reflexivity]. apply put_other; assumption.
Qed.
Print Assumptions C09_frame.

Theorem C09_frame_hmc :
  forall m args xs sel eps n mom logu k, ~ In k sel ->
    nth k (m_final (hmc m args xs sel eps n mom logu)) 0 = nth k xs 0.
Proof.
  intros. unfold hmc. destruct (iter n _ _) as [[pos mom'] g]. cbn [m_final].
  destruct (accepts _ _); [|reflexivity]. apply put_other; assumption.
Qed.
Print Assumptions C09_frame_hmc.

Example C09_nonvacuous :
  let m := [ {| n_mu := QK 1; n_sig := 1 |}; {| n_mu := QAdd (QV 0) (QV 1); n_sig := 1 # 2 |} ] in
  let r := mala m [1 # 2] [2; 1 # 2] [1%nat] (1 # 2) [1] (-(1 # 10)) in
  m_accept r = true /\ m_prop r = [2] /\ m_log_alpha r = 15 # 8 /\ m_final r = [2; 2].
Proof. vm_compute. repeat split; auto. Qed.
