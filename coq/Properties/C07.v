(** C07 — every sample-site instance of a seeded run gets its own randomness. *)
From Coq Require Import List Arith Bool Lia.
Import ListNotations.
From GV Require Import Model.Seed Lemmas.SeedLemmas.

(** For every program (any nesting of sequences, conds, scans, uninterpreted
    and differentiated blocks), every root key and every choice of cond
    branches: the keys handed to the sample-site instances of one seeded run are
    pairwise incomparable terms of the key algebra — no two are equal and none
    is derived from another — and each is strictly derived from the root key. *)
Theorem C07_sites_get_distinct_streams :
  forall p k cs,
    let l := fst (seed_run p k cs) in
    Pairwise l /\ NoDup l /\ (forall x, In x l -> prefix k x /\ x <> k).
Proof.
  intros p k cs l. destruct (seed_run_good p k cs) as [U [P N]]. fold l in U, P, N.
  split; [exact P|]. split; [apply pairwise_nodup; exact P|].
  intros x Hx. split; [apply U; exact Hx|apply N; exact Hx].
Qed.
Print Assumptions C07_sites_get_distinct_streams.

(** scan iterations: iteration i only uses keys under fold_in(sub, i) *)
Theorem C07_scan_iterations_separate :
  forall body sub len cs,
    (forall x, In x (fst (iters (seed_run body) sub len 0 cs)) ->
               exists j, j < len /\ prefix (sub ++ [MF j]) x)
    /\ Pairwise (fst (iters (seed_run body) sub len 0 cs)).
Proof.
  intros. destruct (iters_good _ (seed_run_good body) len sub 0 cs) as [U P]. split; auto.
  intros x Hx. destruct (U x Hx) as [j [Hj Hp]]. exists j; split; [lia|exact Hp].
Qed.
Print Assumptions C07_scan_iterations_separate.

Example C07_nonvacuous :
  fst (seed_run (JSample (JScan 2 (JSample (JCond (JSample JNil) JNil JNil)) (JSample JNil))) [] [false; true])
  = [[1]; [0; 1; 0; 1]; [0; 1; 0; 0; 1; 1]; [0; 1; 1; 1]; [0; 0; 1]].
Proof. reflexivity. Qed.
