(** C14 — unseeded sampling can never be compiled into a fixed-randomness program. *)
From Coq Require Import List Arith Bool Lia.
Import ListNotations.
From GV Require Import Model.Seed Lemmas.SeedLemmas.

(** Compiling a traced program that still contains a sample primitive, at any
    depth of scan / cond / while / fori / nested jit, raises the lowering error. *)
Theorem C14_lowering_raises : forall p, has_sample p = true -> lower_raises p = true.
Proof. intros p H. exact H. Qed.
Print Assumptions C14_lowering_raises.

(** seed either removes every sample primitive (the result compiles and the
    sites receive keys derived from the argument key), or the ones that remain
    sit under a construct it does not interpret and compiling/running the
    result raises the same error. *)
Theorem C14_seed_removes_or_raises :
  forall p, lower_raises (residual p) = unseeded p
            /\ (unseeded p = false -> has_sample (residual p) = false).
Proof.
  intros p. unfold lower_raises. rewrite residual_has_sample. split; auto.
Qed.
Print Assumptions C14_seed_removes_or_raises.

(** Full statement of the property: every source program containing a sampling
    site, also under grad / jvp / value_and_grad, raises when compiled. *)
Definition C14_full : Prop := forall p, contains_site p = true -> lower_raises p = true.

Lemma has_sample_contains_site : forall p, has_sample p = contains_site p.
Proof.
  induction p as [|r IH|r IH|a IHa b IHb r IH|n b IHb r IH|b IHb r IH|b IHb r IH]; cbn;
    rewrite ?IH, ?IHa, ?IHb; reflexivity.
Qed.

(** It holds for every program: a site that is differentiated while the program is being
    staged raises the same error from its JVP rule (before fix F25 the rule inlined the
    staged keyless sampler with its baked-in key, and this statement was refuted by
    [JGrad (JSample JNil) JNil] - the former known finding K2). *)
Theorem C14_full_holds : C14_full.
Proof. intros p H. unfold lower_raises. rewrite has_sample_contains_site. exact H. Qed.
Print Assumptions C14_full_holds.

(** in particular for programs without differentiated blocks *)
Fixpoint no_grad (p : jx) : bool :=
  match p with
  | JNil => true
  | JSample r | JDet r => no_grad r
  | JCond a b r => no_grad a && no_grad b && no_grad r
  | JScan _ b r | JOther b r => no_grad b && no_grad r
  | JGrad _ _ => false
  end.

Theorem C14_partial : forall p, no_grad p = true -> contains_site p = true -> lower_raises p = true.
Proof. intros p _ H. apply C14_full_holds. exact H. Qed.
Print Assumptions C14_partial.

(** seed over a differentiated block with a site raises as well (the block is staged by seed) *)
Theorem C14_seed_over_grad_raises :
  forall body rest, has_sample body = true -> unseeded (JGrad body rest) = true.
Proof. intros body rest H. cbn. rewrite H. reflexivity. Qed.
Print Assumptions C14_seed_over_grad_raises.
