(** C14 — unseeded sampling can never be compiled into a fixed-randomness program. *)
From Coq Require Import List Arith Bool Lia.
Import ListNotations.
From GV Require Import Model.Seed Lemmas.SeedLemmas.

(** Compiling a traced program that still contains a sample primitive, at any
    depth of scan / cond / while / fori / nested jit, raises the lowering error. *)
Theorem C14_lowering_raises : forall p, has_sample p = true -> lower_raises p = true.
Proof. intros p H. exact H. Qed.
Print Assumptions C14_lowering_raises.

(** seed either removes every sample primitive (the result compiles and the
    sites receive keys derived from the argument key), or the ones that remain
    sit under a construct it does not interpret and compiling/running the
    result raises the same error. *)
Theorem C14_seed_removes_or_raises :
  forall p, lower_raises (residual p) = unseeded p
            /\ (unseeded p = false -> has_sample (residual p) = false).
Proof.
  intros p. unfold lower_raises. rewrite residual_has_sample. split; auto.
Qed.
Print Assumptions C14_seed_removes_or_raises.

(** Full statement of the property: every source program containing a sampling
    site, also under grad / jvp, raises when compiled. *)
Definition C14_full : Prop := forall p, contains_site p = true -> lower_raises p = true.

(** It holds for programs without differentiated blocks ... *)
Fixpoint no_grad (p : jx) : bool :=
  match p with
  | JNil => true
  | JSample r | JDet r => no_grad r
  | JCond a b r => no_grad a && no_grad b && no_grad r
  | JScan _ b r | JOther b r => no_grad b && no_grad r
  | JGrad _ _ => false
  end.

Theorem C14_partial : forall p, no_grad p = true -> contains_site p = true -> lower_raises p = true.
Proof.
  unfold lower_raises.
  induction p as [|r IH|r IH|a IHa b IHb r IH|n b IHb r IH|b IHb r IH|b IHb r IH]; cbn; intros Hn Hc; auto.
  - apply andb_prop in Hn as [Hn Hr]. apply andb_prop in Hn as [Ha Hb'].
    apply orb_prop in Hc as [Hc|Hc]; [apply orb_prop in Hc as [Hc|Hc]|].
    + rewrite (IHa Ha Hc). reflexivity.
    + rewrite (IHb Hb' Hc). rewrite orb_true_r. reflexivity.
    + rewrite (IH Hr Hc). rewrite orb_true_r. reflexivity.
  - apply andb_prop in Hn as [Hb' Hr]. apply orb_prop in Hc as [Hc|Hc].
    + rewrite (IHb Hb' Hc). reflexivity.
    + rewrite (IH Hr Hc). rewrite orb_true_r. reflexivity.
  - apply andb_prop in Hn as [Hb' Hr]. apply orb_prop in Hc as [Hc|Hc].
    + rewrite (IHb Hb' Hc). reflexivity.
    + rewrite (IH Hr Hc). rewrite orb_true_r. reflexivity.
  - discriminate.
Qed.
Print Assumptions C14_partial.

(** ... and is false of the faithful model with differentiation (known finding
    K2): jit(grad f) of a function with a site compiles, the site's JVP rule
    having inlined a sampler with a key drawn from the global counter. *)
Theorem C14_full_refuted : ~ C14_full.
Proof. intros F. specialize (F (JGrad (JSample JNil) JNil) eq_refl). discriminate. Qed.
Print Assumptions C14_full_refuted.
