(** C12 — resampling copies particles faithfully, preserves the estimate, and
    systematic resampling gives floor/ceil counts for every offset and is unbiased
    (mean copies N w_i over uniform offset grids of every resolution c * sum(w)). *)
From Coq Require Import ZArith List Lia Bool QArith.
Import ListNotations.
From Coq Require Import Qcanon.
From GV Require Import Lemmas.ResampleLaw.
From GV Require Import Model.Resample Lemmas.ResampleLemmas Lemmas.SysResample Lemmas.SysUnbiased.
Open Scope Z_scope.

(** Systematic resampling: for every weight vector with non-negative entries
    and positive total (entries 0 model -inf log weights), every number of
    draws N >= 1 and EVERY offset u = a/b in (0,1), particle i receives
    floor(N*w_i) or ceil(N*w_i) copies. *)
Theorem C12_systematic_floor_ceil :
  forall (ws : list Z) (N : nat) (a b : Z),
    Forall (fun w => 0 <= w) ws -> 0 < sumz ws -> (0 < N)%nat -> 0 < a < b ->
    forall i, (i < length ws)%nat ->
      (Z.of_nat N * nth i ws 0) / sumz ws
      <= Z.of_nat (copies (sys_indices ws N a b) i)
      <= (Z.of_nat N * nth i ws 0 + sumz ws - 1) / sumz ws.
Proof. intros. apply systematic_floor_ceil; assumption. Qed.
Print Assumptions C12_systematic_floor_ceil.

Theorem C12_zero_weight_no_copies :
  forall (ws : list Z) (N : nat) (a b : Z),
    Forall (fun w => 0 <= w) ws -> 0 < sumz ws -> (0 < N)%nat -> 0 < a < b ->
    forall i, (i < length ws)%nat -> nth i ws 0 = 0 -> copies (sys_indices ws N a b) i = 0%nat.
Proof. intros. eapply systematic_zero_weight; eauto. Qed.
Print Assumptions C12_zero_weight_no_copies.

(** every index systematic resampling returns names an input particle (the last cumulative
    weight is the total and every pointer lies strictly below it) - in exact arithmetic; the
    code's float32 cumulative sum is covered by the correspondence at the ends of (0,1) *)
Theorem C12_systematic_indices_in_range :
  forall (ws : list Z) (N : nat) (a b : Z),
    Forall (fun w => 0 <= w) ws -> 0 < sumz ws -> (0 < N)%nat -> 0 < a < b ->
    Forall (fun i => (i < length ws)%nat) (sys_indices ws N a b).
Proof. intros. apply sys_indices_in_range; assumption. Qed.
Print Assumptions C12_systematic_indices_in_range.

(** resample (either method: any index vector): same number of particles, each
    output particle is the input particle at its index (all fields taken from
    one source, since the particle is indexed as a whole), weights reset,
    pre-resampling normalised weights kept as diagnostics, and
    exp(log_marginal_likelihood) exactly unchanged. *)
Theorem C12_resample_shape :
  forall (P : Type) (d : P) (c : pc P) (idx : list nat),
    length (particles (resample d c idx)) = length idx
    /\ Forall (fun w => w = 1%Q) (weights (resample d c idx))
    /\ diag (resample d c idx) = normalized (weights c)
    /\ forall j, (j < length idx)%nat ->
         nth j (particles (resample d c idx)) d = nth (nth j idx 0%nat) (particles c) d.
Proof. intros. apply resample_shape. Qed.
Print Assumptions C12_resample_shape.

Theorem C12_marginal_unchanged :
  forall (P : Type) (d : P) (c : pc P) (idx : list nat),
    idx <> [] -> weights c <> [] -> (marginal (resample d c idx) == marginal c)%Q.
Proof. intros. apply resample_marginal; assumption. Qed.
Print Assumptions C12_marginal_unchanged.

(** Unbiasedness: over the uniform grid of B = c * sum(w) offsets u_k = (2k+1)/(2B) the copies
    of particle i sum to c * N * w_i, i.e. their mean is N * w_i / sum(w) - for every weight
    vector, every N >= 1 and every resolution c >= 1 (the continuous expectation over
    u ~ Uniform(0,1) is the limit c -> infinity of these exact Riemann averages). *)
Theorem C12_systematic_unbiased_on_grid :
  forall (ws : list Z) (N c : nat),
    Forall (fun w => 0 <= w) ws -> 0 < sumz ws -> (0 < N)%nat -> (0 < c)%nat ->
    forall i, (i < length ws)%nat ->
      let B := (c * Z.to_nat (sumz ws))%nat in
      zsum (copies_at ws N c i) B = Z.of_nat c * Z.of_nat N * nth i ws 0
      /\ sumz ws * zsum (copies_at ws N c i) B = Z.of_nat B * (Z.of_nat N * nth i ws 0).
Proof.
  intros ws N c Hws HT HN Hc i Hi. split.
  - apply systematic_unbiased_on_grid; assumption.
  - apply systematic_mean_copies; assumption.
Qed.
Print Assumptions C12_systematic_unbiased_on_grid.

(** ... and so is the estimate: over the same grid of offsets, the sum of any test function f over the
    resampled particles sums to c * N * sum_i f(i) w_i, i.e. the mean over the grid of the equal-weight
    average (1/N) sum_j f(a_j) is the weighted average sum_i f(i) w_i / sum(w) before resampling. *)
Theorem C12_systematic_estimate_on_grid :
  forall (ws : list Z) (N c : nat) (f : nat -> Z),
    Forall (fun w => 0 <= w) ws -> 0 < sumz ws -> (0 < N)%nat -> (0 < c)%nat ->
    let B := (c * Z.to_nat (sumz ws))%nat in
    zsum (fun k => fsum f (sys_indices ws N (2 * Z.of_nat k + 1) (2 * Z.of_nat B))) B
    = Z.of_nat c * Z.of_nat N * zsum (fun i => f i * nth i ws 0) (length ws).
Proof. intros ws N c f Hws HT HN Hc. apply systematic_estimate_on_grid; assumption. Qed.
Print Assumptions C12_systematic_estimate_on_grid.

Example C12_unbiased_nonvacuous :
  zsum (copies_at [1; 2; 0; 5] 3 2 1%nat) 16 = 2 * 3 * 2.
Proof. vm_compute. reflexivity. Qed.

Example C12_nonvacuous :
  sys_indices [1; 2; 0; 5] 8 3 10 = [0; 1; 1; 3; 3; 3; 3; 3]%nat
  /\ map (copies (sys_indices [1; 2; 0; 5] 8 3 10)) [0; 1; 2; 3]%nat = [1; 2; 0; 5]%nat.
Proof. vm_compute. auto. Qed.

(** Categorical (multinomial) resampling: the ancestor vector is N independent draws with
    probabilities w_i / W.  For every weight vector with non-zero total, every N and every test
    function: the expected number of copies of particle i is N w_i / W, and the equal-weight
    average over the resampled particles has the expectation of the weighted average before
    resampling ([EcatN]: the exact finite expectation over the N draws; that the JAX sampler
    realises this law is outside the model). *)
Theorem C12_categorical_expected_copies :
  forall (ws : list Qc) (i n : nat), sumq ws <> 0%Qc -> (i < length ws)%nat ->
    EcatN ws n (copiesq i) = (qcn n * (nth i ws 0 / sumq ws))%Qc.
Proof. intros ws i n HW Hi. apply categorical_expected_copies; assumption. Qed.
Print Assumptions C12_categorical_expected_copies.

Theorem C12_categorical_estimate_preserved :
  forall (ws : list Qc) (f : nat -> Qc) (n : nat), sumq ws <> 0%Qc -> (0 < n)%nat ->
    EcatN ws n (fun l => (ResampleLaw.sumf f l / qcn n)%Qc)
    = ResampleLaw.sumf (fun i => (nth i ws 0 / sumq ws * f i)%Qc) (seq 0 (length ws)).
Proof. intros ws f n HW Hn. apply categorical_estimate_preserved; assumption. Qed.
Print Assumptions C12_categorical_estimate_preserved.

Example C12_categorical_nonvacuous :
  EcatN [Q2Qc 1; Q2Qc 2; Q2Qc 1] 4 (copiesq 1) = Q2Qc 2
  /\ EcatN [Q2Qc 1; Q2Qc 2; Q2Qc 1] 4 (fun _ => Q2Qc 1) = Q2Qc 1.
Proof. split; apply Qc_is_canon; vm_compute; reflexivity. Qed.
