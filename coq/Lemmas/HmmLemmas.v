From Coq Require Import QArith Qcanon List Arith Lia Field.
Import ListNotations.
From GV Require Import Model.Hmm.
Open Scope Qc_scope.

Section HmmThm.
  Variable K : nat.
  Variable pi0 : nat -> Qc.
  Variable A : nat -> nat -> Qc.
  Variable E : nat -> nat -> Qc.

  Notation alpha := (alpha K pi0 A E).
  Notation joint := (joint pi0 A E).
  Notation paths := (paths K).
  Notation sumK := (sumK K).

  Lemma sumL_app l1 l2 : sumL (l1 ++ l2) = sumL l1 + sumL l2.
  Proof. unfold sumL. induction l1 as [|x l IH]; cbn [app fold_right]; [ring|]. rewrite IH. ring. Qed.

  Lemma sumL_map_scale {T} (f : T -> Qc) c l : sumL (map (fun x => c * f x) l) = c * sumL (map f l).
  Proof. unfold sumL. induction l as [|x l IH]; cbn [map fold_right]; [ring|]. rewrite IH. ring. Qed.

  Lemma sumL_map_ext {T} (f g : T -> Qc) l : (forall x, In x l -> f x = g x) -> sumL (map f l) = sumL (map g l).
  Proof.
    unfold sumL. induction l as [|x l IH]; cbn [map fold_right]; intros H; [reflexivity|].
    rewrite (H x (or_introl eq_refl)), IH; [reflexivity|]. intros y Hy. apply H. right; exact Hy.
  Qed.

  Lemma sumK_as_sumL f : sumK f = sumL (map f (seq 0 K)).
  Proof. unfold Hmm.sumK, sumL. induction (seq 0 K); cbn [map fold_right]; congruence. Qed.

  Lemma sumL_flat_map {T U} (g : T -> list U) (f : U -> Qc) l :
    sumL (map f (flat_map g l)) = sumL (map (fun x => sumL (map f (g x))) l).
  Proof.
    induction l as [|x l IH]; cbn [flat_map map]; [reflexivity|]. rewrite map_app, sumL_app, IH. reflexivity.
  Qed.

  (** alpha_t(x') is the sum of the joint over all earlier state paths *)
  Theorem forward_exact : forall rys x', rys <> [] ->
      alpha rys x' = sumL (map (fun p => joint (x' :: p) rys) (paths (length rys - 1))).
  Proof.
    induction rys as [|y rest IH]; intros x' Hne; [congruence|].
    destruct rest as [|y2 rest].
    - cbn. ring.
    - change (alpha (y :: y2 :: rest) x') with (E x' y * sumK (fun x => alpha (y2 :: rest) x * A x x')).
      replace (length (y :: y2 :: rest) - 1)%nat with (S (length (y2 :: rest) - 1)) by (cbn; lia).
      cbn [Hmm.paths]. rewrite sumL_flat_map. rewrite sumK_as_sumL.
      rewrite <- sumL_map_scale. apply sumL_map_ext. intros x _.
      rewrite map_map.
      rewrite (IH x ltac:(discriminate)).
      rewrite (sumL_map_ext (fun p => joint (x' :: x :: p) (y :: y2 :: rest))
                            (fun p => (A x x' * E x' y) * joint (x :: p) (y2 :: rest))).
      + rewrite sumL_map_scale. ring.
      + intros p _. cbn [Hmm.joint]. ring.
  Qed.

  (** the marginal likelihood is the brute-force sum over all state sequences *)
  Theorem marginal_exact : forall rys, rys <> [] ->
      marginal K pi0 A E rys = sumL (map (fun p => joint p rys) (paths (length rys))).
  Proof.
    intros rys Hne. unfold marginal. rewrite sumK_as_sumL.
    destruct rys as [|y rest]; [congruence|].
    cbn [length Hmm.paths]. rewrite sumL_flat_map.
    apply sumL_map_ext. intros x _. rewrite map_map.
    rewrite (forward_exact (y :: rest) x Hne).
    replace (length (y :: rest) - 1)%nat with (length rest) by (cbn [length]; lia). reflexivity.
  Qed.

  (** compute_sequence_log_prob computes the joint of the given path *)
  Lemma seq_prob_from_joint : forall xs ys acc prev rxs rys,
      length xs = length ys ->
      acc = joint (prev :: rxs) rys -> (length rxs + 1 = length rys)%nat ->
      seq_prob_from A E acc prev xs ys = joint (rev xs ++ prev :: rxs) (rev ys ++ rys).
  Proof.
    induction xs as [|x xs IH]; intros ys acc prev rxs rys Hl Hacc Hr.
    - destruct ys; [|discriminate]. cbn. exact Hacc.
    - destruct ys as [|y ys]; [discriminate|]. cbn [seq_prob_from rev].
      rewrite <- !app_assoc. cbn [app].
      apply IH; [cbn in Hl; lia| |cbn; lia].
      subst acc. cbn [Hmm.joint]. destruct rys; [cbn in Hr; lia|]. reflexivity.
  Qed.

  Theorem seq_prob_exact xs ys : length xs = length ys -> xs <> [] ->
      seq_prob pi0 A E xs ys = joint (rev xs) (rev ys).
  Proof.
    intros Hl Hne. destruct xs as [|x0 xs]; [congruence|]. destruct ys as [|y0 ys]; [discriminate|].
    unfold seq_prob. cbn [rev].
    rewrite (seq_prob_from_joint xs ys _ x0 [] [y0]); [reflexivity|cbn in Hl; lia|reflexivity|reflexivity].
  Qed.

  (** the filtering distribution is normalised *)
  Theorem filtering_normalised rys :
    marginal K pi0 A E rys <> 0 -> sumK (filtering K pi0 A E rys) = 1.
  Proof.
    intros Hz. unfold filtering. rewrite sumK_as_sumL.
    rewrite (sumL_map_ext _ (fun x => (/ marginal K pi0 A E rys) * alpha rys x)) by (intros; field; exact Hz).
    rewrite sumL_map_scale, <- sumK_as_sumL. fold (marginal K pi0 A E rys). field. exact Hz.
  Qed.
  (** the iterative (vector per step) recursion computes the same messages *)
  Definition avec (rys : list nat) : list Qc := map (alpha rys) (seq 0 K).

  Lemma nth_avec rys x : In x (seq 0 K) -> nth x (avec rys) 0 = alpha rys x.
  Proof.
    intros Hx. apply in_seq in Hx. unfold avec.
    rewrite (nth_indep _ 0 (alpha rys 0)) by (rewrite map_length, seq_length; lia).
    rewrite map_nth, seq_nth by lia. reflexivity.
  Qed.

  Lemma step_vec_avec rys y : rys <> [] -> step_vec K A E (avec rys) y = avec (y :: rys).
  Proof.
    intros Hne. unfold step_vec, avec. apply map_ext_in. intros x' _.
    destruct rys as [|y' rest]; [congruence|].
    change (alpha (y :: y' :: rest) x') with (E x' y * sumK (fun x => alpha (y' :: rest) x * A x x')).
    f_equal. rewrite !sumK_as_sumL. apply sumL_map_ext. intros x Hx.
    fold (avec (y' :: rest)). rewrite nth_avec by exact Hx. reflexivity.
  Qed.

  Lemma fold_step_avec : forall ys rys, rys <> [] ->
      fold_left (step_vec K A E) ys (avec rys) = avec (rev ys ++ rys).
  Proof.
    induction ys as [|y ys IH]; intros rys Hne; cbn [fold_left rev app]; [reflexivity|].
    rewrite step_vec_avec by exact Hne. rewrite IH by discriminate.
    rewrite <- app_assoc. reflexivity.
  Qed.

  Theorem alpha_vec_correct ys : ys <> [] -> alpha_vec K pi0 A E ys = avec (rev ys).
  Proof.
    destruct ys as [|y0 ys]; [congruence|]. intros _. unfold alpha_vec.
    change (map (fun x => E x y0 * pi0 x) (seq 0 K)) with (avec [y0]).
    rewrite fold_step_avec by discriminate. cbn [rev]. reflexivity.
  Qed.

  Theorem marginal_vec_correct ys : ys <> [] -> marginal_vec K pi0 A E ys = marginal K pi0 A E (rev ys).
  Proof.
    intros H. unfold marginal_vec, marginal. rewrite alpha_vec_correct by exact H.
    rewrite sumK_as_sumL. reflexivity.
  Qed.
End HmmThm.

Section Ffbs.
  Variable K : nat.
  Variable pi0 : nat -> Qc.
  Variable A : nat -> nat -> Qc.
  Variable E : nat -> nat -> Qc.

  (** the predictive sums along the path are non-zero (the path is reachable) *)
  Fixpoint path_ok (rxs rys : list nat) : Prop :=
    match rxs, rys with
    | x' :: ((x :: _) as rest), y :: rys' =>
        sumK K (fun z => alpha K pi0 A E rys' z * A z x') <> 0 /\ path_ok rest rys'
    | _, _ => True
    end.

  Lemma joint_cons x' x rest y rys' :
    joint pi0 A E (x' :: x :: rest) (y :: rys') = joint pi0 A E (x :: rest) rys' * A x x' * E x' y.
  Proof. reflexivity. Qed.

  Lemma backward_cons x' x rest y rys' :
    backward_prob K pi0 A E (x' :: x :: rest) (y :: rys')
    = (alpha K pi0 A E rys' x * A x x' / sumK K (fun z => alpha K pi0 A E rys' z * A z x'))
      * backward_prob K pi0 A E (x :: rest) rys'.
  Proof. reflexivity. Qed.

  Lemma alpha_backward : forall rxs rys x,
      S (length rxs) = length rys -> path_ok (x :: rxs) rys ->
      alpha K pi0 A E rys x * backward_prob K pi0 A E (x :: rxs) rys = joint pi0 A E (x :: rxs) rys.
  Proof.
    induction rxs as [|x1 rxs IH]; intros rys x Hl Hok.
    - destruct rys as [|y [|y2 r]]; try discriminate. cbn. ring.
    - destruct rys as [|y rys']; [discriminate|].
      destruct rys' as [|y2 r]; [discriminate|].
      destruct Hok as [Hs Hok].
      change (alpha K pi0 A E (y :: y2 :: r) x)
        with (E x y * sumK K (fun z => alpha K pi0 A E (y2 :: r) z * A z x)).
      rewrite joint_cons, backward_cons.
      rewrite <- (IH (y2 :: r) x1) by (try exact Hok; cbn in *; lia).
      field. exact Hs.
  Qed.

  (** forward filtering + backward sampling draws a state path with probability
      joint / marginal: the exact posterior *)
  Theorem ffbs_exact : forall rxs rys,
      length rxs = length rys -> rys <> [] -> path_ok rxs rys -> marginal K pi0 A E rys <> 0 ->
      ffbs_prob K pi0 A E rxs rys = joint pi0 A E rxs rys / marginal K pi0 A E rys.
  Proof.
    intros rxs rys Hl Hne Hok Hz. destruct rxs as [|x rxs]; [destruct rys; [congruence|discriminate]|].
    unfold ffbs_prob. rewrite <- (alpha_backward rxs rys x) by (try exact Hok; cbn in *; lia).
    field. exact Hz.
  Qed.
End Ffbs.
