(** McmcLemmas.v — algebra behind C09: leapfrog reversibility for any gradient
    function over any commutative ring (scalars, vectors with pointwise
    operations, ...), the Metropolis-Hastings balance identity, and the accept
    rule / reject identity of the kernels. *)
From Coq Require Import QArith Qminmax List Bool Ring Lia.
Import ListNotations.
From GV Require Import Model.Mcmc.

Section Leapfrog.
  Variable R : Type.
  Variables (zero one : R) (add mul sub : R -> R -> R) (opp : R -> R).
  Hypothesis Rth : ring_theory zero one add mul sub opp (@eq R).
  Add Ring Rring : Rth.

  Variable G : R -> R.          (* gradient of the log density: arbitrary *)
  Variables e h : R.            (* step size and half step size *)

  (** one leapfrog step: half momentum step, full position step, half momentum step *)
  Definition lf (s : R * R) : R * R :=
    let '(x, p) := s in
    let p1 := add p (mul h (G x)) in
    let x1 := add x (mul e p1) in
    (x1, add p1 (mul h (G x1))).

  Definition flipm (s : R * R) : R * R := (fst s, opp (snd s)).

  Lemma flipm_invol s : flipm (flipm s) = s.
  Proof. destruct s as [x p]. unfold flipm. cbn. f_equal. ring. Qed.

  Lemma lf_flip_lf s : lf (flipm (lf s)) = flipm s.
  Proof.
    destruct s as [x p]. unfold lf, flipm. cbn [fst snd].
    set (p1 := add p (mul h (G x))). set (x1 := add x (mul e p1)).
    assert (E1 : add (opp (add p1 (mul h (G x1)))) (mul h (G x1)) = opp p1) by ring.
    rewrite E1.
    assert (E2 : add x1 (mul e (opp p1)) = x) by (unfold x1; ring).
    rewrite E2. f_equal. unfold p1. ring.
  Qed.

  Fixpoint iterl (n : nat) (s : R * R) : R * R :=
    match n with O => s | S n' => iterl n' (lf s) end.

  Lemma iterl_comm n s : iterl n (lf s) = lf (iterl n s).
  Proof. revert s; induction n as [|n IH]; intros s; cbn; auto. Qed.

  (** n leapfrog steps, momentum flip, n leapfrog steps, momentum flip = identity *)
  Theorem leapfrog_reversible n s : flipm (iterl n (flipm (iterl n s))) = s.
  Proof.
    revert s. induction n as [|n IH]; intros s; cbn [iterl].
    - apply flipm_invol.
    - rewrite (iterl_comm n s). rewrite lf_flip_lf. apply IH.
  Qed.

  (** ** volume preservation for affine gradients (Gaussian targets): n leapfrog steps are an
      affine map of phase space whose linear part has determinant one *)
  Section Volume.
    Variables a b : R.
    Hypothesis Gaff : forall x, G x = add (mul a x) b.

    Definition mat := (R * R * R * R)%type.
    Definition det (M : mat) : R := let '(m11, m12, m21, m22) := M in sub (mul m11 m22) (mul m12 m21).
    Definition aff (M : mat) (c : R * R) (s : R * R) : R * R :=
      let '(m11, m12, m21, m22) := M in
      (add (add (mul m11 (fst s)) (mul m12 (snd s))) (fst c),
       add (add (mul m21 (fst s)) (mul m22 (snd s))) (snd c)).
    Definition mmul (M N : mat) : mat :=
      let '(m11, m12, m21, m22) := M in let '(n11, n12, n21, n22) := N in
      (add (mul m11 n11) (mul m12 n21), add (mul m11 n12) (mul m12 n22),
       add (mul m21 n11) (mul m22 n21), add (mul m21 n12) (mul m22 n22)).

    Definition Lmat : mat :=
      let eha := mul (mul e h) a in
      (add one eha, e, mul (mul h a) (add (add one one) eha), add one eha).
    Definition Lvec : R * R :=
      (mul (mul e h) b, add (add (mul h b) (mul (mul (mul h a) (mul e h)) b)) (mul h b)).

    Lemma lf_affine s : lf s = aff Lmat Lvec s.
    Proof.
      destruct s as [x p]. unfold lf, aff, Lmat, Lvec. cbn [fst snd]. rewrite !Gaff. f_equal; ring.
    Qed.

    Lemma det_Lmat : det Lmat = one.
    Proof. unfold det, Lmat. ring. Qed.

    Lemma det_mmul M N : det (mmul M N) = mul (det M) (det N).
    Proof. destruct M as [[[m11 m12] m21] m22], N as [[[n11 n12] n21] n22]. unfold det, mmul. ring. Qed.

    Lemma aff_comp M c N d s :
      aff M c (aff N d s) = aff (mmul M N) (aff M c d) s.
    Proof.
      destruct M as [[[m11 m12] m21] m22], N as [[[n11 n12] n21] n22], s as [x p], c as [c1 c2], d as [d1 d2].
      unfold aff, mmul. cbn [fst snd]. f_equal; ring.
    Qed.

    Theorem leapfrog_volume n : exists M c, (forall s, iterl n s = aff M c s) /\ det M = one.
    Proof.
      induction n as [|n [M [c [HM HD]]]].
      - exists (one, zero, zero, one), (zero, zero). split.
        + intros [x p]. unfold aff. cbn [iterl fst snd]. f_equal; ring.
        + unfold det. ring.
      - exists (mmul M Lmat), (aff M c Lvec). split.
        + intros s. cbn [iterl]. rewrite HM, lf_affine. apply aff_comp.
        + rewrite det_mmul, HD, det_Lmat. ring.
    Qed.
  End Volume.

  (** ** volume preservation for an arbitrary gradient, at the level of tangent maps (one coordinate).
      [G'] stands for the derivative of the gradient [G]; [lfT s d] is the forward-mode tangent of one
      leapfrog step at [s] in direction [d] computed by the chain rule.  The Jacobian of a step is a
      product of three shears, so it has determinant 1 whatever [G] and [G'] are, and so has the
      Jacobian of any number of steps. *)
  Section Tangent.
    Variable G' : R -> R.

    Definition lfT (s d : R * R) : R * R :=
      let '(x, p) := s in let '(dx, dp) := d in
      let p1 := add p (mul h (G x)) in
      let dp1 := add dp (mul h (mul (G' x) dx)) in
      let x1 := add x (mul e p1) in
      let dx1 := add dx (mul e dp1) in
      (dx1, add dp1 (mul h (mul (G' x1) dx1))).

    Definition Jstep (s : R * R) : mat :=
      let '(x, p) := s in
      let h1 := G' x in
      let x1 := add x (mul e (add p (mul h (G x)))) in
      let h2 := G' x1 in
      let m11 := add one (mul (mul e h) h1) in
      (m11, e, add (mul h h1) (mul (mul h h2) m11), add one (mul (mul h h2) e)).

    Definition mapply (M : mat) (d : R * R) : R * R :=
      let '(m11, m12, m21, m22) := M in
      (add (mul m11 (fst d)) (mul m12 (snd d)), add (mul m21 (fst d)) (mul m22 (snd d))).

    Lemma lfT_Jstep s d : lfT s d = mapply (Jstep s) d.
    Proof. destruct s as [x p], d as [dx dp]. unfold lfT, Jstep, mapply. cbn [fst snd]. f_equal; ring. Qed.

    Lemma det_Jstep s : det (Jstep s) = one.
    Proof. destruct s as [x p]. unfold det, Jstep. ring. Qed.

    Lemma mapply_mmul M N d : mapply (mmul M N) d = mapply M (mapply N d).
    Proof.
      destruct M as [[[m11 m12] m21] m22], N as [[[n11 n12] n21] n22], d as [dx dp].
      unfold mapply, mmul. cbn [fst snd]. f_equal; ring.
    Qed.

    (** tangent of n steps, and its Jacobian *)
    Fixpoint iterT (n : nat) (s d : R * R) : R * R :=
      match n with O => d | S n' => iterT n' (lf s) (lfT s d) end.
    Fixpoint Jn (n : nat) (s : R * R) : mat :=
      match n with O => (one, zero, zero, one) | S n' => mmul (Jn n' (lf s)) (Jstep s) end.

    Theorem leapfrog_tangent_volume n : forall s,
      (forall d, iterT n s d = mapply (Jn n s) d) /\ det (Jn n s) = one.
    Proof.
      induction n as [|n IH]; intros s.
      - split.
        + intros [dx dp]. unfold mapply. cbn [iterT Jn fst snd]. f_equal; ring.
        + unfold det. cbn [Jn]. ring.
      - destruct (IH (lf s)) as [HT HD]. split.
        + intros d. cbn [iterT Jn]. rewrite HT, lfT_Jstep, mapply_mmul. reflexivity.
        + cbn [Jn]. rewrite det_mmul, HD, det_Jstep. ring.
    Qed.
  End Tangent.
End Leapfrog.

(** ** Metropolis-Hastings balance: with acceptance probability min(1, b/a)
    where a = pi(x) q(x,y) and b = pi(y) q(y,x), the flow x->y equals the flow y->x *)
Lemma mh_balance (a b : Q) : 0 < a -> 0 < b -> a * Qmin 1 (b / a) == b * Qmin 1 (a / b).
Proof.
  intros Ha Hb.
  destruct (Qlt_le_dec a b) as [Hab|Hab].
  - (* a < b: accept with prob 1 forward, a/b backward *)
    assert (H1 : 1 <= b / a).
    { apply Qle_shift_div_l; [exact Ha|]. rewrite Qmult_1_l. apply Qlt_le_weak; exact Hab. }
    assert (H2 : a / b <= 1).
    { apply Qle_shift_div_r; [exact Hb|]. rewrite Qmult_1_l. apply Qlt_le_weak; exact Hab. }
    rewrite (Q.min_l _ _ H1), (Q.min_r _ _ H2). field. intro E. rewrite E in Hb. discriminate.
  - assert (H1 : b / a <= 1).
    { apply Qle_shift_div_r; [exact Ha|]. rewrite Qmult_1_l. exact Hab. }
    assert (H2 : 1 <= a / b).
    { apply Qle_shift_div_l; [exact Hb|]. rewrite Qmult_1_l. exact Hab. }
    rewrite (Q.min_r _ _ H1), (Q.min_l _ _ H2). field. intro E. rewrite E in Ha. discriminate.
Qed.

(** ** accept rule and reject identity *)
Lemma accepts_spec logu la : accepts logu la = true <-> logu < qmin0 la.
Proof.
  unfold accepts. rewrite negb_true_iff. split; intros H.
  - apply Qnot_le_lt. intro C. apply Qle_bool_iff in C. congruence.
  - destruct (Qle_bool (qmin0 la) logu) eqn:E; auto. apply Qle_bool_iff in E.
    exfalso. eapply Qlt_not_le; eauto.
Qed.

Lemma qmin0_spec x : qmin0 x == Qmin 0 x.
Proof.
  unfold qmin0. destruct (Qle_bool x 0) eqn:E.
  - apply Qle_bool_iff in E. rewrite Q.min_r; [reflexivity|exact E].
  - assert (0 <= x).
    { destruct (Qlt_le_dec x 0) as [H|H]; auto. apply Qlt_le_weak in H. apply Qle_bool_iff in H. congruence. }
    rewrite Q.min_l; [reflexivity|exact H].
Qed.

Lemma mala_reject m args xs sel eps noise logu :
  m_accept (mala m args xs sel eps noise logu) = false ->
  m_final (mala m args xs sel eps noise logu) = xs.
Proof. unfold mala. cbn. intros H. rewrite H. reflexivity. Qed.

Lemma hmc_reject m args xs sel eps n mom logu :
  m_accept (hmc m args xs sel eps n mom logu) = false ->
  m_final (hmc m args xs sel eps n mom logu) = xs.
Proof.
  unfold hmc. destruct (iter n _ _) as [[pos mom'] g]. cbn. intros H. rewrite H. reflexivity.
Qed.

Lemma mh_select_spec {A} (old new : A) w logu :
  mh_select old new w logu = (if accepts logu w then new else old, accepts logu w).
Proof. reflexivity. Qed.

(** writing selected coordinates never touches the others *)
Lemma put_other : forall sel xs vs k, ~ In k sel -> nth k (put xs sel vs) 0 = nth k xs 0.
Proof.
  induction sel as [|j sel IH]; intros xs vs k Hk; [reflexivity|].
  destruct vs as [|v vs]; [reflexivity|]. cbn [put].
  rewrite IH by (intro H; apply Hk; right; exact H).
  assert (Hjk : j <> k) by (intro E; apply Hk; left; exact E).
  clear - Hjk.
  assert (G : forall start (l : list Q) i,
             nth i (map (fun p => if Nat.eqb (fst p) j then v else snd p) (combine (seq start (length l)) l)) 0
             = if Nat.eqb (start + i) j then (if Nat.ltb i (length l) then v else 0) else nth i l 0).
  { intros start l. revert start. induction l as [|y l IHl]; intros start i; cbn.
    - destruct i; destruct (Nat.eqb _ j); reflexivity.
    - destruct i as [|i]; cbn.
      + rewrite Nat.add_0_r. destruct (Nat.eqb start j); reflexivity.
      + rewrite IHl. replace (S start + i)%nat with (start + S i)%nat by lia.
        destruct (Nat.eqb (start + S i) j); auto. }
  rewrite (G 0%nat xs k). cbn. destruct (Nat.eqb_spec k j); [congruence|reflexivity].
Qed.
