(** ResampleLaw.v — the law of categorical (multinomial) resampling (C12).

    Model: the ancestor vector of [resample(method="categorical")] is N independent draws from the
    categorical distribution with probabilities w_i / W (w_i the current weights, W their sum);
    [EcatN N F] is the expectation of F over those N draws, an exact finite sum.  Proved for every
    weight vector with non-zero total, every N and every test function f:

      E[ sum_j f(a_j) ] = N * sum_i (w_i / W) f(i)

    hence E[copies of particle i] = N w_i / W, and the resampled equal-weight average of any f has
    the expectation of the weighted average before resampling.  That JAX's categorical sampler
    realises this law is outside the model (PRNG idealisation). *)
From Coq Require Import QArith Qcanon List Arith Lia.
Import ListNotations.
Open Scope Qc_scope.

Definition sumq (l : list Qc) : Qc := fold_right Qcplus 0 l.
Definition sumf {A} (f : A -> Qc) (l : list A) : Qc := fold_right (fun a acc => f a + acc) 0 l.
Definition qcn (n : nat) : Qc := Q2Qc (inject_Z (Z.of_nat n)).

Lemma qcn_S n : qcn (S n) = 1 + qcn n.
Proof.
  unfold qcn. apply Qc_is_canon. rewrite Nat2Z.inj_succ. unfold Z.succ.
  cbn [this Qcplus Q2Qc]. rewrite !Qred_correct. rewrite inject_Z_plus. ring.
Qed.

Lemma qcn_0 : qcn 0 = 0.
Proof. apply Qc_is_canon. reflexivity. Qed.

Lemma qcn_nonzero n : (0 < n)%nat -> qcn n <> 0.
Proof.
  intros Hn E.
  assert (Hq0 : (this (qcn n) == 0)%Q) by (rewrite E; reflexivity).
  unfold qcn in Hq0. cbn [this Q2Qc] in Hq0. rewrite Qred_correct in Hq0.
  unfold Qeq in Hq0. cbn in Hq0. lia.
Qed.

Section Cat.
  Variable ws : list Qc.
  Let W := sumq ws.
  Hypothesis HW : W <> 0.

  Definition prob (i : nat) : Qc := nth i ws 0 / W.

  (** expectation over one categorical draw *)
  Definition Ecat (F : nat -> Qc) : Qc := sumf (fun i => prob i * F i) (seq 0 (length ws)).

  (** expectation over n independent draws (the ancestor vector) *)
  Fixpoint EcatN (n : nat) (F : list nat -> Qc) : Qc :=
    match n with
    | O => F []
    | S n' => Ecat (fun i => EcatN n' (fun l => F (i :: l)))
    end.

  Lemma sumf_ext {A} (f g : A -> Qc) l : (forall a, In a l -> f a = g a) -> sumf f l = sumf g l.
  Proof.
    induction l as [|x l IH]; intros H; [reflexivity|].
    change (f x + sumf f l = g x + sumf g l).
    rewrite (H x (or_introl eq_refl)), IH; [reflexivity|]. intros a Ha. apply H. right. exact Ha.
  Qed.

  Lemma sumf_lin {A} (c : Qc) (f g : A -> Qc) l : sumf (fun a => c * f a + g a) l = c * sumf f l + sumf g l.
  Proof.
    induction l as [|x l IH]; [cbn; ring|].
    change (c * f x + g x + sumf (fun a => c * f a + g a) l = c * (f x + sumf f l) + (g x + sumf g l)).
    rewrite IH. ring.
  Qed.

  Lemma sumf_zero {A} (l : list A) : sumf (fun _ => 0) l = 0.
  Proof. induction l as [|y l IHl]; [reflexivity|]. change (0 + sumf (fun _ : A => 0) l = 0). rewrite IHl. ring. Qed.

  Lemma sumf_nth_seq (l : list Qc) (k : nat) :
    sumf (fun i => nth (i - k) l 0) (seq k (length l)) = sumq l.
  Proof.
    revert k. induction l as [|x l IH]; intros k; [reflexivity|].
    change (nth (k - k) (x :: l) 0 + sumf (fun i => nth (i - k) (x :: l) 0) (seq (S k) (length l)) = x + sumq l).
    replace (k - k)%nat with 0%nat by lia. cbn [nth]. f_equal.
    rewrite <- (IH (S k)). apply sumf_ext. intros i Hi. apply in_seq in Hi.
    replace (i - k)%nat with (S (i - S k)) by lia. reflexivity.
  Qed.

  Lemma prob_total : sumf prob (seq 0 (length ws)) = 1.
  Proof.
    unfold prob.
    transitivity (/ W * sumf (fun i => nth (i - 0) ws 0) (seq 0 (length ws))).
    - transitivity (sumf (fun i => / W * nth (i - 0) ws 0 + 0) (seq 0 (length ws))).
      + apply sumf_ext. intros i _. rewrite Nat.sub_0_r. unfold Qcdiv. ring.
      + rewrite (sumf_lin (/ W) (fun i => nth (i - 0) ws 0) (fun _ => 0)).
        rewrite sumf_zero. ring.
    - rewrite sumf_nth_seq. fold W. field. exact HW.
  Qed.

  Lemma Ecat_ext F G : (forall i, F i = G i) -> Ecat F = Ecat G.
  Proof. intros H. unfold Ecat. apply sumf_ext. intros i _. rewrite H. reflexivity. Qed.

  Lemma Ecat_lin c F G : Ecat (fun i => c * F i + G i) = c * Ecat F + Ecat G.
  Proof.
    unfold Ecat.
    rewrite <- (sumf_lin c (fun i => prob i * F i) (fun i => prob i * G i)).
    apply sumf_ext. intros i _. ring.
  Qed.

  Lemma Ecat_const c : Ecat (fun _ => c) = c.
  Proof.
    unfold Ecat. transitivity (sumf (fun i => c * prob i + 0) (seq 0 (length ws))).
    - apply sumf_ext. intros i _. ring.
    - rewrite (sumf_lin c prob (fun _ => 0)), sumf_zero, prob_total. ring.
  Qed.

  Lemma EcatN_ext n : forall F G, (forall l, F l = G l) -> EcatN n F = EcatN n G.
  Proof.
    induction n as [|n IH]; intros F G H; cbn [EcatN]; [apply H|].
    apply Ecat_ext. intros i. apply IH. intros l. apply H.
  Qed.

  Lemma EcatN_lin n : forall c F G, EcatN n (fun l => c * F l + G l) = c * EcatN n F + EcatN n G.
  Proof.
    induction n as [|n IH]; intros c F G; cbn [EcatN]; [reflexivity|].
    rewrite <- Ecat_lin. apply Ecat_ext. intros i. apply IH.
  Qed.

  Lemma EcatN_const n c : EcatN n (fun _ => c) = c.
  Proof. induction n as [|n IH]; cbn [EcatN]; [reflexivity|]. rewrite (Ecat_ext _ (fun _ => c)); [apply Ecat_const|intros; apply IH]. Qed.

  (** the N draws are exchangeable and each has the one-draw law: E[sum_j f(a_j)] = N E[f] *)
  Theorem EcatN_sum (f : nat -> Qc) n : EcatN n (sumf f) = qcn n * Ecat f.
  Proof.
    induction n as [|n IH]; cbn [EcatN].
    - change (sumf f []) with (0 : Qc). rewrite qcn_0. ring.
    - transitivity (Ecat (fun i => 1 * f i + EcatN n (sumf f))).
      + apply Ecat_ext. intros i.
        transitivity (EcatN n (fun l => 1 * (fun _ => f i) l + sumf f l)).
        * apply EcatN_ext. intros l. change (f i + sumf f l = 1 * f i + sumf f l). ring.
        * rewrite (EcatN_lin n 1 (fun _ => f i) (sumf f)), EcatN_const. ring.
      + rewrite (Ecat_lin 1 f (fun _ => EcatN n (sumf f))), Ecat_const, IH, qcn_S. ring.
  Qed.

  Definition ind (i j : nat) : Qc := if Nat.eqb j i then 1 else 0.

  Lemma sumf_pick (g : nat -> Qc) i k m : (k <= i < k + m)%nat ->
    sumf (fun j => g j * ind i j) (seq k m) = g i.
  Proof.
    revert k. induction m as [|m IH]; intros k Hi; [lia|].
    change (g k * ind i k + sumf (fun j => g j * ind i j) (seq (S k) m) = g i).
    unfold ind at 1.
    destruct (Nat.eqb_spec k i) as [E|E].
    - subst k.
      rewrite (sumf_ext (fun j => g j * ind i j) (fun _ => 0) (seq (S i) m)).
      + rewrite sumf_zero. ring.
      + intros j Hj. apply in_seq in Hj. unfold ind.
        destruct (Nat.eqb_spec j i); [lia|ring].
    - rewrite IH by lia. ring.
  Qed.

  Lemma Ecat_ind i : (i < length ws)%nat -> Ecat (ind i) = prob i.
  Proof. intros Hi. unfold Ecat. apply (sumf_pick prob i 0 (length ws)). lia. Qed.

  (** copies of particle i among the drawn ancestors *)
  Definition copiesq (i : nat) (l : list nat) : Qc := sumf (ind i) l.

  Theorem categorical_expected_copies i n : (i < length ws)%nat ->
    EcatN n (copiesq i) = qcn n * (nth i ws 0 / W).
  Proof. intros Hi. unfold copiesq. rewrite EcatN_sum, Ecat_ind by exact Hi. reflexivity. Qed.

  (** the equal-weight average of any test function over the resampled particles has the
      expectation of the weighted average before resampling *)
  Theorem categorical_estimate_preserved (f : nat -> Qc) n : (0 < n)%nat ->
    EcatN n (fun l => sumf f l / qcn n) = sumf (fun i => nth i ws 0 / W * f i) (seq 0 (length ws)).
  Proof.
    intros Hn.
    transitivity (/ qcn n * EcatN n (sumf f) + EcatN n (fun _ => 0)).
    - rewrite <- (EcatN_lin n (/ qcn n) (sumf f) (fun _ => 0)).
      apply EcatN_ext. intros l. unfold Qcdiv. ring.
    - rewrite EcatN_sum, EcatN_const. unfold Ecat, prob.
      assert (Hq : qcn n <> 0).
      { intros E.
        assert (Hq0 : (this (qcn n) == 0)%Q) by (rewrite E; reflexivity).
        unfold qcn in Hq0. cbn [this Q2Qc] in Hq0. rewrite Qred_correct in Hq0.
        unfold Qeq in Hq0. cbn in Hq0. lia. }
      field. exact Hq.
  Qed.

  (** One resample-then-extend stage: with the running estimate [est], particle weights w_i and
      u(i) the expected incremental weight of an extension of particle i, the evidence estimate
      after categorical resampling and extension, est * mean(w) * mean_j u(a_j), has the expectation
      est * mean_i (w_i u(i)) of the estimate obtained by extending without resampling: resampling
      introduces no bias into the next step. *)
  Theorem resample_extend_unbiased (u : nat -> Qc) (est : Qc) n : (0 < n)%nat ->
    EcatN n (fun l => est * (W / qcn n) * (sumf u l / qcn n))
    = est * (sumf (fun i => nth i ws 0 * u i) (seq 0 (length ws)) / qcn n).
  Proof.
    intros Hn. pose proof (qcn_nonzero n Hn) as Hq.
    transitivity (est * (W / qcn n) * EcatN n (fun l => sumf u l / qcn n) + EcatN n (fun _ => 0)).
    - rewrite <- (EcatN_lin n (est * (W / qcn n)) (fun l => sumf u l / qcn n) (fun _ => 0)).
      apply EcatN_ext. intros l. ring.
    - rewrite categorical_estimate_preserved by exact Hn. rewrite EcatN_const.
      rewrite (sumf_ext (fun i => nth i ws 0 / W * u i) (fun i => / W * (nth i ws 0 * u i) + 0))
        by (intros i _; unfold Qcdiv; ring).
      rewrite (sumf_lin (/ W) (fun i => nth i ws 0 * u i) (fun _ => 0)), sumf_zero.
      field. split; assumption.
  Qed.

  Theorem categorical_total_mass n : EcatN n (fun _ => 1) = 1.
  Proof. apply EcatN_const. Qed.
End Cat.
