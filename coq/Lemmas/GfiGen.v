(** GfiGen.v — generate (C02): coherent trace, constraints held, weight = sum
    of the log probabilities of the constrained sites. *)
From GV Require Import Model.Gfi Model.Spec Lemmas.CmLemmas Lemmas.GfiCoh.

Lemma total_on_app P l1 l2 : total_on P (l1 ++ l2) = total_on P l1 + total_on P l2.
Proof. unfold total_on. rewrite filter_app. apply total_app. Qed.

Lemma total_on_prefix P a l :
  total_on P (map (fun q : path * Z => (a :: fst q, snd q)) l) = total_on (fun p => P (a :: p)) l.
Proof.
  unfold total_on, total. induction l as [|[p z] l IH]; cbn; [reflexivity|].
  destruct (P (a :: p)); cbn; rewrite IH; reflexivity.
Qed.

Lemma total_on_ext P Q l : (forall p, P p = Q p) -> total_on P l = total_on Q l.
Proof.
  intros H. unfold total_on. f_equal. apply filter_ext. intros q; apply H.
Qed.

Lemma total_on_false l : total_on (fun _ => false) l = 0.
Proof. unfold total_on. induction l; cbn; auto. Qed.

Lemma total_on_true l : total_on (fun _ => true) l = total l.
Proof. unfold total_on. f_equal. induction l; cbn; congruence. Qed.

(** The constraint [c] is held in [Y] at every visited site it binds. *)
Definition held (c Y : cm) (l : list (path * Z)) : Prop :=
  forall q, In q l -> cm_binds c (fst q) = true -> cm_at Y (fst q) = cm_at c (fst q).

Definition gen_weight (x : option cm) (l : list (path * Z)) : Z :=
  match x with None => 0 | Some c => total_on (cm_binds c) l end.

Definition gen_held (x : option cm) (Y : cm) (l : list (path * Z)) : Prop :=
  match x with None => True | Some c => held c Y l end.

Lemma SC_coherent_covers g args t Y :
  SC g args t -> covers Y (choices t) ->
  exists l, gf_sites g Y args = Ok (l, get_retval t) /\ total l = - get_score t.
Proof.
  intros H HY. destruct (SC_coherent _ _ _ H) as [l [Hl Ht]].
  exists l; split; auto. eapply sites_covers; eauto.
Qed.

Theorem generate_spec : forall g x args t w,
    reach (gf_generate g x args) (t, w) ->
    SC g args t /\
    forall Y, covers Y (choices t) ->
      exists l, gf_sites g Y args = Ok (l, get_retval t)
                /\ total l = - get_score t
                /\ w = gen_weight x l /\ gen_held x Y l.
Proof.
  intros g.
  apply (gf_mind
     (fun g => forall x args t w,
        reach (gf_generate g x args) (t, w) ->
        SC g args t /\
        forall Y, covers Y (choices t) ->
          exists l, gf_sites g Y args = Ok (l, get_retval t)
                    /\ total l = - get_score t
                    /\ w = gen_weight x l /\ gen_held x Y l)
     (fun p => forall X st v st',
        reach (run_generate p X st) (v, st') ->
        SCP p (g_map st) (g_score st) (g_map st') (g_score st') v /\
        forall XX, (forall a t, lookup a (g_map st') = Some t ->
                                exists Y, cm_get a XX = Some Y /\ covers Y (choices t)) ->
          exists l, run_sites p XX = Ok (l, v)
                    /\ total l = - (g_score st' - g_score st)
                    /\ g_weight st' - g_weight st = total_on (cm_binds X) l
                    /\ held X XX l)).
  - (* GDist *)
    intros d x args t w H. cbn in H. unfold Distribution_generate in H.
    destruct x as [c|].
    + apply reach_bind in H as [[lp r] [H1 H2]]. apply reach_lift in H1.
      unfold Distribution_assess in H1. destruct c as [v|]; [|discriminate].
      inversion H1; subst. apply reach_ret in H2. inversion H2; subst.
      split; [constructor|].
      intros Y HY. cbn in HY. inversion HY; subst.
      eexists; split; [reflexivity|]. cbn. unfold total_on, total; cbn.
      repeat split; try lia.
      all: try (intros q [Hq|[]] _; subst; reflexivity).
    + apply reach_bind in H as [t1 [H1 H2]]. apply reach_ret in H2. inversion H2; subst.
      unfold Distribution_simulate in H1. inversion H1; subst.
      match goal with Hr : reach (SRet _) _ |- _ => apply reach_ret in Hr; subst end.
      split; [constructor|].
      intros Y HY. cbn in HY. inversion HY; subst.
      eexists; split; [reflexivity|]. cbn. unfold total; cbn. repeat split; lia.
  - (* GFn *)
    intros body IH x args t w H. cbn [gf_generate] in H. destruct x as [X|].
    + apply reach_bind in H as [[r st] [H1 H2]]. apply reach_ret in H2. inversion H2; subst.
      destruct (IH args _ _ _ _ H1) as [Hscp Hs]. cbn in Hscp.
      split; [constructor; exact Hscp|].
      intros Y HY. rewrite choices_fn in HY. inversion HY as [|L l0 HL]; subst.
      destruct (Hs (CNode L)) as [l [Hl [Ht [Hw Hh]]]].
      * intros a t Ht. cbn. apply HL. rewrite lookup_cmap, Ht. reflexivity.
      * exists l. cbn in *. repeat split; auto; lia.
    + apply reach_bind in H as [t1 [H1 H2]]. apply reach_ret in H2. inversion H2; subst.
      pose proof (simulate_SC _ _ _ H1) as Hsc. split; [exact Hsc|].
      intros Y HY. destruct (SC_coherent_covers _ _ _ _ Hsc HY) as [l [Hl Ht]].
      exists l; cbn; repeat split; auto.
  - (* GCond *)
    intros g1 IH1 g2 IH2 x args t w H. cbn [gf_generate] in H.
    apply reach_bind in H as [[c rest] [Hc H]]. apply reach_lift in Hc.
    destruct x as [X|].
    + apply reach_bind in H as [[t1 w1] [H1 H]].
      apply reach_bind in H as [[t2 w2] [H2 H]]. apply reach_ret in H. inversion H; subst.
      destruct (IH1 _ _ _ _ H1) as [S1 G1]. destruct (IH2 _ _ _ _ H2) as [S2 G2].
      split; [econstructor; eauto|].
      intros Y HY. cbn [choices] in HY. cbn [gf_sites get_retval get_score]. rewrite Hc. cbn.
      destruct c.
      * destruct (G1 Y (covers_trans _ _ _ (merge_covers_left _ _) HY)) as [l [Hl [Ht [Hw Hh]]]].
        exists l; repeat split; auto.
      * destruct (G2 Y (covers_trans _ _ _ (merge_covers_right _ _) HY)) as [l [Hl [Ht [Hw Hh]]]].
        exists l; repeat split; auto.
    + apply reach_bind in H as [t1 [H1 H]].
      apply reach_bind in H as [t2 [H2 H]]. apply reach_ret in H. inversion H; subst.
      pose proof (simulate_SC _ _ _ H1) as S1. pose proof (simulate_SC _ _ _ H2) as S2.
      split; [econstructor; eauto|].
      intros Y HY. cbn [choices] in HY. cbn [gf_sites get_retval get_score]. rewrite Hc. cbn.
      destruct c.
      * destruct (SC_coherent_covers _ _ _ Y S1 (covers_trans _ _ _ (merge_covers_left _ _) HY)) as [l [Hl Ht]].
        exists l; repeat split; auto.
      * destruct (SC_coherent_covers _ _ _ Y S2 (covers_trans _ _ _ (merge_covers_right _ _) HY)) as [l [Hl Ht]].
        exists l; repeat split; auto.
  - (* Ret *)
    intros v X st v' st' H. cbn in H. apply reach_ret in H. inversion H; subst.
    split; [constructor|]. intros XX _. exists []. cbn. unfold total_on, total; cbn.
    repeat split; try lia. intros q [].
  - (* Call *)
    intros a g0 IHg args k IHk X st v st' H. cbn [run_generate] in H.
    apply reach_bind in H as [[r st1] [H1 H2]].
    unfold Generate_call in H1. destruct (mem a (g_map st)) eqn:Hm; [inversion H1|].
    destruct X as [vx|LX]; [inversion H1|].
    apply reach_bind in H1 as [[t1 w1] [Ht1 H1]]. apply reach_ret in H1. inversion H1; subst.
    destruct (IHg _ _ _ _ Ht1) as [S1 G1].
    destruct (IHk _ _ _ _ _ H2) as [Sk Gk]. cbn in Sk.
    split; [econstructor; eauto|].
    intros XX HXX. cbn [run_sites].
    assert (Hl : lookup a (g_map st') = Some t1).
    { eapply SCP_extends; [exact Sk|]. cbn. rewrite addr_eqb_refl. reflexivity. }
    destruct (HXX _ _ Hl) as [Ya [HYa Hcov]]. rewrite HYa.
    destruct (G1 _ Hcov) as [l1 [Hl1 [T1 [W1 Hh1]]]]. rewrite Hl1. cbn.
    destruct (Gk XX HXX) as [l2 [Hl2 [T2 [W2 Hh2]]]]. rewrite Hl2. cbn.
    eexists; split; [reflexivity|]. cbn in T2, W2.
    rewrite total_app, total_map_prefix, total_on_app, total_on_prefix.
    repeat split; try lia.
    + rewrite <- W2. cbn [g_weight]. 
      assert (E : total_on (fun p => cm_binds (CNode LX) (a :: p)) l1 = w1).
      { rewrite W1. cbn [cm_binds cm_get]. unfold gen_weight.
        destruct (lookup a LX) as [c'|]; [reflexivity|apply total_on_false]. }
      lia.
    + intros q Hq Hb. apply in_app_or in Hq as [Hq|Hq].
      * apply in_map_iff in Hq as [[p z] [Eq Hq]]. subst q. cbn [fst] in *.
        cbn [cm_binds cm_at] in *. rewrite HYa.
        cbn [cm_get] in *. destruct (lookup a LX) as [c'|] eqn:Ec; [|discriminate].
        exact (Hh1 _ Hq Hb).
      * exact (Hh2 _ Hq Hb).
  - intros e X st v st' H. inversion H.
Qed.
