From Coq Require Import QArith Qcanon List Bool Field.
Import ListNotations.
From GV Require Import Model.Adev.
Open Scope Qc_scope.

Lemma Ex_bind {A B} (m : rnd A) (g : A -> rnd B) f : Ex (rbind m g) f = Ex m (fun a => Ex (g a) f).
Proof. induction m as [a|p k IH]; cbn; [reflexivity|]. rewrite !IH. reflexivity. Qed.

Lemma Ex_const {A} (m : rnd A) c : Ex m (fun _ => c) = c.
Proof. induction m as [a|p k IH]; cbn; [reflexivity|]. rewrite !IH. ring. Qed.

Lemma Ex_lin {A} (m : rnd A) f g c : Ex m (fun a => c * f a + g a) = c * Ex m f + Ex m g.
Proof. induction m as [a|p k IH]; cbn; [reflexivity|]. rewrite !IH. ring. Qed.

Lemma Ex_ext {A} (m : rnd A) f g : (forall a, f a = g a) -> Ex m f = Ex m g.
Proof. intros H. induction m as [a|p k IH]; cbn; [apply H|]. rewrite !IH. reflexivity. Qed.

Lemma Ex_add {A} (m : rnd A) f g : Ex m (fun a => f a + g a) = Ex m f + Ex m g.
Proof.
  rewrite <- (Qcmult_1_l (Ex m f)). rewrite <- Ex_lin. apply Ex_ext. intros; ring.
Qed.

Lemma Ex_scale {A} (m : rnd A) f c : Ex m (fun a => c * f a) = c * Ex m f.
Proof.
  transitivity (c * Ex m f + Ex m (fun _ => 0)); [|rewrite Ex_const; ring].
  rewrite <- Ex_lin. apply Ex_ext. intros; ring.
Qed.

(** the pure continuation samples the value with the right mean *)
Lemma sample_primal_mean e : Ex (sample_primal e) (fun v => v) = fst (dualE e).
Proof.
  induction e as [d|es p k IH]; cbn; [reflexivity|]. rewrite !IH. ring.
Qed.

Lemma Ex_aff2 (m : rnd D) c1 c2 c3 :
  Ex m (fun a : D => c1 * fst a + c2 * snd a + c3) = c1 * Ex m fst + c2 * Ex m snd + c3.
Proof. induction m as [a|p k IH]; cbn; [reflexivity|]. rewrite !IH. ring. Qed.

Lemma Ex_aff1 (m : rnd Qc) c1 c3 :
  Ex m (fun o : Qc => c1 * o + c3) = c1 * Ex m (fun v => v) + c3.
Proof. induction m as [a|p k IH]; cbn; [reflexivity|]. rewrite !IH. ring. Qed.

(** Unbiasedness: the estimator's mean value is E[f] and its mean tangent is
    d/dtheta E[f] — for every composition of the three estimators. *)
Theorem adev_unbiased e : ok e ->
  Ex (adev e) fst = fst (dualE e) /\ Ex (adev e) snd = snd (dualE e).
Proof.
  induction e as [d|es p k IH]; cbn [adev dualE ok]; intros Hok.
  - cbn. split; reflexivity.
  - destruct Hok as [Hp [HT HF]].
    destruct (IH true HT) as [PT TT]. destruct (IH false HF) as [PF TF].
    destruct es.
    + (* enumeration *)
      rewrite !Ex_bind.
      split.
      * rewrite (Ex_ext (adev (k true)) _
                   (fun a : D => fst p * fst a + 0 * snd a + (1 - fst p) * fst (dualE (k false)))).
        -- rewrite Ex_aff2, PT. cbn. ring.
        -- intros a. rewrite Ex_bind. cbn [Ex fst snd dadd dmul dsub dconst].
           rewrite (Ex_ext (adev (k false)) _ (fun b : D => (1 - fst p) * fst b + 0 * snd b + fst p * fst a))
             by (intros; ring).
           rewrite Ex_aff2, PF. ring.
      * rewrite (Ex_ext (adev (k true)) _
                   (fun a : D => snd p * fst a + fst p * snd a
                                 + ((1 - fst p) * snd (dualE (k false)) - snd p * fst (dualE (k false))))).
        -- rewrite Ex_aff2, PT, TT. cbn. ring.
        -- intros a. rewrite Ex_bind. cbn [Ex fst snd dadd dmul dsub dconst].
           rewrite (Ex_ext (adev (k false)) _
                      (fun b : D => (0 - snd p) * fst b + (1 - fst p) * snd b + (fst p * snd a + snd p * fst a)))
             by (intros; ring).
           rewrite Ex_aff2, PF, TF. ring.
    + (* REINFORCE *)
      destruct (Hp eq_refl) as [H0 H1].
      cbn [Ex]. rewrite !Ex_bind. cbn [Ex fst snd].
      assert (H1' : 1 - fst p <> 0) by (intro E; apply H1; rewrite <- (Qcplus_0_r (fst p)); rewrite <- E; ring).
      split.
      * rewrite (Ex_ext (adev (k true)) _ fst) by (intros; reflexivity).
        rewrite (Ex_ext (adev (k false)) _ fst) by (intros; reflexivity).
        rewrite PT, PF. cbn. ring.
      * unfold lp_tangent.
        rewrite (Ex_ext (adev (k true)) _ (fun d : D => (snd p / fst p) * fst d + 1 * snd d + 0))
          by (intros; field; assumption).
        rewrite (Ex_ext (adev (k false)) _ (fun d : D => (- snd p / (1 - fst p)) * fst d + 1 * snd d + 0))
          by (intros; field; assumption).
        rewrite !Ex_aff2, PT, TT, PF, TF. cbn. field. split; assumption.
    + (* measure-valued derivative *)
      cbn [Ex]. rewrite !Ex_bind. cbn [negb].
      split.
      * rewrite (Ex_ext (adev (k true)) _ fst) by (intros; rewrite Ex_bind; cbn; apply Ex_const).
        rewrite (Ex_ext (adev (k false)) _ fst) by (intros; rewrite Ex_bind; cbn; apply Ex_const).
        rewrite PT, PF. cbn. ring.
      * rewrite (Ex_ext (adev (k true)) _
                  (fun d : D => snd p * fst d + 1 * snd d + (- snd p) * fst (dualE (k false)))).
        2:{ intros d. rewrite Ex_bind. cbn [Ex snd fst].
            rewrite (Ex_ext _ _ (fun o : Qc => (- snd p) * o + (snd d + snd p * fst d))) by (intros; ring).
            rewrite Ex_aff1, sample_primal_mean. ring. }
        rewrite (Ex_ext (adev (k false)) _
                  (fun d : D => (- snd p) * fst d + 1 * snd d + snd p * fst (dualE (k true)))).
        2:{ intros d. rewrite Ex_bind. cbn [Ex snd fst].
            rewrite (Ex_ext _ _ (fun o : Qc => snd p * o + (snd d - snd p * fst d))) by (intros; ring).
            rewrite Ex_aff1, sample_primal_mean. ring. }
        rewrite !Ex_aff2, PT, TT, PF, TF. cbn. ring.
Qed.

(** enumeration alone is exact: the estimator is deterministic *)
Theorem enum_exact e : all_enum e -> adev e = RRet (dualE e).
Proof.
  induction e as [d|es p k IH]; cbn; intros H; [reflexivity|].
  destruct H as [E [HT HF]]. subst es. rewrite (IH true HT), (IH false HF). reflexivity.
Qed.

(** reparameterisation: exactly the pathwise derivative for the noise drawn *)
Lemma reparam_normal_pathwise mu sigma eps :
  reparam_normal mu sigma eps = (fst mu + fst sigma * eps, snd mu + snd sigma * eps).
Proof. unfold reparam_normal, dadd, dmul, dconst. cbn. f_equal; ring. Qed.

Lemma reparam_uniform_pathwise lo hi eps :
  reparam_uniform lo hi eps
  = (fst lo + (fst hi - fst lo) * eps, snd lo + (snd hi - snd lo) * eps).
Proof. unfold reparam_uniform, dadd, dmul, dsub, dconst. cbn. f_equal; ring. Qed.
