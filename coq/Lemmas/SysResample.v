(** SysResample.v — systematic resampling gives every particle floor(N w_i) or
    ceil(N w_i) copies, for every offset u = a/b in (0,1) (C12). *)
From Coq Require Import ZArith List Lia Bool Arith.
Import ListNotations.
From GV Require Import Model.Resample.
Open Scope Z_scope.

(** ** generic counting *)
Definition count {A} (p : A -> bool) (l : list A) : nat := length (filter p l).

Lemma count_split_nat {A} (f : A -> nat) (i : nat) (l : list A) :
  (count (fun x => Nat.eqb i (f x)) l + count (fun x => Nat.ltb (f x) i) l
   = count (fun x => Nat.leb (f x) i) l)%nat.
Proof.
  unfold count. induction l as [|x l IH]; cbn [filter]; [reflexivity|].
  assert (Hx : ((if Nat.eqb i (f x) then 1 else 0) + (if Nat.ltb (f x) i then 1 else 0)
                = (if Nat.leb (f x) i then 1 else 0))%nat).
  { destruct (Nat.eqb_spec i (f x)), (Nat.ltb_spec (f x) i), (Nat.leb_spec (f x) i); lia. }
  destruct (Nat.eqb i (f x)), (Nat.ltb (f x) i), (Nat.leb (f x) i); cbn [length] in *; lia.
Qed.

Lemma count_ext {A} (p q : A -> bool) l : (forall x, In x l -> p x = q x) -> count p l = count q l.
Proof.
  unfold count. induction l as [|x l IH]; cbn; intros H; [reflexivity|].
  rewrite (H x (or_introl eq_refl)). destruct (q x); cbn; rewrite IH; auto.
Qed.

(** number of j in [0, N) with j <= K, for -1 <= K <= N-1 *)
Lemma count_le_seq (N : nat) (K : Z) :
  -1 <= K <= Z.of_nat N - 1 ->
  Z.of_nat (count (fun j => Z.of_nat j <=? K) (seq 0 N)) = K + 1.
Proof.
  revert K. induction N as [|N IH]; intros K HK.
  - cbn. lia.
  - rewrite seq_S. unfold count in *. rewrite filter_app, app_length. cbn [filter Nat.add].
    destruct (Z.of_nat N <=? K) eqn:E.
    + apply Z.leb_le in E. assert (K = Z.of_nat N) by lia. subst K.
      cbn [length]. rewrite Nat2Z.inj_add.
      assert (H : length (filter (fun j => Z.of_nat j <=? Z.of_nat N) (seq 0 N)) = N).
      { clear. assert (G : forall l, (forall j, In j l -> (j < N)%nat) ->
                                     length (filter (fun j => Z.of_nat j <=? Z.of_nat N) l) = length l).
        { induction l as [|y l IHl]; cbn; intros Hl; [reflexivity|].
          assert (Z.of_nat y <=? Z.of_nat N = true) by (apply Z.leb_le; specialize (Hl y (or_introl eq_refl)); lia).
          rewrite H. cbn. rewrite IHl; auto. }
        rewrite G; [apply seq_length|]. intros j Hj. apply in_seq in Hj. lia. }
      rewrite H. cbn. lia.
    + apply Z.leb_gt in E. cbn [length]. rewrite Nat.add_0_r. apply IH. lia.
Qed.

From Coq Require Import Sorting.Sorted.

(** ** a sorted list and an antitone predicate: the filter is a prefix *)
Lemma prefix_count (p : Z -> bool) (cs : list Z) :
  StronglySorted Z.le cs ->
  (forall C C', C <= C' -> p C' = true -> p C = true) ->
  forall i, (i < length cs)%nat ->
            ((length (filter p cs) <= i)%nat <-> p (nth i cs 0) = false).
Proof.
  intros Hs Hp. induction Hs as [|c cs' Hs IH Hall]; intros i Hi; [cbn in Hi; lia|].
  cbn [filter]. destruct (p c) eqn:Ec.
  - cbn [length]. destruct i as [|i]; cbn [nth].
    + rewrite Ec. split; [lia|discriminate].
    + cbn in Hi. rewrite <- (IH i) by lia. lia.
  - assert (Hnone : forall x, In x cs' -> p x = false).
    { intros x Hx. rewrite Forall_forall in Hall. specialize (Hall x Hx).
      destruct (p x) eqn:Ex; auto. rewrite (Hp c x Hall Ex) in Ec. discriminate. }
    assert (Hf : filter p cs' = []).
    { clear - Hnone. induction cs' as [|y l IHl]; cbn; auto.
      rewrite (Hnone y (or_introl eq_refl)). apply IHl. intros x Hx. apply Hnone. right; exact Hx. }
    rewrite Hf. cbn [length]. split; [intros _|lia].
    destruct i as [|i]; cbn [nth]; auto. apply Hnone. apply nth_In. cbn in Hi. lia.
Qed.

(** ** cumulative sums *)
Lemma cumsum_from_sorted acc ws :
  Forall (fun w => 0 <= w) ws ->
  StronglySorted Z.le (cumsum_from acc ws) /\ Forall (Z.le acc) (cumsum_from acc ws).
Proof.
  intros H. revert acc. induction H as [|w ws Hw _ IH]; intros acc; cbn.
  - split; constructor.
  - destruct (IH (acc + w)) as [S1 F1]. split.
    + constructor; auto.
    + constructor; [lia|]. eapply Forall_impl; [|exact F1]. cbn. intros; lia.
Qed.

Lemma cumsum_from_length acc ws : length (cumsum_from acc ws) = length ws.
Proof. revert acc; induction ws; intros; cbn; auto. Qed.

Lemma cumsum_from_nth_step acc ws i :
  (i < length ws)%nat ->
  nth i (cumsum_from acc ws) 0 = (match i with O => acc | S i' => nth i' (cumsum_from acc ws) 0 end) + nth i ws 0.
Proof.
  revert acc i. induction ws as [|w ws IH]; intros acc i Hi; [cbn in Hi; lia|].
  destruct i as [|i]; cbn [cumsum_from nth]; [reflexivity|].
  cbn in Hi. rewrite IH by lia. destruct i; reflexivity.
Qed.

Lemma cumsum_from_bounds acc ws :
  Forall (fun w => 0 <= w) ws ->
  Forall (fun c => acc <= c <= acc + sumz ws) (cumsum_from acc ws).
Proof.
  intros H. revert acc. induction H as [|w ws Hw Hws IH]; intros acc; cbn [cumsum_from]; [constructor|].
  assert (0 <= sumz ws).
  { clear - Hws. induction Hws as [|y l Hy _ IHl]; [cbn; lia|].
    change (sumz (y :: l)) with (y + sumz l). lia. }
  change (sumz (w :: ws)) with (w + sumz ws).
  constructor; [lia|]. eapply Forall_impl; [|apply IH]. cbn beta. intros; lia.
Qed.

Lemma cumsum_from_last_cons ws : forall acc w,
  nth (length ws) (cumsum_from acc (w :: ws)) 0 = acc + w + sumz ws.
Proof.
  induction ws as [|w' ws IH]; intros acc w.
  - cbn. lia.
  - change (nth (length (w' :: ws)) (cumsum_from acc (w :: w' :: ws)) 0)
      with (nth (length ws) (cumsum_from (acc + w) (w' :: ws)) 0).
    rewrite IH. change (sumz (w' :: ws)) with (w' + sumz ws). lia.
Qed.

Lemma cumsum_from_last acc ws :
  ws <> [] -> nth (length ws - 1) (cumsum_from acc ws) 0 = acc + sumz ws.
Proof.
  destruct ws as [|w ws]; intros Hne; [congruence|].
  replace (length (w :: ws) - 1)%nat with (length ws) by (cbn; lia).
  rewrite cumsum_from_last_cons. change (sumz (w :: ws)) with (w + sumz ws). lia.
Qed.

(** ** the theorem *)
Section Sys.
  Variables (ws : list Z) (N : nat) (a b : Z).
  Hypothesis Hws : Forall (fun w => 0 <= w) ws.
  Hypothesis HT : 0 < sumz ws.
  Hypothesis HN : (0 < N)%nat.
  Hypothesis Hab : 0 < a < b.

  Let T := sumz ws.
  Let NZ := Z.of_nat N.
  Let K (C : Z) : Z := (C * NZ * b - a * T) / (b * T).

  Lemma below_antitone j C C' :
    0 <= j -> C <= C' -> below T NZ a b j C' = true -> below T NZ a b j C = true.
  Proof.
    unfold below. intros Hj HC H. apply Z.ltb_lt in H. apply Z.ltb_lt.
    assert (0 <= NZ * b) by (unfold NZ; nia). nia.
  Qed.

  Lemma below_iff j C :
    0 <= j -> (below T NZ a b j C = false <-> j <= K C).
  Proof.
    intros Hj. unfold below, K. rewrite Z.ltb_ge.
    assert (HD : 0 < b * T) by (unfold T; nia).
    split; intros H.
    - apply Z.div_le_lower_bound; [exact HD|]. nia.
    - pose proof (Z.mul_div_le (C * NZ * b - a * T) (b * T) HD). nia.
  Qed.

  Lemma K_range C : 0 <= C <= T -> -1 <= K C <= NZ - 1.
  Proof.
    intros HC. unfold K.
    assert (HD : 0 < b * T) by (unfold T; nia).
    assert (0 < NZ) by (unfold NZ; lia).
    split.
    - apply Z.div_le_lower_bound; [exact HD|]. nia.
    - assert ((C * NZ * b - a * T) / (b * T) < NZ); [|lia].
      apply Z.div_lt_upper_bound; [exact HD|]. nia.
  Qed.

  (** number of positions at or below the cumulative weight C *)
  Lemma count_not_below C :
    0 <= C <= T ->
    Z.of_nat (count (fun j => negb (below T NZ a b (Z.of_nat j) C)) (seq 0 N)) = K C + 1.
  Proof.
    intros HC. rewrite (count_ext _ (fun j => Z.of_nat j <=? K C)).
    - apply count_le_seq. apply K_range; exact HC.
    - intros j _. destruct (below T NZ a b (Z.of_nat j) C) eqn:E; cbn [negb].
      + symmetry. apply Z.leb_gt. destruct (Z.le_gt_cases (Z.of_nat j) (K C)) as [H|H]; [|lia].
        apply below_iff in H; [congruence|lia].
      + symmetry. apply Z.leb_le. apply below_iff; [lia|exact E].
  Qed.

  Lemma sys_index_le j i :
    (i < length ws)%nat ->
    ((sys_index ws NZ a b (Z.of_nat j) <= i)%nat
     <-> below T NZ a b (Z.of_nat j) (nth i (cumsum ws) 0) = false).
  Proof.
    intros Hi. unfold sys_index. fold T.
    apply prefix_count.
    - apply cumsum_from_sorted; exact Hws.
    - intros C C'. apply below_antitone. lia.
    - unfold cumsum. rewrite cumsum_from_length. exact Hi.
  Qed.

  Lemma copies_map (f : nat -> nat) l i : copies (map f l) i = count (fun j => Nat.eqb i (f j)) l.
  Proof.
    unfold copies, count. induction l as [|x l IH]; cbn; [reflexivity|].
    destruct (Nat.eqb i (f x)); cbn; rewrite IH; reflexivity.
  Qed.

  Lemma cum_in_range i : (i < length ws)%nat -> 0 <= nth i (cumsum ws) 0 <= T.
  Proof.
    intros Hi. pose proof (cumsum_from_bounds 0 ws Hws) as H. rewrite Forall_forall in H.
    specialize (H (nth i (cumsum ws) 0)). cbn in H. apply H.
    apply nth_In. unfold cumsum. rewrite cumsum_from_length. exact Hi.
  Qed.

  (** copies of particle i = F(C_i) - F(C_i - w_i) *)
  Lemma copies_formula i :
    (i < length ws)%nat ->
    Z.of_nat (copies (sys_indices ws N a b) i)
    = K (nth i (cumsum ws) 0) - K (nth i (cumsum ws) 0 - nth i ws 0).
  Proof.
    intros Hi. unfold sys_indices. rewrite copies_map. fold NZ.
    pose proof (count_split_nat (fun j => sys_index ws NZ a b (Z.of_nat j)) i (seq 0 N)) as Hs.
    (* count (k_j <= i) *)
    assert (Hle : Z.of_nat (count (fun j => Nat.leb (sys_index ws NZ a b (Z.of_nat j)) i) (seq 0 N))
                  = K (nth i (cumsum ws) 0) + 1).
    { rewrite <- count_not_below by (apply cum_in_range; exact Hi). f_equal.
      apply count_ext. intros j _.
      destruct (below T NZ a b (Z.of_nat j) (nth i (cumsum ws) 0)) eqn:E; cbn [negb].
      - apply Nat.leb_gt. destruct (Nat.le_gt_cases (sys_index ws NZ a b (Z.of_nat j)) i) as [H|H]; [|lia].
        apply sys_index_le in H; [congruence|exact Hi].
      - apply Nat.leb_le. apply sys_index_le; assumption. }
    (* count (k_j < i) *)
    assert (Hlt : Z.of_nat (count (fun j => Nat.ltb (sys_index ws NZ a b (Z.of_nat j)) i) (seq 0 N))
                  = K (nth i (cumsum ws) 0 - nth i ws 0) + 1).
    { unfold cumsum. rewrite (cumsum_from_nth_step 0 ws i Hi).
      destruct i as [|i'].
      - replace (0 + nth 0 ws 0 - nth 0 ws 0) with 0 by lia.
        rewrite (count_ext _ (fun _ => false)).
        + unfold count. assert (G : forall l : list nat, filter (fun _ => false) l = []) by (induction l; auto).
          rewrite G. cbn. unfold K.
          assert (HD : 0 < b * T) by (unfold T; nia).
          assert ((0 * NZ * b - a * T) / (b * T) = -1); [|lia].
          symmetry. apply (Z.div_unique _ _ (-1) (b * T - a * T)); nia.
        + intros j _. apply Nat.ltb_ge. lia.
      - replace (nth i' (cumsum_from 0 ws) 0 + nth (S i') ws 0 - nth (S i') ws 0)
          with (nth i' (cumsum ws) 0) by (unfold cumsum; lia).
        rewrite <- count_not_below by (apply cum_in_range; lia). f_equal.
        apply count_ext. intros j _.
        destruct (below T NZ a b (Z.of_nat j) (nth i' (cumsum ws) 0)) eqn:E; cbn [negb].
        + apply Nat.ltb_ge. destruct (Nat.le_gt_cases (sys_index ws NZ a b (Z.of_nat j)) i') as [H|H]; [|lia].
          apply sys_index_le in H; [congruence|lia].
        + apply Nat.ltb_lt. assert (sys_index ws NZ a b (Z.of_nat j) <= i')%nat; [|lia].
          apply sys_index_le; [lia|exact E]. }
    lia.
  Qed.

  (** every particle gets floor(N*w_i) or ceil(N*w_i) copies, for EVERY offset *)
  Theorem systematic_floor_ceil i :
    (i < length ws)%nat ->
    let c := Z.of_nat (copies (sys_indices ws N a b) i) in
    let w := nth i ws 0 in
    (NZ * w) / T <= c <= (NZ * w + T - 1) / T.
  Proof.
    intros Hi c w. unfold c. rewrite (copies_formula i Hi). fold w.
    set (C := nth i (cumsum ws) 0). unfold K.
    assert (Hw : 0 <= w).
    { rewrite Forall_forall in Hws. apply Hws. apply nth_In. exact Hi. }
    assert (HD : 0 < b * T) by (unfold T; nia).
    assert (HT' : 0 < T) by exact HT.
    assert (HNZ : 0 < NZ) by (unfold NZ; lia).
    set (x := (C - w) * NZ * b - a * T).
    replace (C * NZ * b - a * T) with (x + w * NZ * b) by (unfold x; ring).
    set (d := w * NZ * b). set (D := b * T).
    pose proof (Z.div_mod x D ltac:(lia)) as E1. pose proof (Z.mod_pos_bound x D HD) as B1.
    pose proof (Z.div_mod d D ltac:(lia)) as E2. pose proof (Z.mod_pos_bound d D HD) as B2.
    pose proof (Z.div_mod (x + d) D ltac:(lia)) as E3. pose proof (Z.mod_pos_bound (x + d) D HD) as B3.
    pose proof (Z.div_mod (NZ * w) T ltac:(lia)) as E4. pose proof (Z.mod_pos_bound (NZ * w) T HT') as B4.
    pose proof (Z.div_mod (NZ * w + T - 1) T ltac:(lia)) as E5. pose proof (Z.mod_pos_bound (NZ * w + T - 1) T HT') as B5.
    (* d / D = NZ*w / T and d mod D = b * ((NZ*w) mod T) *)
    assert (Hq : d / D = (NZ * w) / T /\ d mod D = b * ((NZ * w) mod T)).
    { assert (Hd : d = D * ((NZ * w) / T) + b * ((NZ * w) mod T)) by (unfold d, D; nia).
      assert (Hr : 0 <= b * ((NZ * w) mod T) < D) by (unfold D; nia).
      split; [symmetry; eapply Z.div_unique_pos; eauto | symmetry; eapply Z.mod_unique_pos; eauto]. }
    destruct Hq as [Hq Hr]. fold d D. split; [nia|].
    (* upper bound *)
    destruct (Z.eq_dec ((NZ * w) mod T) 0) as [Hz|Hnz].
    - assert ((NZ * w + T - 1) / T = (NZ * w) / T).
      { symmetry. apply (Z.div_unique_pos _ _ _ (T - 1)); lia. }
      nia.
    - assert ((NZ * w + T - 1) / T = (NZ * w) / T + 1).
      { symmetry. apply (Z.div_unique_pos _ _ _ ((NZ * w) mod T - 1)); lia. }
      nia.
  Qed.

  (** a particle with zero weight (-inf log weight) gets no copy *)
  Corollary systematic_zero_weight i :
    (i < length ws)%nat -> nth i ws 0 = 0 -> copies (sys_indices ws N a b) i = 0%nat.
  Proof.
    intros Hi Hz. pose proof (systematic_floor_ceil i Hi) as H. cbn in H. rewrite Hz in H.
    rewrite Z.mul_0_r in H. rewrite Z.div_0_l in H by lia.
    assert ((0 + T - 1) / T = 0) by (apply Z.div_small; lia). lia.
  Qed.
  (** every systematic index names an input particle: the last cumulative weight is the total,
      and every pointer position lies strictly below it *)
  Theorem sys_indices_in_range :
    Forall (fun i => (i < length ws)%nat) (sys_indices ws N a b).
  Proof.
    assert (Hne : ws <> []).
    { intros E. subst ws. cbn in HT. lia. }
    assert (Hlen : (0 < length ws)%nat) by (destruct ws; [congruence|cbn; lia]).
    unfold sys_indices. apply Forall_forall. intros i Hin.
    apply in_map_iff in Hin. destruct Hin as [j [Hj Hjin]]. apply in_seq in Hjin.
    subst i. fold NZ.
    assert (Hlast : (length ws - 1 < length ws)%nat) by lia.
    apply (sys_index_le j) in Hlast. 
    assert (Hb : below T NZ a b (Z.of_nat j) (nth (length ws - 1) (cumsum ws) 0) = false).
    { unfold cumsum. rewrite cumsum_from_last by exact Hne. cbn [Z.add]. fold T.
      unfold below. apply Z.ltb_ge. unfold NZ.
      assert (Z.of_nat j * b + a <= Z.of_nat N * b) by nia.
      assert (0 < T) by (unfold T; lia). nia. }
    apply Hlast in Hb. lia.
  Qed.

End Sys.
