(** SysUnbiased.v — systematic resampling is unbiased (C12): averaged over a uniform
    grid of offsets u_k = (2k+1)/(2B), k = 0..B-1, whose mesh 1/B divides the weight
    resolution (B = c * sum of the integer weights), particle i receives exactly
    N * w_i / sum(w) copies on average.  (The continuous statement E_u[copies_i] = N w_i
    is the limit of these Riemann averages.) *)
From Coq Require Import ZArith List Lia.
From GV Require Import Model.Resample Lemmas.SysResample.
Import ListNotations.
Open Scope Z_scope.

(** floor((2n+1)/(2B)) = floor(n/B) *)
Lemma half_step_div n B : 0 < B -> (2 * n + 1) / (2 * B) = n / B.
Proof.
  intros HB. symmetry. apply (Z.div_unique_pos (2 * n + 1) (2 * B) (n / B) (2 * (n mod B) + 1)).
  - pose proof (Z.mod_pos_bound n B HB). lia.
  - pose proof (Z.div_mod n B). lia.
Qed.

Definition zsum (f : nat -> Z) (n : nat) : Z := fold_right (fun k acc => f k + acc) 0 (seq 0 n).

Lemma zsum_S f n : zsum f (S n) = zsum f n + f n.
Proof.
  unfold zsum. rewrite seq_S. cbn [Nat.add].
  generalize (seq 0 n). intros l. induction l as [|x l IH]; cbn; [lia|]. rewrite IH. lia.
Qed.

Lemma zsum_ext f g n : (forall k, (k < n)%nat -> f k = g k) -> zsum f n = zsum g n.
Proof.
  induction n as [|n IH]; intros H; [reflexivity|].
  rewrite !zsum_S, IH, (H n) by (intros; try apply H; lia). reflexivity.
Qed.

Lemma zsum_minus f g n : zsum (fun k => f k - g k) n = zsum f n - zsum g n.
Proof. induction n as [|n IH]; [reflexivity|]. rewrite !zsum_S, IH. lia. Qed.

(** the floors of B consecutive integers ending at M-1, divided by B, sum to M - B *)
Lemma floor_block_sum (M : Z) (B : nat) : (0 < B)%nat ->
  zsum (fun k => (M - 1 - Z.of_nat k) / Z.of_nat B) B = M - Z.of_nat B.
Proof.
  intros HB. set (b := Z.of_nat B). assert (Hb : 0 < b) by (unfold b; lia).
  set (q := (M - 1) / b). set (r := (M - 1) mod b).
  assert (Hqr : M - 1 = b * q + r) by (unfold q, r; apply Z.div_mod; lia).
  assert (Hr : 0 <= r < b) by (unfold r; apply Z.mod_pos_bound; exact Hb).
  (* term k is q for k <= r and q - 1 for k > r *)
  assert (T : forall k, (k < B)%nat ->
                        (M - 1 - Z.of_nat k) / b = if Z.of_nat k <=? r then q else q - 1).
  { intros k Hk. destruct (Z.leb_spec (Z.of_nat k) r).
    - symmetry. apply (Z.div_unique_pos _ b q (r - Z.of_nat k)); lia.
    - symmetry. apply (Z.div_unique_pos _ b (q - 1) (r - Z.of_nat k + b)); unfold b in *; lia. }
  rewrite (zsum_ext _ _ B T).
  (* closed form of the sum of the two-valued sequence *)
  assert (G : forall n, (n <= B)%nat ->
                        zsum (fun k => if Z.of_nat k <=? r then q else q - 1) n
                        = Z.of_nat n * (q - 1) + Z.min (Z.of_nat n) (r + 1)).
  { induction n as [|n IH]; intros Hn; [cbn; lia|].
    rewrite zsum_S, IH by lia. destruct (Z.leb_spec (Z.of_nat n) r); lia. }
  rewrite (G B (le_n B)). fold b. lia.
Qed.

Lemma zsum_plus f g n : zsum (fun k => f k + g k) n = zsum f n + zsum g n.
Proof. induction n as [|n IH]; [reflexivity|]. rewrite !zsum_S, IH. ring. Qed.

Lemma zsum_scale a f n : zsum (fun k => a * f k) n = a * zsum f n.
Proof. induction n as [|n IH]; [cbn; ring|]. rewrite !zsum_S, IH. ring. Qed.

Lemma zsum_zero n : zsum (fun _ => 0) n = 0.
Proof. induction n as [|n IH]; [reflexivity|]. rewrite zsum_S, IH. ring. Qed.

Lemma zsum_swap (g : nat -> nat -> Z) n m :
  zsum (fun k => zsum (fun i => g i k) n) m = zsum (fun i => zsum (fun k => g i k) m) n.
Proof.
  induction m as [|m IH].
  - cbn [zsum seq fold_right]. symmetry. apply zsum_zero.
  - rewrite zsum_S, IH. rewrite <- zsum_plus. apply zsum_ext. intros i _. rewrite zsum_S. reflexivity.
Qed.

Lemma zsum_pick (f : nat -> Z) j n : (j < n)%nat ->
  zsum (fun i => f i * (if Nat.eqb i j then 1 else 0)) n = f j.
Proof.
  induction n as [|n IH]; intros Hj; [lia|]. rewrite zsum_S.
  destruct (Nat.eqb_spec n j) as [E|E].
  - subst n. rewrite (zsum_ext _ (fun _ => 0)).
    + rewrite zsum_zero. ring.
    + intros k Hk. destruct (Nat.eqb_spec k j); [lia|ring].
  - rewrite IH by lia. ring.
Qed.

(** sum of a test function over the selected ancestors, grouped by particle *)
Definition fsum (f : nat -> Z) (idx : list nat) : Z := fold_right (fun j acc => f j + acc) 0 idx.

Lemma fsum_by_copies (f : nat -> Z) (n : nat) (idx : list nat) :
  Forall (fun j => (j < n)%nat) idx ->
  fsum f idx = zsum (fun i => f i * Z.of_nat (copies idx i)) n.
Proof.
  induction 1 as [|j idx Hj _ IH].
  - cbn [fsum fold_right]. rewrite (zsum_ext _ (fun _ => 0)); [symmetry; apply zsum_zero|].
    intros i _. unfold copies. cbn. ring.
  - change (fsum f (j :: idx)) with (f j + fsum f idx). rewrite IH.
    rewrite <- (zsum_pick f j n Hj), <- zsum_plus. apply zsum_ext. intros i _.
    unfold copies. cbn [filter]. destruct (Nat.eqb i j); cbn [length]; lia.
Qed.

Section Unbiased.
  Variables (ws : list Z) (N : nat) (c : nat).
  Hypothesis Hws : Forall (fun w => 0 <= w) ws.
  Hypothesis HT : 0 < sumz ws.
  Hypothesis HN : (0 < N)%nat.
  Hypothesis Hc : (0 < c)%nat.

  Let T := sumz ws.
  Let B : nat := (c * Z.to_nat T)%nat.

  Lemma B_pos : (0 < B)%nat.
  Proof. unfold B. assert (0 < Z.to_nat T)%nat by (unfold T; lia). nia. Qed.

  Lemma B_val : Z.of_nat B = Z.of_nat c * T.
  Proof. unfold B. rewrite Nat2Z.inj_mul, Z2Nat.id by (unfold T; lia). reflexivity. Qed.

  (** copies of particle i for the k-th grid offset u_k = (2k+1)/(2B) *)
  Definition copies_at (i k : nat) : Z :=
    Z.of_nat (copies (sys_indices ws N (2 * Z.of_nat k + 1) (2 * Z.of_nat B)) i).

  Lemma K_on_grid (C : Z) (k : nat) :
    (C * Z.of_nat N * (2 * Z.of_nat B) - (2 * Z.of_nat k + 1) * T) / (2 * Z.of_nat B * T)
    = (Z.of_nat c * Z.of_nat N * C - 1 - Z.of_nat k) / Z.of_nat B.
  Proof.
    pose proof B_pos as HB. rewrite B_val.
    replace (C * Z.of_nat N * (2 * (Z.of_nat c * T)) - (2 * Z.of_nat k + 1) * T)
      with (T * (2 * (Z.of_nat c * Z.of_nat N * C - 1 - Z.of_nat k) + 1)) by ring.
    replace (2 * (Z.of_nat c * T) * T) with (T * (2 * (Z.of_nat c * T))) by ring.
    rewrite Z.div_mul_cancel_l by (unfold T in *; nia).
    apply half_step_div. rewrite <- B_val. lia.
  Qed.

  Theorem systematic_unbiased_on_grid i : (i < length ws)%nat ->
    zsum (copies_at i) B = Z.of_nat c * Z.of_nat N * nth i ws 0.
  Proof.
    intros Hi. pose proof B_pos as HB.
    rewrite (zsum_ext _ (fun k =>
       (Z.of_nat c * Z.of_nat N * nth i (cumsum ws) 0 - 1 - Z.of_nat k) / Z.of_nat B
       - (Z.of_nat c * Z.of_nat N * (nth i (cumsum ws) 0 - nth i ws 0) - 1 - Z.of_nat k) / Z.of_nat B) B).
    - rewrite zsum_minus, !floor_block_sum by exact HB. ring.
    - intros k Hk. unfold copies_at.
      rewrite (copies_formula ws N (2 * Z.of_nat k + 1) (2 * Z.of_nat B) Hws HT HN) by lia.
      fold T. rewrite !K_on_grid. reflexivity.
  Qed.

  (** mean over the grid = N w_i / T *)
  Corollary systematic_mean_copies i : (i < length ws)%nat ->
    T * zsum (copies_at i) B = Z.of_nat B * (Z.of_nat N * nth i ws 0).
  Proof. intros Hi. rewrite (systematic_unbiased_on_grid i Hi), B_val. ring. Qed.
  (** the estimate: over the grid, the sum of any test function over the resampled particles sums to
      c * N * sum_i f(i) w_i - its mean over the grid is N times the weighted average before resampling *)
  Theorem systematic_estimate_on_grid (f : nat -> Z) :
    zsum (fun k => fsum f (sys_indices ws N (2 * Z.of_nat k + 1) (2 * Z.of_nat B))) B
    = Z.of_nat c * Z.of_nat N * zsum (fun i => f i * nth i ws 0) (length ws).
  Proof.
    pose proof B_pos as HB.
    rewrite (zsum_ext _ (fun k => zsum (fun i => f i * copies_at i k) (length ws)) B).
    - rewrite zsum_swap.
      rewrite (zsum_ext _ (fun i => (Z.of_nat c * Z.of_nat N) * (f i * nth i ws 0)) (length ws)).
      + apply zsum_scale.
      + intros i Hi. rewrite zsum_scale, (systematic_unbiased_on_grid i Hi). ring.
    - intros k Hk. unfold copies_at. apply fsum_by_copies.
      apply sys_indices_in_range; try assumption. lia.
  Qed.
End Unbiased.
