(** GfiHist.v — histories of edits and inference moves (C05). *)
From GV Require Import Model.Gfi Model.Spec Lemmas.CmLemmas Lemmas.GfiCoh Lemmas.GfiUpd Lemmas.GfiRegen.

(** One move on a (trace, recorded arguments) pair.  [HUpd]/[HRegen] are the GFI
    edits; [HMh] is the mh kernel (regenerate under the recorded arguments, then
    accept or reject); [HMove] is the mala/hmc shape (update the selected
    values under the recorded arguments, then accept or reject); [HId] is a jit
    round trip / indexing a particle out of a vectorized trace (identity on the
    model: the pytree round trip is JAX's). *)
Inductive hop :=
| HUpd (x : option cm) (args : value)
| HRegen (s : sel) (args : value)
| HMh (s : sel) (accept : bool)
| HMove (x : cm) (accept : bool)
| HId.

Inductive hstep (g : gf) : tr * value -> hop -> tr * value -> Prop :=
| hs_upd t a x a' t' w d :
    gf_update g t x a' = Ok (t', w, d) -> hstep g (t, a) (HUpd x a') (t', a')
| hs_regen t a s a' t' w d :
    reach (gf_regenerate g t s a') (t', w, d) -> hstep g (t, a) (HRegen s a') (t', a')
| hs_mh t a s acc t' w d :
    reach (gf_regenerate g t s a) (t', w, d) ->
    hstep g (t, a) (HMh s acc) (if acc then t' else t, a)
| hs_move t a x acc t' w d :
    gf_update g t (Some x) a = Ok (t', w, d) ->
    hstep g (t, a) (HMove x acc) (if acc then t' else t, a)
| hs_id t a : hstep g (t, a) HId (t, a).

Inductive hsteps (g : gf) : tr * value -> list hop -> tr * value -> Prop :=
| hss_nil s : hsteps g s [] s
| hss_cons s1 o s2 os s3 : hstep g s1 o s2 -> hsteps g s2 os s3 -> hsteps g s1 (o :: os) s3.

Lemma hstep_SC g t a o t' a' : SC g a t -> hstep g (t, a) o (t', a') -> SC g a' t'.
Proof.
  intros Hsc H. inversion H; subst; auto.
  - eapply update_SC; eauto.
  - eapply regenerate_SC; eauto.
  - destruct acc; auto. eapply regenerate_SC; eauto.
  - destruct acc; auto. eapply update_SC; eauto.
Qed.

Theorem history_SC g : forall s1 ops s2,
    hsteps g s1 ops s2 -> SC g (snd s1) (fst s1) -> SC g (snd s2) (fst s2).
Proof.
  induction 1 as [s|[t a] o [t' a'] os s3 Hs _ IH]; intros Hsc; auto.
  apply IH. cbn in *. eapply hstep_SC; eauto.
Qed.

(** Telescoping of consecutive updates. *)
Inductive usteps (g : gf) : tr -> list (option cm * value) -> tr -> Z -> Prop :=
| us_nil t : usteps g t [] t 0
| us_cons t x a t' w d us t'' W :
    gf_update g t x a = Ok (t', w, d) -> same_shape t t' = true ->
    usteps g t' us t'' W -> usteps g t ((x, a) :: us) t'' (w + W).

Theorem updates_telescope g a0 : forall t us t' W,
    usteps g t us t' W -> SC g a0 t -> W = get_score t - get_score t'.
Proof.
  intros t us t' W H. revert a0. induction H as [t|t x a t' w d us t'' W Hu Hs _ IH]; intros a0 Hsc.
  - lia.
  - pose proof (update_weight _ _ _ _ _ _ _ Hu (SC_WS _ _ _ Hsc) Hs).
    specialize (IH a (update_SC _ _ _ _ _ _ _ Hu)). lia.
Qed.
