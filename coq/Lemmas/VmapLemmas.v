From Coq Require Import List Arith Bool Lia.
Import ListNotations.
From GV Require Import Model.Vmap.

Lemma lastn_all {A} (l : list A) : lastn (length l) l = l.
Proof. unfold lastn. rewrite Nat.sub_diag. reflexivity. Qed.

Lemma lastn_cons_drop {A} (x : A) l k : k <= length l -> lastn k (x :: l) = lastn k l.
Proof. intros H. unfold lastn. cbn [length]. replace (S (length l) - k) with (S (length l - k)) by lia. reflexivity. Qed.

(** a batched parameter of per-lane rank R, indexed by lane :: j with |j| = R *)
Lemma opidx_batched n s' lane j :
  length j = length s' -> lane < n -> opidx (n :: s') (lane :: j) = lane :: opidx s' j.
Proof.
  intros Hj Hl. unfold opidx. cbn [length].
  replace (lastn (S (length s')) (lane :: j)) with (lane :: j)
    by (rewrite <- Hj; symmetry; apply (lastn_all (lane :: j))).
  cbn [map2]. rewrite <- Hj, lastn_all.
  destruct (Nat.eqb_spec n 1); [f_equal; lia|reflexivity].
Qed.

(** an unbatched parameter of rank <= R ignores the lane index *)
Lemma opidx_unbatched s lane j : length s <= length j -> opidx s (lane :: j) = opidx s j.
Proof. intros H. unfold opidx. rewrite lastn_cons_drop by exact H. reflexivity. Qed.

Lemma skipn_app_exact {A} (s l : list A) : skipn (length s) (s ++ l) = l.
Proof. induction s; cbn; auto. Qed.

Definition per_lane_rank (z : arg) : nat :=
  if a_batched z then length (tl (a_shape z)) else length (a_shape z).

Definition wf_arg (n : nat) (z : arg) : Prop :=
  a_batched z = true -> exists s', a_shape z = n :: s'.

(** Lane-wise correctness of the sample batching rule when every batched
    parameter has the same per-lane rank R = |j| (and unbatched ones rank <= R):
    element [lane, s ++ j] of the batched site is drawn with exactly lane
    [lane]'s parameter elements. *)
Theorem batched_is_lanewise S x y n lane s j :
  lanes x y = Some n -> wf_arg n x -> wf_arg n y -> lane < n ->
  length s = length S ->
  (a_batched x = true -> per_lane_rank x = length j) ->
  (a_batched y = true -> per_lane_rank y = length j) ->
  (a_batched x = false -> per_lane_rank x <= length j) ->
  (a_batched y = false -> per_lane_rank y <= length j) ->
  let e := batched_elem S x y None lane s j in
  (e_a e, e_b e) = lane_elem S x y lane s j.
Proof.
  intros Hl Wx Wy Hlane Hs Rx Ry Ux Uy. unfold batched_elem, batch_rule, lane_elem. rewrite Hl.
  unfold sampler. cbn [e_a e_b]. rewrite <- Hs, skipn_app_exact.
  unfold per_lane_rank in *.
  f_equal.
  - destruct (a_batched x) eqn:Bx.
    + destruct (Wx Bx) as [sx Ex]. rewrite Ex in *. cbn [tl] in *.
      apply opidx_batched; [symmetry; apply Rx; reflexivity|exact Hlane].
    + apply opidx_unbatched. apply Ux; reflexivity.
  - destruct (a_batched y) eqn:By.
    + destruct (Wy By) as [sy Ey]. rewrite Ey in *. cbn [tl] in *.
      apply opidx_batched; [symmetry; apply Ry; reflexivity|exact Hlane].
    + apply opidx_unbatched. apply Uy; reflexivity.
Qed.

(** no batched parameter, axis_size given: every lane is a separate draw with the
    (shared) parameters, laid out along output axis 0 *)
Theorem unbatched_lanes_are_separate_draws S x y n lane lane' s j :
  lanes x y = None ->
  let e := batched_elem S x y (Some n) lane s j in
  let e' := batched_elem S x y (Some n) lane' s j in
  length s = length S ->
  (e_a e, e_b e) = (opidx (a_shape x) j, opidx (a_shape y) j)
  /\ (lane <> lane' -> e_draw e <> e_draw e').
Proof.
  intros Hl e e' Hs. unfold e, e', batched_elem, batch_rule. rewrite Hl. unfold sampler. cbn [e_a e_b e_draw length].
  split.
  - cbn [skipn]. rewrite <- Hs, skipn_app_exact. reflexivity.
  - intros Hne E. inversion E. contradiction.
Qed.

(** distinct lanes / positions are distinct draws in the batched-parameter case too *)
Theorem batched_draws_distinct S x y n lane lane' s j :
  lanes x y = Some n -> lane <> lane' ->
  e_draw (batched_elem S x y None lane s j) <> e_draw (batched_elem S x y None lane' s j).
Proof.
  intros Hl Hne. unfold batched_elem, batch_rule. rewrite Hl. unfold sampler. cbn [e_draw].
  intros E. apply app_inv_head in E. inversion E. contradiction.
Qed.
