(** DistLemmas.v — normalisation of the specified log masses / densities (C13). *)
From Coq Require Import Reals QArith List ZArith Bool Lia Lra.
From GV Require Import Model.Dists.
Import ListNotations.
Open Scope R_scope.

Definition q2r (q : Q) : R := IZR (Qnum q) / IZR (Zpos (Qden q)).
Lemma den_RQ q : den (RQ q) = q2r q.  Proof. reflexivity. Qed.
Lemma den_rz z : den (rz z) = IZR z.
Proof. unfold rz. cbn. unfold Rdiv. rewrite Rinv_1. ring. Qed.

(** total mass of a finitely supported log mass function *)
Definition mass (lp : Q -> option rx) (support : list Q) : R :=
  fold_right (fun v acc => match lp v with Some e => exp (den e) | None => 0 end + acc) 0 support.

(** ** flip / bernoulli(probs) *)
Lemma spec_flip1 p : spec FlipProb [p] [1%Q] = Some (RLn (RQ p)).  Proof. reflexivity. Qed.
Lemma spec_flip0 p : spec FlipProb [p] [0%Q] = Some (RLn (rz 1 - RQ p)).  Proof. reflexivity. Qed.

Theorem flip_normalised (p : Q) :
  0 < q2r p < 1 -> mass (fun v => spec FlipProb [p] [v]) [0%Q; 1%Q] = 1.
Proof.
  intros [H0 H1]. unfold mass. cbn [fold_right]. rewrite spec_flip1, spec_flip0.
  cbn [den]. rewrite den_rz. fold (q2r p). rewrite !exp_ln by lra. lra.
Qed.

Theorem bernoulli_probs_normalised (p : Q) :
  0 < q2r p < 1 -> mass (fun v => spec BernoulliProbs [p] [v]) [0%Q; 1%Q] = 1.
Proof. exact (flip_normalised p). Qed.

(** ** bernoulli(logits) *)
Lemma spec_bl1 l : spec BernoulliLogits [l] [1%Q] = Some (- RLn (rz 1 + RExp (- RQ l)))%rx.  Proof. reflexivity. Qed.
Lemma spec_bl0 l : spec BernoulliLogits [l] [0%Q] = Some (- RLn (rz 1 + RExp (RQ l)))%rx.  Proof. reflexivity. Qed.

Lemma sigmoid_sum x : exp (- ln (1 + exp x)) + exp (- ln (1 + exp (- x))) = 1.
Proof.
  assert (Hp : 0 < exp x) by apply exp_pos.
  assert (Hn : 0 < exp (- x)) by apply exp_pos.
  rewrite (exp_Ropp (ln (1 + exp x))), (exp_Ropp (ln (1 + exp (- x)))), !exp_ln by lra.
  rewrite (exp_Ropp x). field. split; lra.
Qed.

Theorem bernoulli_logits_normalised (l : Q) :
  mass (fun v => spec BernoulliLogits [l] [v]) [0%Q; 1%Q] = 1.
Proof.
  unfold mass. cbn [fold_right]. rewrite spec_bl1, spec_bl0.
  cbn [den]. rewrite !den_rz. fold (q2r l). rewrite Rplus_0_r. apply sigmoid_sum.
Qed.

(** ** categorical(logits) *)
Definition qn (i : nat) : Q := Z.of_nat i # 1.
Lemma qnat_qn i : qnat (qn i) = Some i.
Proof.
  unfold qnat, qn. cbn [Qden Qnum]. rewrite Z.eqb_refl.
  destruct (Z.leb_spec 0 (Z.of_nat i)); [|lia]. cbn. rewrite Nat2Z.id. reflexivity.
Qed.

Definition expsum (ls : list Q) : R := fold_right (fun l acc => exp (q2r l) + acc) 0 ls.
Lemma den_rsum_exp ls : den (rsum (map (fun l => RExp (RQ l)) ls)) = expsum ls.
Proof.
  induction ls as [|l ls IH]; cbn.
  - unfold Rdiv. rewrite Rinv_1. ring.
  - fold (q2r l). unfold rsum in IH. rewrite IH. reflexivity.
Qed.
Lemma expsum_pos ls : ls <> [] -> 0 < expsum ls.
Proof.
  destruct ls as [|l ls]; [congruence|]. intros _.
  change (0 < exp (q2r l) + expsum ls).
  assert (0 <= expsum ls).
  { induction ls as [|a ls IH]; [cbn; lra|].
    change (0 <= exp (q2r a) + expsum ls). pose proof (exp_pos (q2r a)). lra. }
  pose proof (exp_pos (q2r l)). lra.
Qed.

Definition seq_q (n : nat) : list Q := map qn (seq 0 n).

Lemma cat_mass_from ls all k :
  (forall i li, nth_error ls i = Some li -> nth_error all (k + i) = Some li) ->
  0 < expsum all ->
  fold_right (fun v acc => match spec CategoricalLogits all [v] with Some e => exp (den e) | None => 0 end + acc)
             0 (map qn (seq k (length ls)))
  = expsum ls / expsum all.
Proof.
  revert k. induction ls as [|l ls IH]; intros k Hn Hp.
  - cbn. unfold Rdiv. ring.
  - cbn [length seq map fold_right expsum].
    rewrite (IH (S k)).
    + unfold spec. rewrite qnat_qn.
      specialize (Hn 0%nat l eq_refl). rewrite Nat.add_0_r in Hn. rewrite Hn.
      cbn [den]. rewrite den_rsum_exp. fold (q2r l).
      unfold Rminus. rewrite exp_plus, exp_Ropp, exp_ln by exact Hp.
      change (fold_right (fun (l0 : Q) (acc : R) => exp (q2r l0) + acc) 0 ls) with (expsum ls). field. lra.
    + intros i li Hi. specialize (Hn (S i) li Hi). replace (S k + i)%nat with (k + S i)%nat by lia. exact Hn.
    + exact Hp.
Qed.

Theorem categorical_normalised (ls : list Q) :
  ls <> [] -> mass (fun v => spec CategoricalLogits ls [v]) (seq_q (length ls)) = 1.
Proof.
  intros Hne. unfold mass, seq_q.
  rewrite (cat_mass_from ls ls 0); [|intros i li Hi; exact Hi|apply expsum_pos; exact Hne].
  pose proof (expsum_pos ls Hne). field. lra.
Qed.

(** ** geometric(probs): failures before the first success, support {0,1,2,...} *)
Lemma den_rn k : den (rn k) = INR k.
Proof. unfold rn. rewrite den_rz. symmetry. apply INR_IZR_INZ. Qed.

Lemma spec_geom p k :
  spec GeometricProbs [p] [qn k] = Some (rn k * RLn (rz 1 - RQ p) + RLn (RQ p))%rx.
Proof. unfold spec, lp_geom_p. rewrite qnat_qn. reflexivity. Qed.

Lemma geom_pmf p k : 0 < q2r p < 1 ->
  match spec GeometricProbs [p] [qn k] with Some e => exp (den e) | None => 0 end = (1 - q2r p) ^ k * q2r p.
Proof.
  intros [H0 H1]. rewrite spec_geom. cbn [den]. rewrite den_rn, den_rz. fold (q2r p).
  rewrite exp_plus, exp_ln by lra.
  change (exp (INR k * ln (1 - q2r p))) with (Rpower (1 - q2r p) (INR k)).
  rewrite Rpower_pow by lra. reflexivity.
Qed.

Theorem geometric_partial_mass (p : Q) (n : nat) : 0 < q2r p < 1 ->
  mass (fun v => spec GeometricProbs [p] [v]) (seq_q n) = 1 - (1 - q2r p) ^ n.
Proof.
  intros Hp. unfold mass, seq_q.
  assert (G : forall k, fold_right (fun v acc => match spec GeometricProbs [p] [v] with Some e => exp (den e) | None => 0 end + acc)
                               0 (map qn (seq k n)) = (1 - q2r p) ^ k * (1 - (1 - q2r p) ^ n)).
  { induction n as [|n IH]; intros k.
    - cbn. ring.
    - cbn [seq map fold_right]. rewrite geom_pmf by exact Hp. rewrite IH. cbn [pow]. ring. }
  rewrite G. cbn. ring.
Qed.

(** ** binomial(total_count, probs) *)
Lemma zfact_fact n : zfact n = Z.of_nat (fact n).
Proof.
  induction n as [|n IH]; [reflexivity|].
  change (zfact (S n)) with (Z.of_nat (S n) * zfact n)%Z. rewrite IH, <- Nat2Z.inj_mul. reflexivity.
Qed.
Lemma den_lnfact n : den (lnfact n) = ln (INR (fact n)).
Proof. unfold lnfact. cbn [den]. rewrite den_rz, zfact_fact, <- INR_IZR_INZ. reflexivity. Qed.

Lemma fold_seq_app (F : nat -> R) l1 l2 :
  fold_right (fun k acc => F k + acc) 0 (l1 ++ l2) =
  fold_right (fun k acc => F k + acc) 0 l1 + fold_right (fun k acc => F k + acc) 0 l2.
Proof. induction l1 as [|a l1 IH]; cbn; [ring|rewrite IH; ring]. Qed.

Lemma fold_seq_sum (F : nat -> R) n :
  fold_right (fun k acc => F k + acc) 0 (seq 0 (S n)) = sum_f_R0 F n.
Proof.
  induction n as [|n IH].
  - cbn. ring.
  - rewrite seq_S, fold_seq_app, IH. cbn. ring.
Qed.

Lemma mass_seq (lp : Q -> option rx) n :
  mass lp (seq_q (S n)) = sum_f_R0 (fun k => match lp (qn k) with Some e => exp (den e) | None => 0 end) n.
Proof.
  unfold mass, seq_q. rewrite <- fold_seq_sum.
  generalize (seq 0 (S n)). intros l. induction l as [|a l IH]; cbn; [reflexivity|rewrite IH; reflexivity].
Qed.

Lemma spec_binom n p k : (k <= n)%nat ->
  spec BinomialProbs [qn n; p] [qn k] =
  Some (lnchoose n k + rn k * RLn (RQ p) + rn (n - k) * RLn (rz 1 - RQ p))%rx.
Proof.
  intros H. unfold spec, lp_binom. rewrite !qnat_qn.
  destruct (Nat.leb_spec k n); [reflexivity|lia].
Qed.

Lemma binom_pmf n p k : 0 < q2r p < 1 -> (k <= n)%nat ->
  match spec BinomialProbs [qn n; p] [qn k] with Some e => exp (den e) | None => 0 end
  = C n k * q2r p ^ k * (1 - q2r p) ^ (n - k).
Proof.
  intros [H0 H1] Hk. rewrite spec_binom by exact Hk.
  unfold lnchoose. cbn [den]. rewrite !den_lnfact, !den_rn, den_rz. fold (q2r p).
  rewrite !exp_plus. unfold Rminus at 1 2. rewrite !exp_plus, !exp_Ropp.
  assert (Hf : forall m, 0 < INR (fact m)) by (intros m; apply INR_fact_lt_0).
  rewrite !exp_ln by (apply Hf).
  change (exp (INR k * ln (q2r p))) with (Rpower (q2r p) (INR k)).
  change (exp (INR (n - k) * ln (1 - q2r p))) with (Rpower (1 - q2r p) (INR (n - k))).
  rewrite !Rpower_pow by lra.
  unfold C. field. split; apply not_eq_sym, Rlt_not_eq, Hf.
Qed.

Theorem binomial_normalised (n : nat) (p : Q) : 0 < q2r p < 1 ->
  mass (fun v => spec BinomialProbs [qn n; p] [v]) (seq_q (S n)) = 1.
Proof.
  intros Hp. rewrite mass_seq.
  rewrite (sum_eq _ (fun k => C n k * q2r p ^ k * (1 - q2r p) ^ (n - k))).
  - rewrite <- binomial. replace (q2r p + (1 - q2r p)) with 1 by ring. apply pow1.
  - intros k Hk. apply binom_pmf; assumption.
Qed.

(** ** shape of a draw *)
Lemma draw_shape_threaded lanes ss batches event s0 :
  draw_shape [] [] batches event = Some s0 ->
  draw_shape lanes ss batches event = Some (lanes ++ ss ++ s0)%list.
Proof.
  unfold draw_shape. destruct (bcast_all batches) as [b|]; [|discriminate].
  intros H. inversion H. reflexivity.
Qed.

Lemma bcast_rev_nil_r a : bcast_rev a [] = Some a.
Proof. destruct a; reflexivity. Qed.

Lemma draw_shape_scalar_params lanes ss event n :
  draw_shape lanes ss (repeat [] n) event = Some (lanes ++ ss ++ event)%list.
Proof.
  unfold draw_shape.
  assert (H : bcast_all (repeat [] n) = Some []).
  { induction n as [|n IH]; cbn; [reflexivity|]. cbn in IH. rewrite IH. reflexivity. }
  rewrite H. reflexivity.
Qed.
