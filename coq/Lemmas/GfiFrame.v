(** GfiFrame.v — the frame and discard clauses of update (C03) for Cond-free programs
    (any nesting of distributions, @gen functions, Vmap and Scan): every leaf of the
    updated trace's choice map is the constraint's value at that path, or - where the
    constraint does not reach - the old trace's value; the discard holds exactly the old
    values at the constrained leaves.  (For Cond the frame clause is refuted: K1.) *)
From GV Require Import Model.Gfi Model.Spec Lemmas.CmLemmas Lemmas.GfiCoh Lemmas.Law.

Definition leaf_at (x : cm) (p : path) (v : value) : Prop := cm_at x p = Some (CLeaf v).

(** [framed x old new]: every leaf of [new] comes from [x], or from [old] where [x] has nothing *)
Definition framed (x old new : cm) : Prop :=
  forall p v, leaf_at new p v -> leaf_at x p v \/ (cm_at x p = None /\ leaf_at old p v).

Lemma lookup_cmap a m t : lookup a m = Some t -> lookup a (cmap m) = Some (choices t).
Proof.
  induction m as [|[b y] m IH]; cbn; [discriminate|].
  destruct (addr_eqb a b); [intros H; inversion H; reflexivity|exact IH].
Qed.

Lemma lookup_cmap_inv a m c : lookup a (cmap m) = Some c -> exists t, lookup a m = Some t /\ c = choices t.
Proof.
  induction m as [|[b y] m IH]; cbn; [discriminate|].
  destruct (addr_eqb a b); [intros H; inversion H; eauto|exact IH].
Qed.

Lemma choices_fn args m r s : choices (TrFn args m r s) = CNode (cmap m).
Proof.
  reflexivity.
Qed.

Definition Fgf (g : gf) : Prop :=
  forall t x args t' w d, gf_update g t (Some x) args = Ok (t', w, d) -> framed x (choices t) (choices t').

Definition Fprog (p : prog) : Prop :=
  forall old LX st v st',
    run_update p old (CNode (cmap old)) (CNode LX) st = Ok (v, st') ->
    forall a t1, In (a, t1) (u_map st') ->
      In (a, t1) (u_map st) \/
      exists sub, lookup a old = Some sub /\
                  framed (match lookup a LX with Some xa => xa | None => choices sub end) (choices sub) (choices t1).

Theorem update_framed : forall g, NC g -> Fgf g.
Proof.
  apply (NC_mind (fun g _ => Fgf g) (fun p _ => Fprog p)).
  - (* distribution *)
    intros d t x args t' w dd H. cbn in H. unfold Distribution_update in H.
    destruct x as [v|l]; [|discriminate]. inversion H; subst. cbn [choices].
    intros p u Hp. left. exact Hp.
  - (* @gen function *)
    intros body Hb IH t x args t' w d H. cbn in H.
    destruct t as [| a0 old r0 s0 |]; try discriminate.
    destruct x as [|LX]; [discriminate|].
    destruct (run_update (body args) old _ (CNode LX) _) as [[r st]|] eqn:E; cbn in H; [|discriminate].
    inversion H; subst. rewrite !choices_fn.
    rewrite choices_fn in E.
    intros p v Hp. destruct p as [|a p']; [discriminate Hp|].
    unfold leaf_at in Hp. cbn [cm_at cm_get] in Hp.
    destruct (lookup a (cmap (u_map st))) as [c|] eqn:El; [|discriminate].
    destruct (lookup_cmap_inv _ _ _ El) as [t1 [Ht1 Hc]]. subst c.
    destruct (IH args old LX _ _ _ E a t1 (lookup_In _ _ _ Ht1)) as [Hin|[sub [Hsub Hfr]]]; [destruct Hin|].
    unfold leaf_at. cbn [cm_at cm_get].
    rewrite (lookup_cmap _ _ _ Hsub).
    destruct (lookup a LX) as [xa|] eqn:Ex.
    + destruct (Hfr p' v Hp) as [H1|[H1 H2]]; [left; exact H1|right; split; assumption].
    + right. split; [reflexivity|].
      destruct (Hfr p' v Hp) as [H1|[_ H2]]; assumption.
  - (* Ret *)
    intros v old LX st v' st' H a t1 Hin. cbn in H. inversion H; subst. left. exact Hin.
  - (* Fail *)
    intros e old LX st v st' H. discriminate.
  - (* Call *)
    intros a g args k Hg IHg Hk IHk old LX st v st' H b t1 Hin. cbn [run_update] in H.
    destruct (Update_call (gf_update g) old (CNode (cmap old)) (CNode LX) st a args) as [[r st1]|] eqn:E;
      cbn in H; [|discriminate].
    destruct (IHk r old LX st1 v st' H b t1 Hin) as [Hin1|Hex]; [|right; exact Hex].
    unfold Update_call in E. destruct (mem a (u_map st)); [discriminate|].
    destruct (lookup a old) as [sub|] eqn:Hsub; [|discriminate].
    cbn [cm_get] in E.
    destruct (lookup a LX) as [xa|] eqn:Ex.
    + destruct (gf_update g sub (Some xa) args) as [[[t2 w2] d2]|] eqn:E2; cbn in E; [|discriminate].
      inversion E; subst. cbn [u_map] in Hin1. destruct Hin1 as [Heq|Hin1]; [|left; exact Hin1].
      inversion Heq; subst. right. exists sub. split; [exact Hsub|]. rewrite Ex.
      exact (IHg _ _ _ _ _ _ E2).
    + rewrite (lookup_cmap _ _ _ Hsub) in E.
      destruct (gf_update g sub (Some (choices sub)) args) as [[[t2 w2] d2]|] eqn:E2; cbn in E; [|discriminate].
      inversion E; subst. cbn [u_map] in Hin1. destruct Hin1 as [Heq|Hin1]; [|left; exact Hin1].
      inversion Heq; subst. right. exists sub. split; [exact Hsub|]. rewrite Ex.
      exact (IHg _ _ _ _ _ _ E2).
Qed.

(** ** regenerate: leaves outside the selection keep their old values (Cond-free programs) *)
Definition Rgf (g : gf) : Prop :=
  forall t s args t' w d, reach (gf_regenerate g t s args) (t', w, d) ->
    forall p v, leaf_at (choices t') p v -> selected s p = true \/ leaf_at (choices t) p v.

Definition Rprog (p : prog) : Prop :=
  forall old s st v st', reach (run_regenerate p old s st) (v, st') ->
    forall a t1, In (a, t1) (u_map st') ->
      In (a, t1) (u_map st) \/
      exists sub, lookup a old = Some sub /\
                  forall p' v', leaf_at (choices t1) p' v' ->
                                selected (snd (sel_match s a)) p' = true \/ leaf_at (choices sub) p' v'.

Theorem regenerate_framed : forall g, NC g -> Rgf g.
Proof.
  apply (NC_mind (fun g _ => Rgf g) (fun p _ => Rprog p)).
  - (* distribution *)
    intros d t s args t' w dd H p v Hp. cbn in H. unfold Distribution_regenerate in H.
    destruct (sel_unit s) eqn:Es.
    + left. unfold leaf_at in Hp.
      apply reach_bind in H as [t1 [H1 H2]]. apply reach_ret in H2. inversion H2; subst.
      unfold Distribution_simulate in H1. inversion H1; subst.
      match goal with Hr : reach (SRet _) _ |- _ => apply reach_ret in Hr; subst end.
      cbn [choices] in Hp. destruct p as [|a p']; [exact Es|discriminate Hp].
    + destruct (choices t) as [u|l] eqn:Ec.
      * apply reach_ret in H. inversion H; subst. right. cbn [choices] in Hp. exact Hp.
      * inversion H.
  - (* @gen function *)
    intros body Hb IH t s args t' w d H p v Hp. cbn in H.
    destruct t as [| a0 old r0 s0 |]; try (inversion H; fail).
    apply reach_bind in H as [[r st] [H1 H2]]. apply reach_ret in H2. inversion H2; subst.
    rewrite choices_fn in Hp. rewrite choices_fn.
    destruct p as [|a p']; [discriminate Hp|].
    unfold leaf_at in Hp. cbn [cm_at cm_get] in Hp.
    destruct (lookup a (cmap (u_map st))) as [c|] eqn:El; [|discriminate].
    destruct (lookup_cmap_inv _ _ _ El) as [t1 [Ht1 Hc]]. subst c.
    destruct (IH args old s _ _ _ H1 a t1 (lookup_In _ _ _ Ht1)) as [Hin|[sub [Hsub Hfr]]]; [destruct Hin|].
    cbn [selected]. unfold leaf_at. cbn [cm_at cm_get]. rewrite (lookup_cmap _ _ _ Hsub).
    exact (Hfr p' v Hp).
  - (* Ret *)
    intros v old s st v' st' H a t1 Hin. cbn in H. apply reach_ret in H. inversion H; subst. left. exact Hin.
  - (* Fail *)
    intros e old s st v st' H. inversion H.
  - (* Call *)
    intros a g args k Hg IHg Hk IHk old s st v st' H b t1 Hin. cbn [run_regenerate] in H.
    apply reach_bind in H as [[r st1] [H1 H2]].
    destruct (IHk r old s st1 v st' H2 b t1 Hin) as [Hin1|Hex]; [|right; exact Hex].
    unfold Regenerate_call in H1. destruct (mem a (u_map st)); [inversion H1|].
    destruct (lookup a old) as [sub|] eqn:Hsub; [|inversion H1].
    apply reach_bind in H1 as [[[t2 w2] d2] [E2 E3]]. apply reach_ret in E3. inversion E3; subst.
    cbn [u_map] in Hin1. destruct Hin1 as [Heq|Hin1]; [|left; exact Hin1].
    inversion Heq; subst. right. exists sub. split; [exact Hsub|].
    exact (IHg _ _ _ _ _ _ E2).
Qed.
