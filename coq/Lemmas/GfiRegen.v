(** GfiRegen.v — regenerate (C04): the new trace is structurally coherent under
    the new arguments for every selection and every outcome of the resampled
    draws; regenerate never fails on a well-shaped trace. *)
From GV Require Import Model.Gfi Model.Spec Lemmas.CmLemmas Lemmas.GfiCoh Lemmas.GfiUpd Lemmas.GfiGen.

Theorem regenerate_SC : forall g t s args t' w d,
    reach (gf_regenerate g t s args) (t', w, d) -> SC g args t'.
Proof.
  intros g.
  apply (gf_mind
     (fun g => forall t s args t' w d, reach (gf_regenerate g t s args) (t', w, d) -> SC g args t')
     (fun p => forall old s st v st',
        reach (run_regenerate p old s st) (v, st') ->
        SCP p (u_map st) (u_score st) (u_map st') (u_score st') v)).
  - intros d t s args t' w dd H. cbn in H. unfold Distribution_regenerate in H.
    destruct (sel_unit s).
    + apply reach_bind in H as [t1 [H1 H2]]. apply reach_ret in H2. inversion H2; subst.
      unfold Distribution_simulate in H1. inversion H1; subst.
      match goal with Hr : reach (SRet _) _ |- _ => apply reach_ret in Hr; subst end. constructor.
    + destruct (choices t); [|inversion H]. apply reach_ret in H. inversion H; subst. constructor.
  - intros body IH t s args t' w d H. cbn in H.
    destruct t as [| a0 old r0 s0 |]; try (inversion H; fail).
    apply reach_bind in H as [[r st] [H1 H2]]. apply reach_ret in H2. inversion H2; subst.
    constructor. exact (IH _ _ _ _ _ _ H1).
  - intros g1 IH1 g2 IH2 t s args t' w d H. cbn in H.
    apply reach_bind in H as [[c rest] [Hc H]]. apply reach_lift in Hc.
    destruct t as [| | c0 t1 t2]; try (inversion H; fail).
    apply reach_bind in H as [[[t1' w1] d1] [H1 H]].
    apply reach_bind in H as [[[t2' w2] d2] [H2 H]]. apply reach_ret in H. inversion H; subst.
    econstructor; eauto.
  - intros v old s st v' st' H. cbn in H. apply reach_ret in H. inversion H; subst. constructor.
  - intros a g0 IHg args k IHk old s st v st' H. cbn [run_regenerate] in H.
    apply reach_bind in H as [[r st1] [H1 H2]].
    unfold Regenerate_call in H1. destruct (mem a (u_map st)) eqn:Hm; [inversion H1|].
    destruct (lookup a old) as [sub|]; [|inversion H1].
    apply reach_bind in H1 as [[[t1 w1] d1] [Ht1 H1]]. apply reach_ret in H1. inversion H1; subst.
    econstructor; eauto. exact (IHk _ _ _ _ _ _ H2).
  - intros e old s st v st' H. inversion H.
Qed.

(** Score of the sites of a trace that the selection does NOT select (visible
    branch of each Cond). *)
Fixpoint unsel_score (s : sel) (t : tr) {struct t} : Z :=
  match t with
  | TrD _ _ sc => if sel_unit s then 0 else sc
  | TrFn _ m _ _ =>
      (fix go (m : list (addr * tr)) : Z :=
         match m with
         | [] => 0
         | (a, ta) :: m' => unsel_score (snd (sel_match s a)) ta + go m'
         end) m
  | TrCond c t1 t2 => if c then unsel_score s t1 else unsel_score s t2
  end.

Fixpoint unsel_scores (s : sel) (m : list (addr * tr)) : Z :=
  match m with
  | [] => 0
  | (a, ta) :: m' => unsel_score (snd (sel_match s a)) ta + unsel_scores s m'
  end.
Lemma unsel_score_fn s a m r sc : unsel_score s (TrFn a m r sc) = unsel_scores s m.
Proof. cbn. induction m as [|[b y] m IH]; cbn; congruence. Qed.

(** Same skeleton and the same Cond conditions (no branch switch). *)
Fixpoint same_shape_chk (t t' : tr) {struct t} : bool :=
  match t, t' with
  | TrD _ _ _, TrD _ _ _ => true
  | TrFn _ m _ _, TrFn _ m' _ _ =>
      (fix go (m m' : list (addr * tr)) : bool :=
         match m, m' with
         | [], [] => true
         | (a, x) :: m1, (b, y) :: m1' => addr_eqb a b && same_shape_chk x y && go m1 m1'
         | _, _ => false
         end) m m'
  | TrCond c t1 t2, TrCond c' t1' t2' =>
      Bool.eqb c c' && same_shape_chk t1 t1' && same_shape_chk t2 t2'
  | _, _ => false
  end.
Fixpoint same_shape_chk_maps (m m' : list (addr * tr)) : bool :=
  match m, m' with
  | [], [] => true
  | (a, x) :: m1, (b, y) :: m1' => addr_eqb a b && same_shape_chk x y && same_shape_chk_maps m1 m1'
  | _, _ => false
  end.
Lemma same_shape_chk_fn a m r s a' m' r' s' :
  same_shape_chk (TrFn a m r s) (TrFn a' m' r' s') = same_shape_chk_maps m m'.
Proof. cbn. revert m'. induction m as [|[x y] m IH]; destruct m' as [|[x' y'] m']; cbn; auto; try (rewrite IH; auto). Qed.

(** weight = (unselected score before) - (unselected score after): the change
    in joint log density minus the change in the log prior of the selected
    sites, whenever no Cond switches branch. *)
Theorem regenerate_weight : forall g t s args t' w d,
    reach (gf_regenerate g t s args) (t', w, d) -> WS t -> same_shape_chk t t' = true ->
    w = unsel_score s t - unsel_score s t'.
Proof.
  intros g.
  apply (gf_mind
     (fun g => forall t s args t' w d,
        reach (gf_regenerate g t s args) (t', w, d) -> WS t -> same_shape_chk t t' = true ->
        w = unsel_score s t - unsel_score s t')
     (fun p => forall old s st v st',
        reach (run_regenerate p old s st) (v, st') ->
        (forall a t, In (a, t) old -> WS t) ->
        exists added, u_map st' = added ++ u_map st /\
          (forall seg, same_shape_chk_maps seg added = true ->
              (forall a t, In (a, t) seg -> lookup a old = Some t) ->
              u_weight st' - u_weight st = unsel_scores s seg - unsel_scores s added))).
  - intros d t s args t' w dd H _ Hs. cbn in H. unfold Distribution_regenerate in H.
    destruct (sel_unit s) eqn:Su.
    + cbn in H. inversion H; subst.
      match goal with Hr : reach (SRet _) _ |- _ => apply reach_ret in Hr; inversion Hr; subst end.
      destruct t; cbn in Hs; try discriminate. cbn. rewrite Su. lia.
    + destruct (choices t) eqn:Ec; [|inversion H]. apply reach_ret in H. inversion H; subst.
      destruct t; cbn in Hs; try discriminate. cbn in *. inversion Ec; subst. rewrite Su. lia.
  - intros body IH t s args t' w d H HW Hs. cbn in H.
    destruct t as [| a0 old r0 s0 |]; try (inversion H; fail).
    apply reach_bind in H as [[r st] [H1 H2]]. apply reach_ret in H2. inversion H2; subst.
    rewrite same_shape_chk_fn in Hs. inversion HW; subst.
    destruct (IH _ _ _ _ _ _ H1) as [added [Hadd Hseg]]; [eauto|].
    cbn in Hadd. rewrite app_nil_r in Hadd. subst added.
    rewrite !unsel_score_fn. cbn in Hseg. rewrite <- (Hseg old Hs); [lia|].
    intros a t Hin. apply lookup_In_nodup; auto.
  - intros g1 IH1 g2 IH2 t s args t' w d H HW Hs. cbn in H.
    apply reach_bind in H as [[c rest] [Hc H]]. apply reach_lift in Hc.
    destruct t as [| | c0 t1 t2]; try (inversion H; fail).
    apply reach_bind in H as [[[t1' w1] d1] [H1 H]].
    apply reach_bind in H as [[[t2' w2] d2] [H2 H]]. apply reach_ret in H. inversion H; subst.
    cbn in Hs. apply andb_prop in Hs as [Hs Hs2]. apply andb_prop in Hs as [Hcc Hs1].
    apply eqb_prop in Hcc. subst c0. inversion HW; subst.
    cbn [unsel_score get_score]. destruct c.
    + rewrite (IH1 _ _ _ _ _ _ H1) by assumption. lia.
    + rewrite (IH2 _ _ _ _ _ _ H2) by assumption. lia.
  - intros v old s st v' st' H _. cbn in H. apply reach_ret in H. inversion H; subst.
    exists []. split; [reflexivity|].
    intros seg Hseg _. destruct seg as [|[b y] seg]; [|cbn in Hseg; discriminate]. cbn. lia.
  - intros a g0 IHg args k IHk old s st v st' H HWold. cbn [run_regenerate] in H.
    apply reach_bind in H as [[r st1] [H1 H2]].
    unfold Regenerate_call in H1. destruct (mem a (u_map st)) eqn:Hm; [inversion H1|].
    destruct (lookup a old) as [sub|] eqn:Hsub; [|inversion H1].
    apply reach_bind in H1 as [[[t1 w1] d1] [Ht1 H1]]. apply reach_ret in H1. inversion H1; subst.
    destruct (IHk _ _ _ _ _ _ H2 HWold) as [added [Hadd Hseg]]. cbn in Hadd.
    exists (added ++ [(a, t1)]). split; [rewrite <- app_assoc; exact Hadd|].
    intros seg Hss Hlook.
    assert (exists seg1 ts, seg = seg1 ++ [(a, ts)] /\ same_shape_chk_maps seg1 added = true
                            /\ same_shape_chk ts t1 = true) as [seg1 [ts [Eseg [Hs1 Hst]]]].
    { clear - Hss. revert seg Hss. induction added as [|[b y] added IH]; intros seg Hss.
      - destruct seg as [|[b' y'] seg]; [discriminate|]. cbn in Hss.
        destruct seg; [|destruct p; rewrite !andb_false_r in Hss; discriminate].
        apply andb_prop in Hss as [Hss _]. apply andb_prop in Hss as [Hab Hsh].
        apply addr_eqb_eq in Hab; subst. exists [], y'. auto.
      - destruct seg as [|[b' y'] seg]; [discriminate|]. cbn in Hss.
        apply andb_prop in Hss as [Hss Hrest]. destruct (IH _ Hrest) as [seg1 [ts [E [H1 H2]]]].
        exists ((b', y') :: seg1), ts. subst seg. cbn. rewrite Hss, H1. auto. }
    subst seg.
    assert (Hts : lookup a old = Some ts) by (apply Hlook; apply in_or_app; right; left; reflexivity).
    rewrite Hsub in Hts. inversion Hts; subst ts.
    specialize (Hseg seg1 Hs1).
    assert (HWsub : WS sub) by (eapply HWold; eapply lookup_In; eauto).
    pose proof (IHg _ _ _ _ _ _ Ht1 HWsub Hst) as Hw1.
    cbn in Hseg.
    assert (Esum : forall m1 b y, unsel_scores s (m1 ++ [(b, y)])
                                  = unsel_scores s m1 + unsel_score (snd (sel_match s b)) y).
    { clear. induction m1 as [|[c z] m1 IH]; intros; cbn; [lia|]. rewrite IH. lia. }
    rewrite !Esum.
    assert (Hq : u_weight st' - (u_weight st + w1) = unsel_scores s seg1 - unsel_scores s added).
    { apply Hseg. intros b tb Hin. apply Hlook. apply in_or_app; left; exact Hin. }
    lia.
  - intros e old s st v st' H. inversion H.
Qed.


(** ** the structural unselected score is the specification's *)

Definition unselp (s : sel) (p : path) : bool := negb (selected s p).

Lemma total_split P l : total l = total_on P l + total_on (fun p => negb (P p)) l.
Proof.
  unfold total_on, total. induction l as [|[p z] l IH]; cbn; [reflexivity|].
  destruct (P p); cbn; lia.
Qed.

Theorem SC_unsel : forall g args t, SC g args t ->
  forall Y, covers Y (choices t) ->
  exists l, gf_sites g Y args = Ok (l, get_retval t) /\
            forall s, total_on (unselp s) l = - unsel_score s t.
Proof.
  apply (SC_mind
     (fun g args t _ => forall Y, covers Y (choices t) ->
        exists l, gf_sites g Y args = Ok (l, get_retval t) /\
                  forall s, total_on (unselp s) l = - unsel_score s t)
     (fun p m0 s0 m sc r _ =>
        forall X, (forall a t, lookup a m = Some t ->
                               exists Y, cm_get a X = Some Y /\ covers Y (choices t)) ->
        exists l, run_sites p X = Ok (l, r) /\
                  forall s, total_on (unselp s) l = - (unsel_scores s m - unsel_scores s m0))).
  - intros d args x Y HY. cbn in HY. inversion HY; subst.
    eexists; split; [reflexivity|]. intros s. unfold total_on, total, unselp. cbn.
    destruct (sel_unit s); cbn; lia.
  - intros body args m r s _ IH Y HY. rewrite choices_fn in HY. inversion HY as [|L l0 HL]; subst.
    destruct (IH (CNode L)) as [l [Hl Hu]].
    + intros a t Ht. cbn. apply HL. rewrite lookup_cmap, Ht. reflexivity.
    + exists l; split; [exact Hl|]. intros s0. rewrite Hu, unsel_score_fn. cbn. lia.
  - intros g1 g2 args c rest t1 t2 Hc _ IH1 _ IH2 Y HY. cbn [choices] in HY.
    cbn [gf_sites get_retval]. rewrite Hc. cbn.
    destruct c.
    + destruct (IH1 Y (covers_trans _ _ _ (merge_covers_left _ _) HY)) as [l [Hl Hu]].
      exists l; split; auto.
    + destruct (IH2 Y (covers_trans _ _ _ (merge_covers_right _ _) HY)) as [l [Hl Hu]].
      exists l; split; auto.
  - intros v m s X HX. exists []. split; [reflexivity|]. intros s0. unfold total_on, total. cbn. lia.
  - intros a g args k m0 s0 t m s r Hm Hsc IHt Hk IH X HX.
    cbn [run_sites].
    assert (Hl : lookup a m = Some t).
    { eapply SCP_extends; [exact Hk|]. cbn. rewrite addr_eqb_refl. reflexivity. }
    destruct (HX _ _ Hl) as [Y [HY Hcov]]. rewrite HY.
    destruct (IHt _ Hcov) as [l1 [H1 U1]]. rewrite H1. cbn.
    destruct (IH X HX) as [l2 [H2 U2]]. rewrite H2. cbn.
    eexists; split; [reflexivity|]. intros s1.
    rewrite total_on_app, total_on_prefix. rewrite U2.
    assert (E : total_on (fun p => unselp s1 (a :: p)) l1 = - unsel_score (snd (sel_match s1 a)) t).
    { rewrite <- U1. apply total_on_ext. intros p. reflexivity. }
    rewrite E. cbn. lia.
Qed.

Lemma selected_all p : selected SAll p = true.
Proof. induction p as [|a p IH]; cbn; auto. destruct a; cbn; auto. Qed.

Lemma selected_none p : selected SNone p = false.
Proof. induction p as [|a p IH]; cbn; auto. destruct a; cbn; auto. Qed.
