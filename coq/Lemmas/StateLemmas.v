(** StateLemmas.v — the State interpreter collects exactly the specification (C19). *)
From Coq Require Import List Arith Bool Lia.
Import ListNotations.
From GV Require Import Model.StateM.

Section SprogInd.
  Variable P : sprog -> Prop.
  Hypothesis Hsave : forall n s, P (PSave n s).
  Hypothesis Hleaf : forall s, P (PSaveLeaf s).
  Hypothesis Hdet : P PDet.
  Hypothesis Hns : forall ns body, Forall P body -> P (PNs ns body).
  Hypothesis Hscan : forall len rv body, Forall P body -> P (PScan len rv body).
  Hypothesis Hvmap : forall n body, Forall P body -> P (PVmap n body).
  Fixpoint sprog_ind' (p : sprog) : P p :=
    let fix all (l : list sprog) : Forall P l :=
      match l with [] => Forall_nil _ | q :: l' => Forall_cons q (sprog_ind' q) (all l') end in
    match p with
    | PSave n s => Hsave n s
    | PSaveLeaf s => Hleaf s
    | PDet => Hdet
    | PNs ns body => Hns ns body (all body)
    | PScan len rv body => Hscan len rv body (all body)
    | PVmap n body => Hvmap n body (all body)
    end.
End SprogInd.

Lemma interp_app a b idx st : interp (a ++ b) idx st = interp b idx (interp a idx st).
Proof. revert st; induction a as [|e a IH]; intros st; cbn; auto. Qed.

(** the local fixpoints are the global ones *)
Lemma flatten_go body bs :
  (fix go (l : list sprog) := match l with [] => [] | q :: l' => flatten1 q bs ++ go l' end) body = flatten body bs.
Proof. induction body as [|q l IH]; cbn; congruence. Qed.

Lemma spec_go body idx path bs acc :
  (fix go (l : list sprog) (acc : tree) : tree :=
     match l with [] => acc | q :: l' => go l' (spec1 q idx path bs acc) end) body acc
  = spec body idx path bs acc.
Proof. revert acc; induction body as [|q l IH]; intros acc; cbn; auto. Qed.

Lemma interp_go es idx st :
  (fix go (es : list eqn) (st : ist) : ist :=
     match es with [] => st | e' :: es' => go es' (interp1 e' idx st) end) es st
  = interp es idx st.
Proof. revert st; induction es as [|e es IH]; intros st; cbn; auto. Qed.

Definition Correct1 (p : sprog) : Prop :=
  forall idx path bs acc,
    interp (flatten1 p bs) idx {| coll := acc; nstack := path |}
    = {| coll := spec1 p idx path bs acc; nstack := path |}.

Lemma correct_list body :
  Forall Correct1 body ->
  forall idx path bs acc,
    interp (flatten body bs) idx {| coll := acc; nstack := path |}
    = {| coll := spec body idx path bs acc; nstack := path |}.
Proof.
  induction 1 as [|q l Hq _ IH]; intros idx path bs acc; cbn; [reflexivity|].
  rewrite interp_app, Hq. apply IH.
Qed.

Theorem interp_correct1 : forall p, Correct1 p.
Proof.
  induction p as [n s|s| |ns body IH|len rv body IH|n body IH] using sprog_ind';
    intros idx path bs acc.
  - reflexivity.
  - reflexivity.
  - reflexivity.
  - cbn [flatten1]. rewrite flatten_go. cbn [interp interp1 coll nstack].
    rewrite interp_app. rewrite (correct_list body IH). cbn [interp interp1 coll nstack].
    rewrite removelast_last. cbn [spec1]. rewrite spec_go. reflexivity.
  - cbn [flatten1]. rewrite flatten_go. cbn [interp interp1 coll nstack spec1].
    f_equal.
    assert (E : forall i,
      coll ((fix go (es : list eqn) (st : ist) : ist :=
               match es with [] => st | e' :: es' => go es' (interp1 e' (idx ++ [i]) st) end)
              (flatten body bs) {| coll := TNode []; nstack := [] |})
      = (fix go (l : list sprog) (acc : tree) : tree :=
           match l with [] => acc | q :: l' => go l' (spec1 q (idx ++ [i]) [] bs acc) end) body (TNode [])).
    { intros i. rewrite interp_go, spec_go. rewrite (correct_list body IH). reflexivity. }
    rewrite (E 0). f_equal. f_equal. apply map_ext. intros i. apply E.
  - cbn [flatten1]. rewrite flatten_go. rewrite (correct_list body IH). cbn [spec1]. rewrite spec_go. reflexivity.
Qed.

(** For every program (nested functions, namespaces, scans, nested scans,
    namespaces around scans, vmaps): the interpreter's collected dictionary is
    the specification's, and the namespace stack is restored. *)
Theorem interp_correct : forall ps idx path bs acc,
    interp (flatten ps bs) idx {| coll := acc; nstack := path |}
    = {| coll := spec ps idx path bs acc; nstack := path |}.
Proof.
  intros ps. apply correct_list. apply Forall_forall. intros p _. apply interp_correct1.
Qed.

(** ** reading the collected dictionary *)
Fixpoint tget (p : list nat) (t : tree) : option tree :=
  match p with
  | [] => Some t
  | k :: p' => match aget k (entries t) with Some s => tget p' s | None => None end
  end.

Lemma aget_aset_same k v l : aget k (aset k v l) = Some v.
Proof.
  induction l as [|[k' v'] l IH]; cbn; [rewrite Nat.eqb_refl; reflexivity|].
  destruct (Nat.eqb k k') eqn:E; cbn; rewrite ?Nat.eqb_refl, ?E; auto.
Qed.

Lemma aget_aset_other k k' v l : k <> k' -> aget k' (aset k v l) = aget k' l.
Proof.
  intros Hk. induction l as [|[k2 v2] l IH]; cbn.
  - destruct (Nat.eqb_spec k' k); [congruence|reflexivity].
  - destruct (Nat.eqb_spec k k2); cbn.
    + subst. destruct (Nat.eqb_spec k' k2); [congruence|reflexivity].
    + destruct (Nat.eqb k' k2); auto.
Qed.

(** a value saved as [name] under the namespaces [path] is found at path/name *)
Lemma tget_tset : forall path name v t, tget (path ++ [name]) (tset path name v t) = Some v.
Proof.
  induction path as [|ns path IH]; intros name v t; cbn.
  - rewrite aget_aset_same. reflexivity.
  - rewrite aget_aset_same. apply IH.
Qed.

(** a later write to the same name replaces the earlier one *)
Lemma tset_last_wins path name v1 v2 t :
  tget (path ++ [name]) (tset path name v2 (tset path name v1 t)) = Some v2.
Proof. apply tget_tset. Qed.

(** writes to a different name in the same namespace do not disturb it *)
Lemma tset_other_name : forall path name name' v t, name <> name' ->
  tget (path ++ [name']) (tset path name v t) = tget (path ++ [name']) t.
Proof.
  induction path as [|ns path IH]; intros name name' v t Hn; cbn.
  - rewrite aget_aset_other by exact Hn. reflexivity.
  - rewrite aget_aset_same. rewrite IH by exact Hn.
    destruct (aget ns (entries t)) as [s|] eqn:E; [reflexivity|].
    clear. revert name'. induction path as [|k path IHp]; intros; cbn; reflexivity.
Qed.

(** ** scan direction: which execution step each stack position holds *)
Lemma scan_order_length len rv : length (scan_order len rv) = len.
Proof. unfold scan_order. destruct rv; rewrite ?rev_length, seq_length; reflexivity. Qed.

Lemma scan_order_nth len rv i :
  i < len -> nth i (scan_order len rv) 0 = if rv then len - 1 - i else i.
Proof.
  intros Hi. unfold scan_order. destruct rv.
  - rewrite rev_nth by (rewrite seq_length; exact Hi). rewrite seq_length.
    rewrite seq_nth by lia. lia.
  - rewrite seq_nth by exact Hi. reflexivity.
Qed.

Lemma tget_tmerge_at_leaf : forall path name a t,
  tget (path ++ [name]) (tmerge_at path (TNode [(name, TLeaf a)]) t) = Some (TLeaf a).
Proof.
  induction path as [|ns path IH]; intros name a t.
  - cbn. rewrite aget_aset_same. reflexivity.
  - cbn [tmerge_at app tget entries]. rewrite aget_aset_same. apply IH.
Qed.

(** a scan of a single named save: the collected value is the stack, over the positions, of the
    value saved at execution step i (forward) resp. len-1-i (reverse) *)
Lemma scan_save_positions len rv name site idx path bs acc :
  0 < len ->
  let v := fun k => inst (wrap bs (VSite site)) (idx ++ [k]) in
  tget (path ++ [name]) (spec1 (PScan len rv [PSave name site]) idx path bs acc)
  = Some (TLeaf (AStack (map v (scan_order len rv))))
  /\ forall i, i < len ->
       nth i (map v (scan_order len rv)) (AStack []) = v (if rv then len - 1 - i else i).
Proof.
  intros Hlen v. split.
  - cbn [spec1 tset entries aset].
    replace (tstack _ _) with (TNode [(name, TLeaf (AStack (map v (scan_order len rv))))]).
    + apply tget_tmerge_at_leaf.
    + cbn [tstack]. f_equal. f_equal. f_equal. f_equal. f_equal.
      rewrite !map_map. apply map_ext. intros k. unfold child. cbn [entries aget].
      rewrite Nat.eqb_refl. reflexivity.
  - intros i Hi.
    rewrite (nth_indep _ _ (v 0)) by (rewrite map_length, scan_order_length; exact Hi).
    rewrite (map_nth v). rewrite scan_order_nth by exact Hi. reflexivity.
Qed.
