(** DistCalculus.v — limits, series and calculus facts for the specified densities (C13),
    using Coquelicot. *)
From Coq Require Import Reals QArith List ZArith Lra Lia.
From Coquelicot Require Import Coquelicot.
From GV Require Import Model.Dists Lemmas.DistLemmas.
Import ListNotations.
Open Scope R_scope.

(** ** geometric: the masses of {0,...,n-1} tend to 1 *)
Theorem geometric_total_mass (p : Q) : 0 < q2r p < 1 ->
  is_lim_seq (fun n => mass (fun v => spec GeometricProbs [p] [v]) (seq_q n)) 1.
Proof.
  intros Hp.
  apply is_lim_seq_ext with (fun n => 1 - (1 - q2r p) ^ n).
  - intros n. symmetry. apply geometric_partial_mass. exact Hp.
  - replace (Finite 1) with (Rbar_minus (Finite 1) (Finite 0)) by (cbn; f_equal; ring).
    apply is_lim_seq_minus'; [apply is_lim_seq_const|].
    apply is_lim_seq_geom. rewrite Rabs_pos_eq; lra.
Qed.

(** ** poisson: the masses form a series with sum 1 *)
Lemma spec_poisson lam k :
  spec PoissonRate [lam] [qn k] = Some (rn k * RLn (RQ lam) - RQ lam - lnfact k)%rx.
Proof. unfold spec. rewrite qnat_qn. reflexivity. Qed.

Lemma poisson_pmf lam k : 0 < q2r lam ->
  match spec PoissonRate [lam] [qn k] with Some e => exp (den e) | None => 0 end
  = exp (- q2r lam) * (q2r lam ^ k * / INR (fact k)).
Proof.
  intros H. rewrite spec_poisson. cbn [den]. rewrite den_rn, den_lnfact. fold (q2r lam).
  unfold Rminus. rewrite !exp_plus, !exp_Ropp.
  rewrite (exp_ln (INR (fact k))) by apply INR_fact_lt_0.
  change (exp (INR k * ln (q2r lam))) with (Rpower (q2r lam) (INR k)).
  rewrite Rpower_pow by exact H. ring.
Qed.

Theorem poisson_total_mass (lam : Q) : 0 < q2r lam ->
  is_series (fun k => match spec PoissonRate [lam] [qn k] with Some e => exp (den e) | None => 0 end) 1.
Proof.
  intros H.
  assert (E : is_series (fun k => q2r lam ^ k * / INR (fact k)) (exp (q2r lam))).
  { generalize (is_exp_Reals (q2r lam)). unfold is_pseries. apply is_series_ext.
    intros k. rewrite pow_n_pow. reflexivity. }
  apply (is_series_scal_r (exp (- q2r lam))) in E.
  replace 1 with (exp (q2r lam) * exp (- q2r lam)).
  - revert E. apply is_series_ext. intros k. rewrite poisson_pmf by exact H. apply Rmult_comm.
  - rewrite <- exp_plus. replace (q2r lam + - q2r lam) with 0 by ring. apply exp_0.
Qed.

(** ** continuous families with an elementary CDF.
    For each: the real closed form [lpR_*] that the reflected specification denotes
    (bridge lemma, for every rational input), a CDF whose derivative is the
    density exp lpR everywhere in the support, and the CDF's limits: the density
    integrates to F(b) - F(a) on every interval and F rises from 0 to 1. *)

(** exponential(rate) *)
Definition lpR_exponential (lam x : R) : R := ln lam - lam * x.
Definition cdf_exponential (lam x : R) : R := 1 - exp (- (lam * x)).

Lemma spec_exponential_R lam x : qle 0 x = true ->
  exists e, spec ExponentialRate [lam] [x] = Some e /\ den e = lpR_exponential (q2r lam) (q2r x).
Proof. intros H. unfold spec. rewrite H. eexists. split; [reflexivity|]. reflexivity. Qed.

Lemma exponential_pdf_cdf lam x : 0 < lam ->
  is_derive (cdf_exponential lam) x (exp (lpR_exponential lam x)).
Proof.
  intros H. unfold cdf_exponential, lpR_exponential. auto_derive; [exact I|].
  unfold Rminus. rewrite exp_plus, exp_ln by exact H. ring.
Qed.

Lemma exponential_cdf_limits lam : 0 < lam ->
  cdf_exponential lam 0 = 0 /\ is_lim (cdf_exponential lam) p_infty 1.
Proof.
  intros H. split.
  - unfold cdf_exponential. rewrite Rmult_0_r, Ropp_0, exp_0. ring.
  - unfold cdf_exponential.
    replace (Finite 1) with (Rbar_minus (Finite 1) (Finite 0)) by (cbn; f_equal; ring).
    apply is_lim_minus'; [apply is_lim_const|].
    apply is_lim_comp with m_infty; [apply is_lim_exp_m| |].
    + replace m_infty with (Rbar_opp p_infty) by reflexivity. apply is_lim_opp.
      pose proof (is_lim_scal_l (fun y => y) lam p_infty p_infty (is_lim_id p_infty)) as L.
      assert (E : Rbar_mult lam p_infty = p_infty).
      { cbn. destruct (Rle_dec 0 lam) as [Hl|Hl]; [|lra].
        destruct (Rle_lt_or_eq_dec 0 lam Hl); [reflexivity|lra]. }
      rewrite E in L. exact L.
    + exists 0. intros y _. discriminate.
Qed.

Theorem exponential_normalised lam b : 0 < lam -> 0 <= b ->
  is_RInt (fun x => exp (lpR_exponential lam x)) 0 b (cdf_exponential lam b - cdf_exponential lam 0).
Proof.
  intros H Hb. apply (is_RInt_derive (cdf_exponential lam)).
  - intros x _. apply exponential_pdf_cdf. exact H.
  - intros x _. apply (ex_derive_continuous (fun x => exp (lpR_exponential lam x))).
    unfold lpR_exponential. auto_derive. exact I.
Qed.

(** a density with a differentiable antiderivative integrates to the increment of it *)
Lemma pdf_cdf_RInt (F f : R -> R) a b :
  (forall x, Rmin a b <= x <= Rmax a b -> is_derive F x (f x)) ->
  (forall x, Rmin a b <= x <= Rmax a b -> ex_derive f x) ->
  is_RInt f a b (F b - F a).
Proof.
  intros HF Hf. apply (is_RInt_derive F).
  - exact HF.
  - intros x Hx. apply (ex_derive_continuous f). apply Hf. exact Hx.
Qed.

(** uniform(low, high): constant density 1/(b-a) on [a,b], total mass exactly 1 *)
Definition lpR_uniform (a b : R) : R := - ln (b - a).
Lemma spec_uniform_R a b x : qle a x && qle x b = true ->
  exists e, spec UniformD [a; b] [x] = Some e /\ den e = lpR_uniform (q2r a) (q2r b).
Proof. intros H. unfold spec. rewrite H. eexists. split; reflexivity. Qed.

Theorem uniform_normalised a b : a < b -> is_RInt (fun _ => exp (lpR_uniform a b)) a b 1.
Proof.
  intros H. unfold lpR_uniform. rewrite exp_Ropp, exp_ln by lra.
  replace 1 with (scal (b - a) (/ (b - a))).
  - apply (is_RInt_const a b (/ (b - a))).
  - unfold scal; cbn; unfold mult; cbn. field. lra.
Qed.

(** the remaining families: real closed form, CDF, and CDF' = density *)
Definition lpR_laplace (mu b x : R) : R := - (Rabs (x - mu) / b) - ln (2 * b).
Definition cdf_laplace_lo (mu b x : R) : R := exp ((x - mu) / b) / 2.
Definition cdf_laplace_hi (mu b x : R) : R := 1 - exp (- ((x - mu) / b)) / 2.
Lemma laplace_pdf_cdf_lo mu b x : 0 < b -> x < mu ->
  is_derive (cdf_laplace_lo mu b) x (exp (lpR_laplace mu b x)).
Proof.
  intros Hb Hx. unfold cdf_laplace_lo, lpR_laplace. auto_derive; [exact I|].
  rewrite Rabs_left by lra.
  replace (- (- (x - mu) / b) - ln (2 * b)) with ((x + - mu) * / b + - ln (2 * b)) by (field; lra).
  rewrite exp_plus, exp_Ropp, exp_ln by lra. field. lra.
Qed.
Lemma laplace_pdf_cdf_hi mu b x : 0 < b -> mu < x ->
  is_derive (cdf_laplace_hi mu b) x (exp (lpR_laplace mu b x)).
Proof.
  intros Hb Hx. unfold cdf_laplace_hi, lpR_laplace. auto_derive; [exact I|].
  rewrite Rabs_right by lra.
  replace (- ((x - mu) / b) - ln (2 * b)) with (- ((x + - mu) * / b) + - ln (2 * b)) by (field; lra).
  rewrite exp_plus, (exp_Ropp (ln (2 * b))), exp_ln by lra. field. lra.
Qed.
Lemma exp_sub a b : exp (a - b) = exp a / exp b.
Proof. unfold Rminus, Rdiv. rewrite exp_plus, exp_Ropp. reflexivity. Qed.
Lemma exp_2ln x : 0 < x -> exp (2 * ln x) = x * x.
Proof. intros H. replace (2 * ln x) with (ln x + ln x) by ring. rewrite exp_plus, exp_ln by exact H. reflexivity. Qed.

Definition lpR_logistic (mu s x : R) : R :=
  - ((x - mu) / s) - ln s - 2 * ln (1 + exp (- ((x - mu) / s))).
Definition cdf_logistic (mu s x : R) : R := / (1 + exp (- ((x - mu) / s))).
Lemma logistic_pdf_cdf mu s x : 0 < s ->
  is_derive (cdf_logistic mu s) x (exp (lpR_logistic mu s x)).
Proof.
  intros Hs. unfold cdf_logistic, lpR_logistic.
  assert (Hp : 0 < exp (- ((x - mu) / s))) by apply exp_pos.
  auto_derive.
  - replace ((x + - mu) * / s) with ((x - mu) / s) by (unfold Rminus, Rdiv; ring). lra.
  - replace ((x + - mu) * / s) with ((x - mu) / s) by (unfold Rminus, Rdiv; ring).
    set (e := exp (- ((x - mu) / s))) in *.
    rewrite !exp_sub, exp_2ln, exp_ln by lra. fold e. field. lra.
Qed.

Definition lpR_gumbel (mu b x : R) : R := - ((x - mu) / b + exp (- ((x - mu) / b))) - ln b.
Definition cdf_gumbel (mu b x : R) : R := exp (- exp (- ((x - mu) / b))).
Lemma gumbel_pdf_cdf mu b x : 0 < b ->
  is_derive (cdf_gumbel mu b) x (exp (lpR_gumbel mu b x)).
Proof.
  intros Hb. unfold cdf_gumbel, lpR_gumbel. auto_derive; [exact I|].
  replace ((x + - mu) * / b) with ((x - mu) / b) by (unfold Rminus, Rdiv; ring).
  rewrite exp_sub, exp_ln by lra. rewrite Ropp_plus_distr, exp_plus. field. lra.
Qed.

Definition lpR_weibull (k lam x : R) : R :=
  ln k - ln lam + (k - 1) * (ln x - ln lam) - exp (k * (ln x - ln lam)).
Definition cdf_weibull (k lam x : R) : R := 1 - exp (- exp (k * (ln x - ln lam))).
Lemma weibull_pdf_cdf k lam x : 0 < k -> 0 < lam -> 0 < x ->
  is_derive (cdf_weibull k lam) x (exp (lpR_weibull k lam x)).
Proof.
  intros Hk Hl Hx. unfold cdf_weibull, lpR_weibull. auto_derive; [exact Hx|].
  replace (ln x + - ln lam) with (ln x - ln lam) by ring.
  set (u := k * (ln x - ln lam)).
  replace (ln k - ln lam + (k - 1) * (ln x - ln lam) - exp u) with (ln k - ln lam + (u - (ln x - ln lam)) - exp u) by (unfold u; ring).
  rewrite exp_sub, exp_plus, !exp_sub, !exp_ln by lra. clearbody u. rewrite exp_Ropp. field. repeat split; try lra. apply Rgt_not_eq, exp_pos.
Qed.

Definition lpR_cauchy (x0 g x : R) : R := - ln (PI * g) - ln (1 + ((x - x0) / g) * ((x - x0) / g)).
Definition cdf_cauchy (x0 g x : R) : R := / 2 + atan ((x - x0) / g) / PI.
Lemma cauchy_pdf_cdf x0 g x : 0 < g ->
  is_derive (cdf_cauchy x0 g) x (exp (lpR_cauchy x0 g x)).
Proof.
  intros Hg. unfold cdf_cauchy, lpR_cauchy. auto_derive; [exact I|].
  replace ((x + - x0) * / g) with ((x - x0) / g) by (unfold Rminus, Rdiv; ring).
  pose proof PI_RGT_0 as Hpi.
  set (z := (x - x0) / g).
  assert (Hq : 0 < 1 + z * z) by nra.
  assert (Hpg : 0 < PI * g) by nra.
  rewrite exp_sub, exp_Ropp, !exp_ln by assumption.
  field. repeat split; lra.
Qed.

Lemma spec_laplace_R mu b x :
  exists e, spec LaplaceD [mu; b] [x] = Some e /\ den e = lpR_laplace (q2r mu) (q2r b) (q2r x).
Proof.
  unfold spec. eexists. split; [reflexivity|]. cbn [den]. rewrite den_rz. reflexivity.
Qed.
Lemma laplace_cdf_glue mu b : cdf_laplace_lo mu b mu = / 2 /\ cdf_laplace_hi mu b mu = / 2.
Proof.
  unfold cdf_laplace_lo, cdf_laplace_hi. replace ((mu - mu) / b) with 0 by (unfold Rdiv; ring).
  rewrite Ropp_0, exp_0. split; field.
Qed.
Lemma spec_cauchy_R x0 g x :
  exists e, spec CauchyD [x0; g] [x] = Some e /\ den e = lpR_cauchy (q2r x0) (q2r g) (q2r x).
Proof.
  unfold spec. eexists. split; [reflexivity|]. cbn [den rsqr]. rewrite den_rz. reflexivity.
Qed.
Lemma cauchy_cdf_bounds x0 g x : 0 < cdf_cauchy x0 g x < 1.
Proof.
  unfold cdf_cauchy. pose proof (atan_bound ((x - x0) / g)) as [Hl Hh]. pose proof PI_RGT_0 as Hpi.
  assert (- / 2 < atan ((x - x0) / g) / PI < / 2).
  { split.
    - apply Rmult_lt_reg_r with PI; [exact Hpi|]. unfold Rdiv. rewrite Rmult_assoc, Rinv_l by lra. lra.
    - apply Rmult_lt_reg_r with PI; [exact Hpi|]. unfold Rdiv. rewrite Rmult_assoc, Rinv_l by lra. lra. }
  lra.
Qed.

Lemma spec_weibull_R k lam x : qpos x = true ->
  exists e, spec WeibullD [k; lam] [x] = Some e /\ den e = lpR_weibull (q2r k) (q2r lam) (q2r x).
Proof.
  intros H. unfold spec. rewrite H. eexists. split; [reflexivity|]. cbn [den]. rewrite den_rz. reflexivity.
Qed.
Lemma spec_logistic_R mu s x :
  exists e, spec LogisticD [mu; s] [x] = Some e /\ den e = lpR_logistic (q2r mu) (q2r s) (q2r x).
Proof.
  unfold spec. eexists. split; [reflexivity|]. cbn [den]. rewrite !den_rz. reflexivity.
Qed.
Lemma spec_gumbel_R mu b x :
  exists e, spec GumbelD [mu; b] [x] = Some e /\ den e = lpR_gumbel (q2r mu) (q2r b) (q2r x).
Proof. unfold spec. eexists. split; [reflexivity|]. reflexivity. Qed.
