From Coq Require Import ZArith List Lia Bool QArith Qfield.
Import ListNotations.
From GV Require Import Model.Resample.
Open Scope Z_scope.

(** ** resample keeps exp(log_marginal_likelihood) unchanged *)
Lemma qsum_ones {A} (l : list A) : (qsum (map (fun _ => 1%Q) l) == inject_Z (Z.of_nat (length l)))%Q.
Proof.
  induction l as [|x l IH]; cbn [map qsum fold_right length]; [reflexivity|].
  change (fold_right Qplus 0%Q (map (fun _ : A => 1%Q) l)) with (qsum (map (fun _ : A => 1%Q) l)).
  rewrite IH. rewrite Nat2Z.inj_succ. unfold Z.succ. rewrite inject_Z_plus. ring.
Qed.

Lemma inj_len_nz {A} (l : list A) : l <> [] -> ~ (inject_Z (Z.of_nat (length l)) == 0)%Q.
Proof.
  intros H. destruct l; [congruence|]. cbn [length]. rewrite Nat2Z.inj_succ. unfold Qeq. cbn. lia.
Qed.

Theorem resample_marginal {P} (d : P) (c : pc P) (idx : list nat) :
  idx <> [] -> weights c <> [] -> (marginal (resample d c idx) == marginal c)%Q.
Proof.
  intros Hne Hw. unfold marginal, resample, qmean. cbn [estimate weights].
  rewrite qsum_ones, map_length.
  pose proof (inj_len_nz _ Hne). pose proof (inj_len_nz _ Hw).
  field. split; assumption.
Qed.

Theorem resample_shape {P} (d : P) (c : pc P) (idx : list nat) :
  length (particles (resample d c idx)) = length idx
  /\ Forall (fun w => w = 1%Q) (weights (resample d c idx))
  /\ diag (resample d c idx) = normalized (weights c)
  /\ forall j, (j < length idx)%nat ->
       nth j (particles (resample d c idx)) d = nth (nth j idx 0%nat) (particles c) d.
Proof.
  unfold resample, take. cbn. repeat split.
  - apply map_length.
  - apply Forall_forall. intros w Hw. apply in_map_iff in Hw as [? [? _]]. auto.
  - intros j Hj. rewrite (nth_indep _ d (nth 0%nat (particles c) d)) by (rewrite map_length; lia).
    rewrite (map_nth (fun i => nth i (particles c) d)). reflexivity.
Qed.
