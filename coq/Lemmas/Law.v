(** Law.v — the law clauses of C01 / C02 / C10 for finite discrete programs.

    Setting: a finite universe [U] of outcomes on which every distribution is
    supported, outcome v having mass 2^(logpdf d v args) (log densities are
    integers in units of ln 2, as everywhere in the GFI model).  [Ex m F] is the
    expectation of [F] under the sampling monad [m]: a draw is a sum over [U]
    weighted by the masses, a raised exception contributes 0.  (The identities
    below do not need the masses to sum to 1; [Ex m (fun _ => 1)] is the total
    mass of [m], 1 for properly normalised error-free programs, see the examples.)

    Main theorem (importance identity), for every Cond-free program — any nesting
    of distributions and @gen functions, hence Vmap and Scan through [compile] —
    every constraint map with leaves in [U], all arguments and every test
    function G:

        E_generate [ 2^w * G(trace) ]  =  E_simulate [ 1{trace agrees with the constraints} * G(trace) ]

    Corollaries: exp(weight) of [generate] is an unbiased estimate of the
    probability that [simulate] produces the constrained values (C02, and the
    per-particle proper weighting of SMC's [init], C10); [simulate] produces a
    fully specified choice map with probability 2^(assess) (C01).  Cond is
    excluded: its hidden branch is drawn under the constraints by [generate] and
    from the prior by [simulate]. *)
From Coq Require Import QArith Qcanon Qpower.
From GV Require Import Model.Gfi Lemmas.CmLemmas Lemmas.GfiCoh Lemmas.GfiGen.
Open Scope Qc_scope.

(** ** powers of two *)
Definition pow2 (z : Z) : Qc := Q2Qc (Qpower 2 z).

Lemma pow2_0 : pow2 0 = 1.
Proof. apply Qc_is_canon. reflexivity. Qed.

Lemma pow2_add a b : pow2 (a + b) = pow2 a * pow2 b.
Proof.
  apply Qc_is_canon. unfold pow2. cbn [this Qcmult Q2Qc].
  rewrite !Qred_correct. apply Qpower_plus. discriminate.
Qed.

(** ** structural induction on values, decidable equality *)
Section VInd.
  Variable P : value -> Prop.
  Hypothesis HZ : forall z, P (VZ z).
  Hypothesis HB : forall b, P (VB b).
  Hypothesis HN : P VNone.
  Hypothesis HT : forall l, Forall P l -> P (VTup l).
  Fixpoint value_ind' (v : value) : P v :=
    match v with
    | VZ z => HZ z | VB b => HB b | VNone => HN
    | VTup l => HT l ((fix go (l : list value) : Forall P l :=
                         match l with [] => Forall_nil P | x :: l' => Forall_cons x (value_ind' x) (go l') end) l)
    end.
End VInd.

Lemma value_eqb_eq : forall a b, value_eqb a b = true <-> a = b.
Proof.
  induction a as [z|c| |l IH] using value_ind'; intros b; destruct b as [z'|c'|l'|]; cbn;
    try (split; [discriminate|intro H; discriminate H]).
  - rewrite Z.eqb_eq. split; [congruence|intro H; inversion H; reflexivity].
  - rewrite Bool.eqb_true_iff. split; [congruence|intro H; inversion H; reflexivity].
  - split; reflexivity.
  - revert l'. induction IH as [|x l Hx _ IHl]; intros l'; destruct l' as [|y l']; cbn;
      try (split; [discriminate|intro H; discriminate H]).
    + split; reflexivity.
    + rewrite andb_true_iff, Hx. specialize (IHl l'). cbn in IHl.
      split.
      * intros [E1 E2]. apply IHl in E2. inversion E2. subst. reflexivity.
      * intro H. inversion H. subst. split; [reflexivity|]. apply IHl. reflexivity.
Qed.

(** ** Cond-free programs *)
Inductive NC : gf -> Prop :=
| NC_Dist d : NC (GDist d)
| NC_Fn body : (forall a, NCp (body a)) -> NC (GFn body)
with NCp : prog -> Prop :=
| NCp_Ret v : NCp (Ret v)
| NCp_Fail e : NCp (Fail e)
| NCp_Call a g args k : NC g -> (forall r, NCp (k r)) -> NCp (Call a g args k).
Scheme NC_mind := Induction for NC Sort Prop
  with NCp_mind := Induction for NCp Sort Prop.

(** the trace holds, at every visited constrained site, the constrained value (and the
    constraint has the shape generate accepts) *)
Fixpoint agreesb (x : option cm) (t : tr) {struct t} : bool :=
  match t with
  | TrD _ v _ =>
      match x with None => true | Some (CLeaf u) => value_eqb u v | Some (CNode _) => false end
  | TrFn _ m _ _ =>
      match x with
      | None => true
      | Some (CLeaf _) => match m with [] => true | _ => false end
      | Some (CNode l) =>
          (fix go (m : list (addr * tr)) : bool :=
             match m with [] => true | (a, t') :: m' => agreesb (lookup a l) t' && go m' end) m
      end
  | TrCond _ _ _ => true
  end.

Definition agrees_map (X : cm) (m : list (addr * tr)) : bool :=
  match X with
  | CLeaf _ => match m with [] => true | _ => false end
  | CNode l => (fix go (m : list (addr * tr)) : bool :=
                  match m with [] => true | (a, t') :: m' => agreesb (lookup a l) t' && go m' end) m
  end.

Lemma agreesb_fn X args m r s : agreesb (Some X) (TrFn args m r s) = agrees_map X m.
Proof. destruct X; reflexivity. Qed.

Lemma agrees_map_cons l a t m :
  agrees_map (CNode l) ((a, t) :: m) = agreesb (lookup a l) t && agrees_map (CNode l) m.
Proof. reflexivity. Qed.

(** leaves of a constraint map lie in U *)
Section Leaves.
  Variable U : list value.
  Fixpoint leaves_in (x : cm) : Prop :=
    match x with
    | CLeaf v => In v U
    | CNode l => (fix go (l : list (addr * cm)) : Prop :=
                    match l with [] => True | (_, y) :: l' => leaves_in y /\ go l' end) l
    end.
  Definition oleaves_in (x : option cm) : Prop := match x with None => True | Some y => leaves_in y end.

  Lemma leaves_in_lookup l a : leaves_in (CNode l) -> oleaves_in (lookup a l).
  Proof.
    induction l as [|[b y] l IH]; cbn; intros H; [exact I|].
    destruct H as [Hy Hl]. destruct (addr_eqb a b); [exact Hy|apply IH; exact Hl].
  Qed.
End Leaves.

Section Law.
  Variable U : list value.
  Hypothesis U_nodup : NoDup U.
  (** the mass a distribution gives an outcome: 2^(log density) *)
  Definition mass (d : dist) (v args : value) : Qc := pow2 (logpdf d v args).

  Definition sumU (f : value -> Qc) : Qc := fold_right (fun v acc => f v + acc) 0 U.

  Fixpoint Ex {A} (m : samp A) (F : A -> Qc) : Qc :=
    match m with
    | SRet a => F a
    | SErr _ => 0
    | SDraw d args k => fold_right (fun v acc => mass d v args * Ex (k v) F + acc) 0 U
    end.

  Lemma fold_ext (f g : value -> Qc) (l : list value) :
    (forall v, In v l -> f v = g v) ->
    fold_right (fun v acc => f v + acc) 0 l = fold_right (fun v acc => g v + acc) 0 l.
  Proof.
    induction l as [|x l IH]; cbn; intros H; [reflexivity|].
    rewrite (H x (or_introl eq_refl)), IH; [reflexivity|]. intros v Hv. apply H. right; exact Hv.
  Qed.

  Lemma fold_scale (c : Qc) (f : value -> Qc) (l : list value) :
    fold_right (fun v acc => c * f v + acc) 0 l = c * fold_right (fun v acc => f v + acc) 0 l.
  Proof. induction l as [|x l IH]; cbn; [ring|rewrite IH; ring]. Qed.

  Lemma fold_zero (l : list value) : fold_right (fun (_ : value) acc => 0 + acc) 0 l = 0.
  Proof. induction l as [|x l IH]; cbn; [reflexivity|rewrite IH; ring]. Qed.

  Lemma Ex_ext {A} (m : samp A) (F G : A -> Qc) : (forall a, F a = G a) -> Ex m F = Ex m G.
  Proof.
    intros H. induction m as [a|d args k IH|e]; cbn; [apply H| |reflexivity].
    apply (fold_ext (fun v => mass d v args * Ex (k v) F) (fun v => mass d v args * Ex (k v) G)).
    intros v _. rewrite IH. reflexivity.
  Qed.

  Lemma Ex_scale {A} (m : samp A) (c : Qc) (F : A -> Qc) : Ex m (fun a => c * F a) = c * Ex m F.
  Proof.
    induction m as [a|d args k IH|e]; cbn; [reflexivity| |ring].
    rewrite <- (fold_scale c (fun v => mass d v args * Ex (k v) F)).
    apply (fold_ext (fun v => mass d v args * Ex (k v) (fun a => c * F a))
                    (fun v => c * (mass d v args * Ex (k v) F))).
    intros v _. rewrite IH. ring.
  Qed.

  Lemma Ex_zero {A} (m : samp A) : Ex m (fun _ => 0) = 0.
  Proof.
    induction m as [a|d args k IH|e]; cbn; [reflexivity| |reflexivity].
    transitivity (fold_right (fun (_ : value) acc => 0 + acc) 0 U); [|apply fold_zero].
    apply (fold_ext (fun v => mass d v args * Ex (k v) (fun _ => 0)) (fun _ => 0)).
    intros v _. rewrite IH. ring.
  Qed.

  Lemma Ex_bind {A B} (m : samp A) (f : A -> samp B) (F : B -> Qc) :
    Ex (sbind m f) F = Ex m (fun a => Ex (f a) F).
  Proof.
    induction m as [a|d args k IH|e]; cbn; [reflexivity| |reflexivity].
    apply (fold_ext (fun v => mass d v args * Ex (sbind (k v) f) F)
                    (fun v => mass d v args * Ex (k v) (fun a => Ex (f a) F))).
    intros v _. rewrite IH. reflexivity.
  Qed.

  Lemma Ex_lift {A} (r : res A) (F : A -> Qc) :
    Ex (lift r) F = match r with Ok a => F a | Err _ => 0 end.
  Proof. destruct r; reflexivity. Qed.

  (** a sum against an indicator picks one term *)
  Lemma sum_pick (f : value -> Qc) (v : value) (l : list value) :
    NoDup l -> In v l ->
    fold_right (fun u acc => (if value_eqb v u then f u else 0) + acc) 0 l = f v.
  Proof.
    induction l as [|x l IH]; intros Hnd Hin; [destruct Hin|].
    inversion Hnd as [|? ? Hx Hl]; subst. cbn [fold_right].
    destruct (value_eqb v x) eqn:E.
    - apply value_eqb_eq in E. subst x.
      assert (Z0 : fold_right (fun u acc => (if value_eqb v u then f u else 0) + acc) 0 l = 0).
      { clear IH Hin Hnd Hl. induction l as [|y l IHl]; cbn; [reflexivity|].
        destruct (value_eqb v y) eqn:E'.
        - apply value_eqb_eq in E'. subst y. exfalso. apply Hx. left; reflexivity.
        - rewrite IHl; [ring|]. intro H. apply Hx. right; exact H. }
      rewrite Z0. ring.
    - destruct Hin as [Hin|Hin]; [subst x; rewrite (proj2 (value_eqb_eq v v) eq_refl) in E; discriminate|].
      rewrite IH by assumption. ring.
  Qed.

  (** ** the importance identity *)
  Definition Pgf (g : gf) : Prop :=
    forall x args (G : tr -> Qc), oleaves_in U x ->
      Ex (gf_generate g x args) (fun tw => if agreesb x (fst tw) then pow2 (snd tw) * G (fst tw) else 0)
      = Ex (gf_simulate g args) (fun t => if agreesb x t then G t else 0).

  Definition Pprog (p : prog) : Prop :=
    forall X sc w m (F : value -> Z -> list (addr * tr) -> Qc), leaves_in U X ->
      Ex (run_generate p X {| g_score := sc; g_weight := w; g_map := m |})
         (fun rs => if agrees_map X (g_map (snd rs))
                    then pow2 (g_weight (snd rs)) * F (fst rs) (g_score (snd rs)) (g_map (snd rs)) else 0)
      = pow2 w * Ex (run_simulate p {| s_score := sc; s_map := m |})
                    (fun rs => if agrees_map X (s_map (snd rs))
                               then F (fst rs) (s_score (snd rs)) (s_map (snd rs)) else 0).

  Lemma gen_none_is_sim g args (F : tr * Z -> Qc) : NC g ->
    Ex (gf_generate g None args) F = Ex (gf_simulate g args) (fun t => F (t, 0%Z)).
  Proof.
    intros H. destruct H as [d|body Hb].
    - cbn [gf_generate Distribution_generate]. rewrite Ex_bind. reflexivity.
    - cbn [gf_generate]. rewrite Ex_bind. reflexivity.
  Qed.

  Lemma agrees_cons_false X a t m0 : agrees_map X m0 = false -> agrees_map X ((a, t) :: m0) = false.
  Proof.
    destruct X as [v|l]; intros H.
    - reflexivity.
    - rewrite agrees_map_cons, H. apply andb_false_r.
  Qed.

  (** once the map holds a disagreeing entry the indicator is 0 whatever follows *)
  Lemma sim_dead : forall p X sc m0 (F : value * SimSt -> Qc),
      agrees_map X m0 = false ->
      Ex (run_simulate p {| s_score := sc; s_map := m0 |})
         (fun rs => if agrees_map X (s_map (snd rs)) then F rs else 0) = 0.
  Proof.
    induction p as [v|a g args k IH|e]; intros X sc m0 F H; cbn [run_simulate].
    - cbn [Ex snd s_map]. rewrite H. reflexivity.
    - unfold Simulate_call. cbn [s_map]. destruct (mem a m0); [reflexivity|].
      rewrite !Ex_bind. transitivity (Ex (gf_simulate g args) (fun _ => 0)); [|apply Ex_zero].
      apply Ex_ext. intros t.
      cbn [Ex]. apply IH. apply agrees_cons_false. exact H.
    - reflexivity.
  Qed.

  Theorem importance_identity : forall g, NC g -> Pgf g.
  Proof.
    apply (NC_mind (fun g _ => Pgf g) (fun p _ => Pprog p)).
    - (* distribution *)
      intros d x args G Hx. destruct x as [[v|l]|].
      + cbn [gf_generate Distribution_generate Distribution_assess lift sbind Ex fst snd agreesb gf_simulate Distribution_simulate].
        rewrite (proj2 (value_eqb_eq v v) eq_refl).
        cbn in Hx.
        rewrite (fold_ext _ (fun u => if value_eqb v u then mass d u args * G (TrD args u (- logpdf d u args)) else 0)).
        * rewrite (sum_pick (fun u => mass d u args * G (TrD args u (- logpdf d u args))) v U U_nodup Hx).
          reflexivity.
        * intros u _. destruct (value_eqb v u); ring.
      + cbn [gf_generate Distribution_generate Distribution_assess lift sbind Ex agreesb gf_simulate Distribution_simulate].
        symmetry. transitivity (fold_right (fun (_ : value) acc => 0 + acc) 0 U); [|apply fold_zero].
        apply (fold_ext (fun u => mass d u args * 0) (fun _ => 0)). intros u _. ring.
      + cbn [gf_generate Distribution_generate gf_simulate Distribution_simulate sbind Ex agreesb fst snd].
        apply fold_ext. intros u _. rewrite pow2_0. ring.
    - (* @gen function *)
      intros body Hb IH x args G Hx. destruct x as [X|].
      + cbn [gf_generate gf_simulate]. rewrite !Ex_bind.
        specialize (IH args X 0%Z 0%Z [] (fun r sc m => G (TrFn args m r sc)) Hx).
        rewrite pow2_0, Qcmult_1_l in IH.
        etransitivity; [|etransitivity; [exact IH|]].
        * apply Ex_ext. intros [r st]. cbn [Ex fst snd]. rewrite agreesb_fn. reflexivity.
        * apply Ex_ext. intros [r st]. cbn [Ex fst snd]. rewrite agreesb_fn. reflexivity.
      + rewrite gen_none_is_sim by (constructor; exact Hb).
        apply Ex_ext. intros t. cbn [fst snd]. destruct t; cbn [agreesb]; rewrite pow2_0; ring.
    - (* Ret *)
      intros v X sc w m F HX. cbn [run_generate run_simulate Ex fst snd g_map g_weight g_score s_map s_score].
      destruct (agrees_map X m); ring.
    - (* Fail *)
      intros e X sc w m F HX. cbn [run_generate run_simulate Ex]. ring.
    - (* Call *)
      intros a g args k Hg IHg Hk IHk X sc w m F HX.
      cbn [run_generate run_simulate]. unfold Generate_call, Simulate_call.
      cbn [g_map s_map]. destruct (mem a m) eqn:Em.
      + cbn [sbind Ex]. ring.
      + destruct X as [v|l].
        * cbn [sbind Ex]. rewrite !Ex_bind.
          transitivity (pow2 w * 0); [ring|]. f_equal. symmetry.
          transitivity (Ex (gf_simulate g args) (fun _ => 0)); [|apply Ex_zero].
          apply Ex_ext. intros t.
          cbn [Ex s_score s_map]. apply (sim_dead (k (get_retval t)) (CLeaf v) _ _
             (fun rs => F (fst rs) (s_score (snd rs)) (s_map (snd rs)))). reflexivity.
        * rewrite !Ex_bind. cbn [cm_get].
          set (H := fun t : tr =>
                      Ex (run_simulate (k (get_retval t)) {| s_score := sc + get_score t; s_map := (a, t) :: m |})
                         (fun rs => if agrees_map (CNode l) (s_map (snd rs))
                                    then F (fst rs) (s_score (snd rs)) (s_map (snd rs)) else 0)).
          assert (Hdead : forall t, agreesb (lookup a l) t = false -> H t = 0).
          { intros t Ht. unfold H.
            apply (sim_dead (k (get_retval t)) (CNode l) _ _
                     (fun rs => F (fst rs) (s_score (snd rs)) (s_map (snd rs)))).
            rewrite agrees_map_cons, Ht. reflexivity. }
          transitivity (Ex (gf_generate g (lookup a l) args)
                           (fun tw => if agreesb (lookup a l) (fst tw) then pow2 (snd tw) * (pow2 w * H (fst tw)) else 0)).
          { apply Ex_ext. intros [t w']. cbn [Ex fst snd g_score g_weight g_map].
            rewrite (IHk (get_retval t) (CNode l) (sc + get_score t)%Z (w + w')%Z ((a, t) :: m) F HX).
            fold (H t). rewrite pow2_add.
            destruct (agreesb (lookup a l) t) eqn:Et; [ring|]. rewrite (Hdead t Et). ring. }
          rewrite (IHg (lookup a l) args (fun t => pow2 w * H t) (leaves_in_lookup U l a HX)).
          transitivity (Ex (gf_simulate g args) (fun t => pow2 w * H t)).
          { apply Ex_ext. intros t. destruct (agreesb (lookup a l) t) eqn:Et; [reflexivity|].
            rewrite (Hdead t Et). ring. }
          rewrite Ex_scale. f_equal.
  Qed.

  (** generate's own outputs always agree with the constraints: the indicator on the
      generate side is redundant *)
  Definition Qgf (g : gf) : Prop :=
    forall x args (Phi : tr * Z -> Qc),
      Ex (gf_generate g x args) (fun tw => if agreesb x (fst tw) then Phi tw else 0)
      = Ex (gf_generate g x args) Phi.
  Definition Qprog (p : prog) : Prop :=
    forall X sc w m (Phi : value * GenSt -> Qc), agrees_map X m = true ->
      Ex (run_generate p X {| g_score := sc; g_weight := w; g_map := m |})
         (fun rs => if agrees_map X (g_map (snd rs)) then Phi rs else 0)
      = Ex (run_generate p X {| g_score := sc; g_weight := w; g_map := m |}) Phi.

  Lemma agreesb_none t : agreesb None t = true.
  Proof. destruct t; reflexivity. Qed.

  Lemma generate_agrees : forall g, NC g -> Qgf g.
  Proof.
    apply (NC_mind (fun g _ => Qgf g) (fun p _ => Qprog p)).
    - intros d x args Phi. destruct x as [[v|l]|].
      + cbn [gf_generate Distribution_generate Distribution_assess lift sbind Ex fst agreesb].
        rewrite (proj2 (value_eqb_eq v v) eq_refl). reflexivity.
      + reflexivity.
      + apply Ex_ext. intros [t w]. cbn [fst]. rewrite agreesb_none. reflexivity.
    - intros body Hb IH x args Phi. destruct x as [X|].
      + cbn [gf_generate]. rewrite !Ex_bind.
        etransitivity; [|apply (IH args X 0%Z 0%Z [])].
        * apply Ex_ext. intros [r st]. cbn [Ex fst snd]. rewrite agreesb_fn. reflexivity.
        * destruct X; reflexivity.
      + apply Ex_ext. intros [t w]. cbn [fst]. rewrite agreesb_none. reflexivity.
    - intros v X sc w m Phi Hm. cbn [run_generate Ex snd g_map]. rewrite Hm. reflexivity.
    - intros e X sc w m Phi Hm. reflexivity.
    - intros a g args k Hg IHg Hk IHk X sc w m Phi Hm.
      cbn [run_generate]. unfold Generate_call. cbn [g_map]. destruct (mem a m); [reflexivity|].
      destruct X as [v|l]; [reflexivity|]. rewrite !Ex_bind. cbn [cm_get].
      etransitivity; [symmetry; apply (IHg (lookup a l) args)|].
      etransitivity; [|apply (IHg (lookup a l) args)].
      apply Ex_ext. intros [t w0]. cbn [fst Ex].
      destruct (agreesb (lookup a l) t) eqn:Et; [|reflexivity].
      apply IHk. rewrite agrees_map_cons, Et, Hm. reflexivity.
  Qed.

  (** the importance identity without the redundant indicator *)
  Theorem importance_identity' g x args (G : tr -> Qc) : NC g -> oleaves_in U x ->
    Ex (gf_generate g x args) (fun tw => pow2 (snd tw) * G (fst tw))
    = Ex (gf_simulate g args) (fun t => if agreesb x t then G t else 0).
  Proof.
    intros Hg Hx. rewrite <- (importance_identity g Hg x args G Hx).
    symmetry. apply (generate_agrees g Hg x args (fun tw => pow2 (snd tw) * G (fst tw))).
  Qed.

  (** ** corollaries *)

  (** C02: exp(weight) of generate is an unbiased estimate of the probability that
      simulate produces the constrained values *)
  Corollary generate_weight_unbiased g x args : NC g -> oleaves_in U x ->
    Ex (gf_generate g x args) (fun tw => pow2 (snd tw))
    = Ex (gf_simulate g args) (fun t => if agreesb x t then 1 else 0).
  Proof.
    intros Hg Hx. rewrite <- (importance_identity' g x args (fun _ => 1) Hg Hx).
    apply Ex_ext. intros [t w]. cbn [fst snd]. ring.
  Qed.

  (** self-normalised form: for every test function G, the weighted generate expectation
      is the simulate expectation restricted to the constraint event, so the ratio
      E_gen[2^w G] / E_gen[2^w] is the conditional expectation of G given the constraints *)
  Corollary generate_targets_posterior g x args (G : tr -> Qc) : NC g -> oleaves_in U x ->
    Ex (gf_generate g x args) (fun tw => pow2 (snd tw) * G (fst tw))
    * Ex (gf_simulate g args) (fun t => if agreesb x t then 1 else 0)
    = Ex (gf_simulate g args) (fun t => if agreesb x t then G t else 0)
      * Ex (gf_generate g x args) (fun tw => pow2 (snd tw)).
  Proof.
    intros Hg Hx. rewrite (importance_identity' g x args G Hg Hx), (generate_weight_unbiased g x args Hg Hx). ring.
  Qed.

  (** C01 (law of simulate): if the constraint c determines the whole run — generate makes
      no draw and returns (t, w), where w is then the density assess gives c
      (C02_all_constrained) — then simulate produces a trace agreeing with c with
      probability exactly 2^w *)
  Corollary simulate_point_mass g c args t w : NC g -> leaves_in U c ->
    (forall F, Ex (gf_generate g (Some c) args) F = F (t, w)) ->
    Ex (gf_simulate g args) (fun t' => if agreesb (Some c) t' then 1 else 0) = pow2 w.
  Proof.
    intros Hg Hc Hdet. rewrite <- (generate_weight_unbiased g (Some c) args Hg Hc).
    rewrite Hdet. reflexivity.
  Qed.

  (** C10: N independent particles initialised with the default proposal: the mean of
      their weights exp(w_i) — exp of smc's log marginal estimate — is an unbiased estimate
      of the probability of the observations, provided no mass is lost to exceptions *)
  Fixpoint repl {A} (n : nat) (m : samp A) : samp (list A) :=
    match n with
    | O => SRet []
    | S n' => a <- m ;; l <- repl n' m ;; SRet (a :: l)
    end.

  Definition qcn (n : nat) : Qc := Q2Qc (inject_Z (Z.of_nat n)).
  Lemma qcn_S n : qcn (S n) = 1 + qcn n.
  Proof.
    apply Qc_is_canon. unfold qcn. cbn [this Qcplus Q2Qc]. rewrite !Qred_correct.
    rewrite Nat2Z.inj_succ. unfold Z.succ. rewrite inject_Z_plus. ring.
  Qed.
  Lemma qcn_neq0 n : (0 < n)%nat -> qcn n <> 0.
  Proof.
    intros H E. apply (f_equal this) in E. unfold qcn in E. cbn [this Q2Qc] in E.
    assert (Q : Qred (inject_Z (Z.of_nat n)) == 0) by (rewrite E; reflexivity).
    rewrite Qred_correct in Q. unfold Qeq in Q. cbn in Q. lia.
  Qed.

  Definition sumf {A} (f : A -> Qc) (l : list A) : Qc := fold_right (fun a acc => f a + acc) 0 l.

  Lemma Ex_plus {A} (m : samp A) (F G : A -> Qc) : Ex m (fun a => F a + G a) = Ex m F + Ex m G.
  Proof.
    induction m as [a|d args k IH|e]; cbn; [reflexivity| |ring].
    transitivity (fold_right (fun v acc => (mass d v args * Ex (k v) F + mass d v args * Ex (k v) G) + acc) 0 U).
    - apply (fold_ext (fun v => mass d v args * Ex (k v) (fun a => F a + G a))
                      (fun v => mass d v args * Ex (k v) F + mass d v args * Ex (k v) G)).
      intros v _. rewrite IH. ring.
    - generalize U. intros l. induction l as [|x l IHl]; cbn; [ring|]. rewrite IHl. ring.
  Qed.

  Lemma Ex_const {A} (m : samp A) (c : Qc) : Ex m (fun _ => c) = c * Ex m (fun _ => 1).
  Proof. rewrite <- Ex_scale. apply Ex_ext. intros a. ring. Qed.

  Lemma Ex_repl_total {A} (m : samp A) n : Ex m (fun _ => 1) = 1 -> Ex (repl n m) (fun _ => 1) = 1.
  Proof.
    intros H. induction n as [|n IH]; cbn [repl Ex]; [reflexivity|].
    rewrite Ex_bind. transitivity (Ex m (fun _ => 1)); [|exact H]. apply Ex_ext. intros a. rewrite Ex_bind.
    etransitivity; [|exact IH]. apply Ex_ext. intros l. reflexivity.
  Qed.

  Lemma Ex_repl_sum {A} (m : samp A) (f : A -> Qc) n : Ex m (fun _ => 1) = 1 ->
    Ex (repl n m) (sumf f) = qcn n * Ex m f.
  Proof.
    intros H. induction n as [|n IH].
    - cbn [repl Ex sumf fold_right]. replace (qcn 0) with 0 by (apply Qc_is_canon; reflexivity). ring.
    - cbn [repl]. rewrite Ex_bind.
      transitivity (Ex m (fun a => f a + Ex (repl n m) (sumf f))).
      + apply Ex_ext. intros a. rewrite Ex_bind.
        transitivity (Ex (repl n m) (fun l => f a + sumf f l)); [apply Ex_ext; intros l; reflexivity|].
        rewrite Ex_plus, Ex_const, (Ex_repl_total m n H). ring.
      + rewrite Ex_plus, Ex_const, H, IH.
        rewrite qcn_S. ring.
  Qed.

  Corollary smc_init_estimate_unbiased g obs args n : NC g -> leaves_in U obs -> (0 < n)%nat ->
    Ex (gf_generate g (Some obs) args) (fun _ => 1) = 1 ->
    Ex (repl n (gf_generate g (Some obs) args)) (fun ps => sumf (fun tw => pow2 (snd tw)) ps / qcn n)
    = Ex (gf_simulate g args) (fun t => if agreesb (Some obs) t then 1 else 0).
  Proof.
    intros Hg Ho Hn Hm.
    transitivity (/ qcn n * Ex (repl n (gf_generate g (Some obs) args)) (sumf (fun tw => pow2 (snd tw)))).
    - rewrite <- Ex_scale. apply Ex_ext. intros l. unfold Qcdiv. ring.
    - rewrite (Ex_repl_sum _ _ n Hm), (generate_weight_unbiased g (Some obs) args Hg Ho).
      field. apply qcn_neq0. exact Hn.
  Qed.
End Law.



(** ** Cond-free syntax trees compile to Cond-free programs (dist, @gen, Vmap, Scan) *)
From GV Require Import Model.Ast.

Fixpoint nocond (g : gast) : bool :=
  match g with
  | ADist _ => true
  | AFn body => nocond_p body
  | ACond _ _ => false
  | AVmap _ _ g1 => nocond g1
  | AScan _ g1 => nocond g1
  end
with nocond_p (p : past) : bool :=
  match p with
  | PRet _ => true
  | PCall _ g _ k => nocond g && nocond_p k
  end.

Lemma NCp_vmap cg axes args : NC cg -> forall todo i acc, NCp (vmap_prog cg axes args todo i acc).
Proof.
  intros H. induction todo as [|todo IH]; intros i acc; cbn [vmap_prog]; constructor; [exact H|].
  intros r. apply IH.
Qed.

Lemma NCp_scan cg xs : NC cg -> forall todo i carry acc, NCp (scan_prog cg xs todo i carry acc).
Proof.
  intros H. induction todo as [|todo IH]; intros i carry acc; cbn [scan_prog]; constructor; [exact H|].
  intros r. destruct r as [| |[|c' [|out [|? ?]]]|]; try constructor. apply IH.
Qed.

Scheme gast_mind := Induction for gast Sort Prop
  with past_mind := Induction for past Sort Prop.

Lemma NC_compile : forall g, nocond g = true -> NC (compile g).
Proof.
  apply (gast_mind (fun g => nocond g = true -> NC (compile g))
                   (fun p => nocond_p p = true -> forall env, NCp (compile_p p env))).
  - intros kind _. constructor.
  - intros body IH H. cbn [compile]. constructor. intros a. apply IH. exact H.
  - intros g1 _ g2 _ H. discriminate.
  - intros n axes g IH H. cbn [compile]. constructor. intros a. apply NCp_vmap. apply IH. exact H.
  - intros len g IH H. cbn [compile]. constructor. intros a.
    destruct a as [| |[|init [|xs [|? ?]]]|]; try constructor. apply NCp_scan. apply IH. exact H.
  - intros e _ env. constructor.
  - intros a g IHg args k IHk H env. cbn in H. apply andb_true_iff in H as [H1 H2].
    cbn [compile_p]. constructor; [apply IHg; exact H1|]. intros r. apply IHk. exact H2.
Qed.

(** ** non-vacuity: a concrete two-site program over the dyadic categorical stub (kind 3,
    masses 1/2, 1/4, 1/4 on {0,1,2}), the second site's parameter depending on the first *)
Definition U3 : list value := [VZ 0; VZ 1; VZ 2].
Lemma U3_nodup : NoDup U3.
Proof. repeat constructor; cbn; intuition discriminate. Qed.

Definition law_ex_prog : gast :=
  AFn (PCall 0%nat (ADist 3%nat) [EK 0] (PCall 1%nat (ADist 3%nat) [EV 1%nat] (PRet (EAdd (EV 1%nat) (EV 2%nat))))).

Example ex_total_mass : Ex U3 (gf_simulate (compile law_ex_prog) (VTup [VZ 0])) (fun _ => 1%Qc) = 1%Qc.
Proof. apply Qc_is_canon. vm_compute. reflexivity. Qed.

(** E_generate[2^w] with the second site observed = P_simulate(second site = 2) = 5/16 *)
Example ex_unbiased :
  Ex U3 (gf_generate (compile law_ex_prog) (Some (CNode [(AName 1%nat, CLeaf (VZ 2))])) (VTup [VZ 0]))
     (fun tw => pow2 (snd tw))
  = Q2Qc (5 # 16).
Proof. apply Qc_is_canon. vm_compute. reflexivity. Qed.
