(** SelLemmas.v — selections form a Boolean algebra on address paths; filter
    partitions the leaves of a choice map by [selected] (C16). *)
From GV Require Import Model.Gfi Model.Spec Lemmas.CmLemmas.

Lemma selected_or : forall p s t, selected (SOr s t) p = selected s p || selected t p.
Proof.
  induction p as [|a p IH]; intros s t; [reflexivity|].
  destruct a as [n|i]; cbn.
  - destruct (sel_match_name s n) as [c1 r1], (sel_match_name t n) as [c2 r2]. cbn. apply IH.
  - apply IH.
Qed.

Lemma selected_in : forall p s t, selected (SIn s t) p = selected s p && selected t p.
Proof.
  induction p as [|a p IH]; intros s t; [reflexivity|].
  destruct a as [n|i]; cbn.
  - destruct (sel_match_name s n) as [c1 r1], (sel_match_name t n) as [c2 r2]. cbn. apply IH.
  - apply IH.
Qed.

Lemma selected_compl : forall p s, selected (SCompl s) p = negb (selected s p).
Proof.
  induction p as [|a p IH]; intros s; [reflexivity|].
  destruct a as [n|i]; cbn.
  - destruct (sel_match_name s n) as [c1 r1]. cbn. apply IH.
  - apply IH.
Qed.

Lemma selected_all' p : selected SAll p = true.
Proof. induction p as [|a p IH]; cbn; auto. destruct a; cbn; auto. Qed.
Lemma selected_none' p : selected SNone p = false.
Proof. induction p as [|a p IH]; cbn; auto. destruct a; cbn; auto. Qed.

Definition names (l : list nat) : path := map AName l.

(** [sel("a")] selects exactly the paths that start with a. *)
Lemma selected_str n l :
  selected (SStr n) (names l) = match l with m :: _ => Nat.eqb m n | [] => false end.
Proof.
  destruct l as [|m l]; [reflexivity|]. cbn. destruct (Nat.eqb m n); cbn.
  - apply selected_all'.
  - apply selected_none'.
Qed.

Fixpoint prefixb (q l : list nat) : bool :=
  match q, l with
  | [], _ => true
  | x :: q', y :: l' => Nat.eqb y x && prefixb q' l'
  | _ :: _, [] => false
  end.

(** [sel((a,b,…))] selects exactly the sub-tree a/b/…  (nothing for the empty tuple). *)
Lemma selected_tup : forall q l,
  selected (STup q) (names l) = match q with [] => false | _ => prefixb q l end.
Proof.
  unfold names.
  induction q as [|x q IH]; intros l.
  - destruct l; cbn; auto. apply selected_none'.
  - destruct l as [|y l]; [reflexivity|]. cbn [map selected sel_match snd].
    destruct q as [|x2 q].
    + cbn. destruct (Nat.eqb y x); cbn; [apply selected_all'|apply selected_none'].
    + cbn [sel_match_name]. destruct (Nat.eqb y x) eqn:E; cbn [snd].
      * rewrite (IH l). cbn [prefixb]. rewrite E. reflexivity.
      * cbn [prefixb]. rewrite E. apply selected_none'.
Qed.

(** dict selections delegate per key *)
Lemma selected_dict d a p :
  selected (SDict d) (AName a :: p) =
  match dict_get a d with Some s' => selected s' p | None => false end.
Proof.
  cbn. destruct (dict_get a d); cbn; [reflexivity|apply selected_none'].
Qed.

Lemma selected_dict_nil d : selected (SDict d) [] = false.
Proof. reflexivity. Qed.

Lemma selected_lane s i p : selected s (ALane i :: p) = selected s p.
Proof. reflexivity. Qed.

(** De Morgan and absorption follow. *)
Lemma selected_demorgan s t p :
  selected (SCompl (SOr s t)) p = selected (SIn (SCompl s) (SCompl t)) p.
Proof. rewrite selected_compl, selected_or, selected_in, !selected_compl. apply negb_orb. Qed.

Lemma selected_absorb s t p : selected (SOr s (SIn s t)) p = selected s p.
Proof. rewrite selected_or, selected_in. destruct (selected s p), (selected t p); reflexivity. Qed.

(** ** leaves and filter *)

Fixpoint cm_leaves (x : cm) : list (path * value) :=
  match x with
  | CLeaf v => [([], v)]
  | CNode l =>
      (fix go (l : list (addr * cm)) : list (path * value) :=
         match l with
         | [] => []
         | (a, y) :: l' => map (fun q => (a :: fst q, snd q)) (cm_leaves y) ++ go l'
         end) l
  end.

Fixpoint node_leaves (l : list (addr * cm)) : list (path * value) :=
  match l with
  | [] => []
  | (a, y) :: l' => map (fun q => (a :: fst q, snd q)) (cm_leaves y) ++ node_leaves l'
  end.
Lemma cm_leaves_node l : cm_leaves (CNode l) = node_leaves l.
Proof. cbn. induction l as [|[a y] l IH]; cbn; congruence. Qed.

Definition oleaves (x : option cm) : list (path * value) :=
  match x with Some y => cm_leaves y | None => [] end.

Definition selq (s : sel) (q : path * value) : bool := selected s (fst q).

Section FilterGo.
  Variable s : sel.
  Fixpoint filter_go (l : list (addr * cm)) : list (addr * cm) * list (addr * cm) :=
    match l with
    | [] => ([], [])
    | (a, v) :: l' =>
        let '(sl, ul) := filter_go l' in
        let sub := snd (sel_match s a) in
        match v with
        | CNode _ =>
            let '(sv, uv) := cm_filter v sub in
            (match sv with Some y => (a, y) :: sl | None => sl end,
             match uv with Some y => (a, y) :: ul | None => ul end)
        | CLeaf _ =>
            if sel_unit sub then ((a, v) :: sl, ul) else (sl, (a, v) :: ul)
        end
    end.
End FilterGo.

Lemma cm_filter_node s l :
  cm_filter (CNode l) s =
  match l with
  | [] => (None, None)
  | _ => let '(sl, ul) := filter_go s l in
         (match sl with [] => None | _ => Some (CNode sl) end,
          match ul with [] => None | _ => Some (CNode ul) end)
  end.
Proof. destruct l; reflexivity. Qed.

Lemma filter_map_prefix (P : path -> bool) a (l : list (path * value)) :
  filter (fun q => P (fst q)) (map (fun q => (a :: fst q, snd q)) l)
  = map (fun q => (a :: fst q, snd q)) (filter (fun q => P (a :: fst q)) l).
Proof.
  induction l as [|[p v] l IH]; cbn; [reflexivity|].
  destruct (P (a :: p)); cbn; rewrite IH; reflexivity.
Qed.

Lemma oleaves_node_opt (l : list (addr * cm)) :
  oleaves (match l with [] => None | _ => Some (CNode l) end) = node_leaves l.
Proof. destruct l; [reflexivity|]. cbn [oleaves]. apply cm_leaves_node. Qed.

(** The selected part holds exactly the leaves whose path is selected, the
    unselected part exactly the others (same order): a partition. *)
Theorem filter_leaves : forall x s,
    oleaves (fst (cm_filter x s)) = filter (selq s) (cm_leaves x) /\
    oleaves (snd (cm_filter x s)) = filter (fun q => negb (selq s q)) (cm_leaves x).
Proof.
  induction x as [v|l IH] using cm_ind'; intros s.
  - cbn. unfold selq. cbn. destruct (sel_unit s); cbn; auto.
  - rewrite cm_filter_node, cm_leaves_node.
    assert (G : node_leaves (fst (filter_go s l)) = filter (selq s) (node_leaves l) /\
                node_leaves (snd (filter_go s l)) = filter (fun q => negb (selq s q)) (node_leaves l)).
    { induction l as [|[a v] l IHl]; [cbn; auto|].
      inversion IH as [|? ? Hv Hl]; subst. specialize (IHl Hl). destruct IHl as [I1 I2].
      cbn [filter_go node_leaves]. destruct (filter_go s l) as [sl ul]. cbn [fst snd] in *.
      rewrite !filter_app. unfold selq at 1 3.
      rewrite !(filter_map_prefix (selected s)).
      rewrite (filter_map_prefix (fun p => negb (selected s p))).
      destruct v as [w|lv].
      - cbn [cm_leaves map filter fst snd]. cbn [selected].
        destruct (sel_unit (snd (sel_match s a))); cbn; rewrite ?I1, ?I2; auto.
      - pose proof (Hv (snd (sel_match s a))) as Hv'. cbn beta iota delta [snd] in Hv'.
        destruct Hv' as [H1 H2].
        destruct (cm_filter (CNode lv) (snd (sel_match s a))) as [sv uv]. cbn [fst snd] in H1, H2.
        assert (E1 : filter (fun q => selected s (a :: fst q)) (cm_leaves (CNode lv)) = oleaves sv)
          by (rewrite H1; reflexivity).
        assert (E2 : filter (fun q => negb (selected s (a :: fst q))) (cm_leaves (CNode lv)) = oleaves uv)
          by (rewrite H2; reflexivity).
        rewrite E1, E2.
        split.
        + destruct sv; cbn [fst node_leaves oleaves map app]; rewrite I1; reflexivity.
        + destruct uv; cbn [snd node_leaves oleaves map app]; rewrite I2; reflexivity. }
    destruct l as [|p l']; [cbn; auto|].
    destruct (filter_go s (p :: l')) as [sl ul]. cbn [fst snd] in *.
    rewrite !oleaves_node_opt. exact G.
Qed.

(** ** [match]-chain selection = the denotation *)

Section SelInd.
  Variable P : sel -> Prop.
  Hypothesis HAll : P SAll. Hypothesis HNone : P SNone.
  Hypothesis HStr : forall n, P (SStr n). Hypothesis HTup : forall q, P (STup q).
  Hypothesis HDict : forall d, Forall (fun e => P (snd e)) d -> P (SDict d).
  Hypothesis HCompl : forall s, P s -> P (SCompl s).
  Hypothesis HIn : forall s t, P s -> P t -> P (SIn s t).
  Hypothesis HOr : forall s t, P s -> P t -> P (SOr s t).
  Fixpoint sel_ind' (s : sel) : P s :=
    match s with
    | SAll => HAll | SNone => HNone | SStr n => HStr n | STup q => HTup q
    | SDict d => HDict d ((fix go (d : list (nat * sel)) : Forall (fun e => P (snd e)) d :=
                             match d with
                             | [] => Forall_nil _
                             | e :: d' => Forall_cons e (sel_ind' (snd e)) (go d')
                             end) d)
    | SCompl s1 => HCompl s1 (sel_ind' s1)
    | SIn s1 s2 => HIn s1 s2 (sel_ind' s1) (sel_ind' s2)
    | SOr s1 s2 => HOr s1 s2 (sel_ind' s1) (sel_ind' s2)
    end.
End SelInd.

Lemma prefixb_is_prefix q l : prefixb q l = is_prefix q l.
Proof. revert l; induction q as [|x q IH]; destruct l; cbn; auto; rewrite IH; reflexivity. Qed.

Theorem selected_sem : forall s p, selected s (names p) = sem s p.
Proof.
  induction s as [| |n|q|d IH|s IH|s t IHs IHt|s t IHs IHt] using sel_ind'; intros p.
  - apply selected_all'.
  - apply selected_none'.
  - apply selected_str.
  - rewrite selected_tup. destruct q; auto; apply prefixb_is_prefix.
  - destruct p as [|a p]; [reflexivity|].
    unfold names. cbn [map]. rewrite selected_dict. cbn [sem].
    induction d as [|[m s'] d IHd]; [reflexivity|].
    inversion IH as [|? ? Hs Hd]; subst. cbn [dict_get].
    destruct (Nat.eqb a m); [apply Hs|apply IHd; exact Hd].
  - rewrite selected_compl, IH. reflexivity.
  - rewrite selected_in, IHs, IHt. reflexivity.
  - rewrite selected_or, IHs, IHt. reflexivity.
Qed.
