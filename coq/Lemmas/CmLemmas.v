(** CmLemmas.v — induction on choice maps, the [covers] preorder, merge lemmas. *)
From GV Require Import Model.Gfi Model.Spec.

Section CmInd.
  Variable P : cm -> Prop.
  Hypothesis Hleaf : forall v, P (CLeaf v).
  Hypothesis Hnode : forall l, Forall (fun p => P (snd p)) l -> P (CNode l).
  Fixpoint cm_ind' (x : cm) : P x :=
    match x with
    | CLeaf v => Hleaf v
    | CNode l =>
        Hnode l ((fix go (l : list (addr * cm)) : Forall (fun p => P (snd p)) l :=
                    match l with
                    | [] => Forall_nil _
                    | p :: l' => Forall_cons p (cm_ind' (snd p)) (go l')
                    end) l)
    end.
End CmInd.

Lemma lookup_In {A} a (l : list (addr * A)) x : lookup a l = Some x -> In (a, x) l.
Proof.
  induction l as [|[b y] l IH]; cbn; [discriminate|].
  destruct (addr_eqb a b) eqn:E.
  - apply addr_eqb_eq in E; subst. intros H; inversion H; auto.
  - auto.
Qed.

Lemma lookup_app {A} a (l1 l2 : list (addr * A)) :
  lookup a (l1 ++ l2) = match lookup a l1 with Some x => Some x | None => lookup a l2 end.
Proof.
  induction l1 as [|[b y] l1 IH]; cbn; [reflexivity|].
  destruct (addr_eqb a b); auto.
Qed.

Lemma lookup_filter_keep {A} (f : addr -> bool) a (l : list (addr * A)) :
  f a = true -> lookup a (filter (fun p => f (fst p)) l) = lookup a l.
Proof.
  intros Hf. induction l as [|[b y] l IH]; cbn; [reflexivity|].
  destruct (f b) eqn:Fb; cbn.
  - destruct (addr_eqb a b); auto.
  - destruct (addr_eqb a b) eqn:E; auto. apply addr_eqb_eq in E; subst. congruence.
Qed.

Lemma lookup_filter_drop {A} (f : addr -> bool) a (l : list (addr * A)) :
  f a = false -> lookup a (filter (fun p => f (fst p)) l) = None.
Proof.
  intros Hf. induction l as [|[b y] l IH]; cbn; [reflexivity|].
  destruct (f b) eqn:Fb; cbn; auto.
  destruct (addr_eqb a b) eqn:E; auto. apply addr_eqb_eq in E; subst. congruence.
Qed.

(** [covers X x]: [X] agrees with [x] on everything [x] defines. *)
Inductive covers : cm -> cm -> Prop :=
| cov_leaf v : covers (CLeaf v) (CLeaf v)
| cov_node L l :
    (forall a y, lookup a l = Some y -> exists Y, lookup a L = Some Y /\ covers Y y) ->
    covers (CNode L) (CNode l).

Lemma covers_refl x : covers x x.
Proof.
  induction x as [v|l IH] using cm_ind'; constructor.
  intros a y Hy. exists y; split; auto.
  apply lookup_In in Hy. rewrite Forall_forall in IH. exact (IH _ Hy).
Qed.

Lemma covers_get X x a y :
  covers X x -> cm_get a x = Some y -> exists Y, cm_get a X = Some Y /\ covers Y y.
Proof.
  intros H Hy. inversion H; subst; cbn in *; [discriminate|]. auto.
Qed.

(** ** Merging with a check covers the side the check selects *)

Section MergeGo.
  Variable c : bool.
  Variable ly : list (addr * cm).
  Fixpoint merge_go (lx : list (addr * cm)) : list (addr * cm) :=
    match lx with
    | [] => []
    | (a, vx) :: lx' =>
        (a, match lookup a ly with
            | Some vy => cm_merge_chk c vx vy
            | None => vx
            end) :: merge_go lx'
    end.
  Lemma lookup_merge_go a lx :
    lookup a (merge_go lx) =
    match lookup a lx with
    | Some vx => Some (match lookup a ly with Some vy => cm_merge_chk c vx vy | None => vx end)
    | None => None
    end.
  Proof.
    induction lx as [|[b vx] lx IH]; cbn; [reflexivity|].
    destruct (addr_eqb a b) eqn:E; auto.
    apply addr_eqb_eq in E; subst. reflexivity.
  Qed.
End MergeGo.

Lemma cm_merge_node c lx ly :
  cm_merge_chk c (CNode lx) (CNode ly) =
  CNode (merge_go c ly lx ++ filter (fun p => negb (mem (fst p) lx)) ly).
Proof. reflexivity. Qed.

Lemma merge_covers_left x : forall y, covers (cm_merge_chk true x y) x.
Proof.
  induction x as [v|lx IH] using cm_ind'; intros y.
  - destruct y; cbn; apply covers_refl.
  - destruct y as [w|ly]; [cbn; apply covers_refl|].
    rewrite cm_merge_node. constructor. intros a vx Hx.
    rewrite lookup_app, lookup_merge_go, Hx.
    eexists; split; [reflexivity|].
    apply lookup_In in Hx. rewrite Forall_forall in IH. specialize (IH _ Hx). cbn in IH.
    destruct (lookup a ly); [apply IH|apply covers_refl].
Qed.

Lemma merge_covers_right x : forall y, covers (cm_merge_chk false x y) y.
Proof.
  induction x as [v|lx IH] using cm_ind'; intros y.
  - destruct y; cbn; apply covers_refl.
  - destruct y as [w|ly]; [cbn; apply covers_refl|].
    rewrite cm_merge_node. constructor. intros a vy Hy.
    rewrite lookup_app, lookup_merge_go.
    destruct (lookup a lx) as [vx|] eqn:Hx.
    + rewrite Hy. eexists; split; [reflexivity|].
      apply lookup_In in Hx. rewrite Forall_forall in IH. exact (IH _ Hx vy).
    + rewrite (lookup_filter_keep (fun b => negb (mem b lx))).
      * exists vy; split; auto. apply covers_refl.
      * unfold mem. rewrite Hx. reflexivity.
Qed.

(** ** The spec only reads what it needs *)

Lemma sites_covers :
  forall g x args l r, gf_sites g x args = Ok (l, r) ->
  forall X, covers X x -> gf_sites g X args = Ok (l, r).
Proof.
  intros g.
  apply (gf_mind
           (fun g => forall x args l r, gf_sites g x args = Ok (l, r) ->
                     forall X, covers X x -> gf_sites g X args = Ok (l, r))
           (fun p => forall x l r, run_sites p x = Ok (l, r) ->
                     forall X, covers X x -> run_sites p X = Ok (l, r))).
  - intros d x args l r H X HX. cbn in *. destruct x; [|discriminate].
    inversion HX; subst. exact H.
  - intros body IH x args l r H X HX. cbn in *. eapply IH; eauto.
  - intros g1 IH1 g2 IH2 x args l r H X HX. cbn in *.
    destruct (cond_args args) as [[c rest]|]; cbn in *; [|discriminate].
    destruct c; eauto.
  - intros v x l r H X HX. exact H.
  - intros a g0 IHg args k IHk x l r H X HX. cbn in *.
    destruct (cm_get a x) as [xa|] eqn:Hxa; [|discriminate].
    destruct (covers_get _ _ _ _ HX Hxa) as [Xa [HXa Hc]]. rewrite HXa.
    destruct (gf_sites g0 xa args) as [[l1 r1]|] eqn:H1; cbn in H; [|discriminate].
    rewrite (IHg _ _ _ _ H1 _ Hc). cbn.
    destruct (run_sites (k r1) x) as [[l2 v]|] eqn:H2; cbn in H; [|discriminate].
    rewrite (IHk _ _ _ _ H2 _ HX). cbn. exact H.
  - intros e x l r H. discriminate.
Qed.

Lemma total_app l1 l2 : total (l1 ++ l2) = total l1 + total l2.
Proof.
  unfold total. rewrite map_app. induction (map snd l1); cbn; lia.
Qed.

Lemma total_map_prefix a l : total (map (fun q : path * Z => (a :: fst q, snd q)) l) = total l.
Proof.
  unfold total. rewrite map_map. cbn. reflexivity.
Qed.

Lemma covers_trans z : forall y x, covers y z -> covers x y -> covers x z.
Proof.
  induction z as [v|l IH] using cm_ind'; intros y x Hyz Hxy.
  - inversion Hyz; subst. inversion Hxy; subst. constructor.
  - inversion Hyz as [|L l0 HL]; subst. inversion Hxy as [|LL l1 HLL]; subst.
    constructor. intros a y0 Hy0.
    destruct (HL _ _ Hy0) as [Y1 [HY1 C1]].
    destruct (HLL _ _ HY1) as [Y2 [HY2 C2]].
    exists Y2; split; auto.
    apply lookup_In in Hy0. rewrite Forall_forall in IH. exact (IH _ Hy0 _ _ C1 C2).
Qed.
