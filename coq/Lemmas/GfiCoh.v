(** GfiCoh.v — structural coherence of traces and its consequences (C01). *)
From GV Require Import Model.Gfi Model.Spec Lemmas.CmLemmas.

(** [SC g args t]: [t] is a complete, faithful record of an execution of [g]
    on [args] (both branches of every Cond), with scores equal to minus the
    log densities of the recorded values. *)
Inductive SC : gf -> value -> tr -> Prop :=
| SC_dist d args x : SC (GDist d) args (TrD args x (- logpdf d x args))
| SC_fn body args m r s :
    SCP (body args) [] 0 m s r -> SC (GFn body) args (TrFn args m r s)
| SC_cond g1 g2 args c rest t1 t2 :
    cond_args args = Ok (c, rest) -> SC g1 rest t1 -> SC g2 rest t2 ->
    SC (GCond g1 g2) args (TrCond c t1 t2)
with SCP : prog -> list (addr * tr) -> Z -> list (addr * tr) -> Z -> value -> Prop :=
| SCP_ret v m s : SCP (Ret v) m s m s v
| SCP_call a g args k m0 s0 t m s r :
    mem a m0 = false -> SC g args t ->
    SCP (k (get_retval t)) ((a, t) :: m0) (s0 + get_score t) m s r ->
    SCP (Call a g args k) m0 s0 m s r.

Scheme SC_mind := Induction for SC Sort Prop
  with SCP_mind := Induction for SCP Sort Prop.

(** ** simulate produces structurally coherent traces *)

Theorem simulate_SC : forall g args t, reach (gf_simulate g args) t -> SC g args t.
Proof.
  intros g.
  apply (gf_mind
           (fun g => forall args t, reach (gf_simulate g args) t -> SC g args t)
           (fun p => forall st v st', reach (run_simulate p st) (v, st') ->
                     SCP p (s_map st) (s_score st) (s_map st') (s_score st') v)).
  - intros d args t H. cbn in H. unfold Distribution_simulate in H.
    inversion H; subst. apply reach_ret in H4. subst. constructor.
  - intros body IH args t H. cbn in H.
    apply reach_bind in H as [[r st] [H1 H2]]. apply reach_ret in H2; subst.
    constructor. exact (IH args _ _ _ H1).
  - intros g1 IH1 g2 IH2 args t H. cbn in H.
    apply reach_bind in H as [[c rest] [Hc H]]. apply reach_lift in Hc.
    apply reach_bind in H as [t1 [H1 H]].
    apply reach_bind in H as [t2 [H2 H]]. apply reach_ret in H; subst.
    econstructor; eauto.
  - intros v st v' st' H. cbn in H. apply reach_ret in H. inversion H; subst. constructor.
  - intros a g0 IHg args k IHk st v st' H. cbn in H.
    apply reach_bind in H as [[r st1] [H1 H2]].
    unfold Simulate_call in H1. destruct (mem a (s_map st)) eqn:Hm; [inversion H1|].
    apply reach_bind in H1 as [t1 [Ht1 H1]]. apply reach_ret in H1. inversion H1; subst.
    econstructor; eauto. exact (IHk _ _ _ _ H2).
  - intros e st v st' H. inversion H.
Qed.

(** ** the handler's trace map only grows *)

Lemma SCP_extends p m0 s0 m s r :
  SCP p m0 s0 m s r -> forall a t, lookup a m0 = Some t -> lookup a m = Some t.
Proof.
  induction 1 as [|a g args k m0 s0 t m s r Hm Hsc Hk IH]; intros b tb Hb; auto.
  apply IH. cbn. destruct (addr_eqb b a) eqn:E; auto.
  apply addr_eqb_eq in E; subst. unfold mem in Hm. rewrite Hb in Hm. discriminate.
Qed.

Lemma lookup_cmap a m : lookup a (cmap m) = option_map choices (lookup a m).
Proof.
  induction m as [|[b t] m IH]; cbn; [reflexivity|]. destruct (addr_eqb a b); auto.
Qed.

Lemma choices_fn args m r s : choices (TrFn args m r s) = CNode (cmap m).
Proof. cbn. f_equal. Qed.

(** ** a structurally coherent trace is coherent w.r.t. the specification *)

Definition Coh (g : gf) (args : value) (t : tr) : Prop :=
  exists l, gf_sites g (choices t) args = Ok (l, get_retval t) /\ total l = - get_score t.

Theorem SC_coherent : forall g args t, SC g args t -> Coh g args t.
Proof.
  apply (SC_mind
           (fun g args t _ => Coh g args t)
           (fun p m0 s0 m s r _ =>
              forall X, (forall a t, lookup a m = Some t ->
                                     exists Y, cm_get a X = Some Y /\ covers Y (choices t)) ->
                        exists l, run_sites p X = Ok (l, r) /\ total l = - (s - s0))).
  - intros d args x. exists [([], logpdf d x args)]. cbn. split; [reflexivity|]. unfold total; cbn. lia.
  - intros body args m r s _ IH. unfold Coh. rewrite choices_fn. cbn [gf_sites get_retval get_score].
    destruct (IH (CNode (cmap m))) as [l [Hl Ht]].
    + intros a t Ht. cbn. rewrite lookup_cmap, Ht. cbn. eexists; split; [reflexivity|apply covers_refl].
    + exists l; split; auto. lia.
  - intros g1 g2 args c rest t1 t2 Hc _ [l1 [H1 T1]] _ [l2 [H2 T2]].
    unfold Coh. cbn. rewrite Hc. cbn.
    destruct c.
    + exists l1; split; auto. eapply sites_covers; [exact H1|apply merge_covers_left].
    + exists l2; split; auto. eapply sites_covers; [exact H2|apply merge_covers_right].
  - intros v m s X HX. exists []. cbn. split; [reflexivity|]. unfold total; cbn. lia.
  - intros a g args k m0 s0 t m s r Hm Hsc [l1 [H1 T1]] Hk IH X HX.
    cbn [run_sites].
    assert (Hl : lookup a m = Some t).
    { eapply SCP_extends; [exact Hk|]. cbn. rewrite addr_eqb_refl. reflexivity. }
    destruct (HX _ _ Hl) as [Y [HY Hcov]]. rewrite HY.
    rewrite (sites_covers _ _ _ _ _ H1 _ Hcov). cbn.
    destruct (IH X HX) as [l2 [H2 T2]]. rewrite H2. cbn.
    eexists; split; [reflexivity|].
    rewrite total_app, total_map_prefix. lia.
Qed.

(** ** assess computes the specification density *)

Theorem assess_sites : forall g x args w r,
    gf_assess g x args = Ok (w, r) ->
    exists l, gf_sites g x args = Ok (l, r) /\ total l = w.
Proof.
  intros g.
  apply (gf_mind
           (fun g => forall x args w r, gf_assess g x args = Ok (w, r) ->
                     exists l, gf_sites g x args = Ok (l, r) /\ total l = w)
           (fun p => forall X st v st', run_assess p X st = Ok (v, st') ->
                     exists l, run_sites p X = Ok (l, v) /\ total l = a_logp st' - a_logp st)).
  - intros d x args w r H. cbn in *. unfold Distribution_assess in H.
    destruct x; [|discriminate]. inversion H; subst.
    eexists; split; [reflexivity|]. unfold total; cbn. lia.
  - intros body IH x args w r H. cbn in *.
    destruct (run_assess (body args) x _) as [[r' st]|] eqn:E; cbn in H; [|discriminate].
    inversion H; subst. destruct (IH _ _ _ _ _ E) as [l [Hl Ht]].
    exists l; split; auto. cbn in Ht. lia.
  - intros g1 IH1 g2 IH2 x args w r H. cbn in *.
    destruct (cond_args args) as [[c rest]|]; cbn in *; [|discriminate].
    destruct (gf_assess g1 x rest) as [[lp1 r1]|] eqn:E1; cbn in H; [|discriminate].
    destruct (gf_assess g2 x rest) as [[lp2 r2]|] eqn:E2; cbn in H; [|discriminate].
    inversion H; subst. destruct c; eauto.
  - intros v X st v' st' H. cbn in H. inversion H; subst.
    exists []; split; [reflexivity|]. unfold total; cbn. lia.
  - intros a g0 IHg args k IHk X st v st' H. cbn in H.
    unfold Assess_call in H.
    destruct (existsb (addr_eqb a) (a_visited st)); cbn in H; [discriminate|].
    cbn [run_sites].
    destruct (cm_get a X) as [x|]; cbn in H; [|discriminate].
    destruct (gf_assess g0 x args) as [[lp r]|] eqn:E; cbn in H; [|discriminate].
    destruct (IHg _ _ _ _ E) as [l1 [H1 T1]]. rewrite H1. cbn.
    destruct (IHk _ _ _ _ _ H) as [l2 [H2 T2]]. rewrite H2. cbn.
    eexists; split; [reflexivity|].
    rewrite total_app, total_map_prefix. cbn in T2. lia.
  - intros e X st v st' H. discriminate.
Qed.

(** ** an address used twice at one level raises in every run *)

Lemma simulate_collision a g1 args1 g2 args2 k st :
  forall res, ~ reach (run_simulate (Call a g1 args1 (fun r => Call a g2 (args2 r) (k r))) st) res.
Proof.
  intros res H. cbn in H.
  apply reach_bind in H as [[r st1] [H1 H2]].
  unfold Simulate_call in H1. destruct (mem a (s_map st)); [inversion H1|].
  apply reach_bind in H1 as [t1 [_ H1]]. apply reach_ret in H1. inversion H1; subst.
  apply reach_bind in H2 as [[r2 st2] [H2 _]].
  unfold Simulate_call in H2. cbn in H2. unfold mem in H2. cbn in H2.
  rewrite addr_eqb_refl in H2. inversion H2.
Qed.

Lemma assess_collision a g1 args1 g2 args2 k X st :
  exists e, run_assess (Call a g1 args1 (fun r => Call a g2 (args2 r) (k r))) X st = Err e.
Proof.
  cbn. unfold Assess_call at 1.
  destruct (existsb (addr_eqb a) (a_visited st)); [eexists; reflexivity|].
  destruct (cm_get a X) as [x|]; [|eexists; reflexivity]. cbn.
  destruct (gf_assess g1 x args1) as [[lp r]|]; [|eexists; reflexivity]. cbn.
  unfold Assess_call. cbn. rewrite addr_eqb_refl. cbn. eexists; reflexivity.
Qed.
