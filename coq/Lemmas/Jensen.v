(** Jensen.v — the evidence lower bound lies below the log evidence (C17), finite discrete case.

    For a latent with finitely many values z_1..z_n, a variational family giving them masses
    q_i > 0 with sum 1, and joint masses p_i = p(x, z_i) > 0:

        sum_i q_i * ln (p_i / q_i)  <=  ln (sum_i p_i)  =  ln p(x)

    (Gibbs' inequality, from ln t <= t - 1), with equality when q is the exact posterior
    q_i = p_i / p(x).  Real-number axioms of the standard library only. *)
From Coq Require Import Reals List Lra.
Import ListNotations.
Open Scope R_scope.

Definition rsum {A} (f : A -> R) (l : list A) : R := fold_right (fun a acc => f a + acc) 0 l.

Lemma rsum_cons {A} (f : A -> R) a l : rsum f (a :: l) = f a + rsum f l.
Proof. reflexivity. Qed.

Lemma rsum_le {A} (f g : A -> R) l : Forall (fun a => f a <= g a) l -> rsum f l <= rsum g l.
Proof.
  induction 1 as [|a l Ha _ IH]; [cbn; lra|]. rewrite !rsum_cons. lra.
Qed.

Lemma rsum_lin {A} (c : R) (f g : A -> R) l : rsum (fun a => c * f a + g a) l = c * rsum f l + rsum g l.
Proof. induction l as [|a l IH]; [cbn; lra|]. rewrite !rsum_cons, IH. lra. Qed.

Lemma rsum_ext {A} (f g : A -> R) l : Forall (fun a => f a = g a) l -> rsum f l = rsum g l.
Proof. induction 1 as [|a l Ha _ IH]; [reflexivity|]. rewrite !rsum_cons, Ha, IH. reflexivity. Qed.

Lemma ln_le_minus_one t : 0 < t -> ln t <= t - 1.
Proof.
  intros Ht. pose proof (exp_ineq1_le (ln t)) as H. rewrite exp_ln in H by exact Ht. lra.
Qed.

Lemma rsum_pos {A} (f : A -> R) l : l <> [] -> Forall (fun a => 0 < f a) l -> 0 < rsum f l.
Proof.
  intros Hne H. induction H as [|a l Ha Hl IH]; [congruence|]. rewrite rsum_cons.
  destruct l as [|b l']; [cbn; lra|]. assert (0 < rsum f (b :: l')) by (apply IH; discriminate). lra.
Qed.

(** l : the support, as pairs (q_i, p_i) *)
Theorem elbo_le_log_evidence (l : list (R * R)) :
  l <> [] ->
  Forall (fun qp => 0 < fst qp /\ 0 < snd qp) l ->
  rsum fst l = 1 ->
  rsum (fun qp => fst qp * ln (snd qp / fst qp)) l <= ln (rsum snd l).
Proof.
  intros Hne Hpos Hq.
  set (P := rsum snd l).
  assert (HP : 0 < P).
  { apply rsum_pos; [exact Hne|]. eapply Forall_impl; [|exact Hpos]. intros a [_ H]; exact H. }
  (* termwise: q (ln (p/q) - ln P) <= p / P - q *)
  assert (Hterm : Forall (fun qp : R * R => fst qp * ln (snd qp / fst qp) + (- ln P) * fst qp
                                         <= / P * snd qp + (-1) * fst qp) l).
  { eapply Forall_impl; [|exact Hpos]. intros [q p] [Hq0 Hp0]. cbn [fst snd] in *.
    assert (Ht : 0 < p / (q * P)).
    { apply Rdiv_lt_0_compat; [exact Hp0|]. apply Rmult_lt_0_compat; assumption. }
    pose proof (ln_le_minus_one _ Ht) as Hl.
    assert (E : ln (p / (q * P)) = ln (p / q) - ln P).
    { replace (p / (q * P)) with ((p / q) * / P) by (field; lra).
      rewrite ln_mult; [|apply Rdiv_lt_0_compat; assumption|apply Rinv_0_lt_compat; exact HP].
      rewrite ln_Rinv by exact HP. lra. }
    rewrite E in Hl.
    assert (Hm : q * (ln (p / q) - ln P) <= q * (p / (q * P) - 1)) by (apply Rmult_le_compat_l; lra).
    replace (q * (p / (q * P) - 1)) with (/ P * p + -1 * q) in Hm by (field; lra).
    lra. }
  apply rsum_le in Hterm.
  rewrite (rsum_ext (fun qp : R * R => fst qp * ln (snd qp / fst qp) + - ln P * fst qp)
                    (fun qp => 1 * (fst qp * ln (snd qp / fst qp)) + (- ln P) * fst qp)) in Hterm
    by (apply Forall_forall; intros; lra).
  rewrite (rsum_lin 1 (fun qp : R * R => fst qp * ln (snd qp / fst qp)) (fun qp => - ln P * fst qp)) in Hterm.
  rewrite (rsum_ext (fun qp : R * R => - ln P * fst qp) (fun qp => (- ln P) * fst qp + 0)) in Hterm
    by (apply Forall_forall; intros; lra).
  rewrite (rsum_lin (- ln P) fst (fun _ => 0)) in Hterm.
  rewrite (rsum_lin (/ P) snd (fun qp => -1 * fst qp)) in Hterm.
  rewrite (rsum_ext (fun qp : R * R => -1 * fst qp) (fun qp => (-1) * fst qp + 0)) in Hterm
    by (apply Forall_forall; intros; lra).
  rewrite (rsum_lin (-1) fst (fun _ => 0)) in Hterm.
  assert (Z0 : rsum (fun _ : R * R => 0) l = 0).
  { clear. induction l as [|a l IH]; [reflexivity|]. rewrite rsum_cons, IH. lra. }
  rewrite Z0, Hq in Hterm. fold P in Hterm.
  replace (/ P * P) with 1 in Hterm by (field; lra).
  fold P. lra.
Qed.

(** tight at the exact posterior q_i = p_i / p(x) *)
Theorem elbo_tight_at_posterior (ps : list R) :
  ps <> [] -> Forall (fun p => 0 < p) ps ->
  let P := rsum (fun p => p) ps in
  rsum (fun p => (p / P) * ln (p / (p / P))) ps = ln P.
Proof.
  intros Hne Hpos P.
  assert (HP : 0 < P) by (apply rsum_pos; assumption).
  rewrite (rsum_ext _ (fun p => (ln P * / P) * p + 0)).
  - rewrite (rsum_lin (ln P * / P) (fun p => p) (fun _ => 0)).
    assert (Z0 : rsum (fun _ : R => 0) ps = 0).
    { clear. induction ps as [|a l IH]; [reflexivity|]. rewrite rsum_cons, IH. lra. }
    rewrite Z0. fold P. field. lra.
  - eapply Forall_impl; [|exact Hpos]. intros p Hp. cbn beta.
    replace (p / (p / P)) with P by (field; lra). field. lra.
Qed.
