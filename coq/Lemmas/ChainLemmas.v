From Coq Require Import List Arith Lia Bool.
Import ListNotations.
From GV Require Import Model.Chain.

Lemma arange_aux_nth fuel : forall start stop step i,
    1 <= step -> stop <= start + fuel ->
    nth_error (arange_aux fuel start stop step) i =
    if start + i * step <? stop then Some (start + i * step) else None.
Proof.
  induction fuel as [|f IH]; intros start stop step i Hs Hf; cbn [arange_aux].
  - assert (E : (start + i * step <? stop) = false) by (apply Nat.ltb_ge; nia).
    rewrite E. destruct i; reflexivity.
  - destruct (start <? stop) eqn:E.
    + destruct i as [|i]; cbn [nth_error].
      * rewrite Nat.mul_0_l, Nat.add_0_r, E. reflexivity.
      * rewrite IH by lia.
        replace (start + step + i * step) with (start + Datatypes.S i * step) by lia. reflexivity.
    + apply Nat.ltb_ge in E.
      assert (E2 : (start + i * step <? stop) = false) by (apply Nat.ltb_ge; nia).
      rewrite E2. destruct i; reflexivity.
Qed.

Lemma arange_nth start stop step i :
  1 <= step ->
  nth_error (arange start stop step) i =
  if start + i * step <? stop then Some (start + i * step) else None.
Proof. intros. unfold arange. apply arange_aux_nth; lia. Qed.

(** number of retained steps = ceil((n - burn) / thin) *)
Lemma arange_length start stop step :
  1 <= step -> length (arange start stop step) = (stop - start + step - 1) / step.
Proof.
  intros Hs. set (k := (stop - start + step - 1) / step).
  assert (Hk1 : nth_error (arange start stop step) k = None).
  { rewrite arange_nth by lia. destruct (_ <? stop) eqn:E; auto. apply Nat.ltb_lt in E.
    exfalso. unfold k in E.
    pose proof (Nat.div_mod (stop - start + step - 1) step ltac:(lia)).
    pose proof (Nat.mod_upper_bound (stop - start + step - 1) step ltac:(lia)). nia. }
  apply nth_error_None in Hk1.
  destruct (Nat.eq_dec k 0) as [Hz|Hz].
  - lia.
  - assert (Hk2 : nth_error (arange start stop step) (k - 1) <> None).
    { rewrite arange_nth by lia. destruct (_ <? stop) eqn:E; [discriminate|]. apply Nat.ltb_ge in E.
      exfalso. unfold k in *.
      pose proof (Nat.div_mod (stop - start + step - 1) step ltac:(lia)).
      pose proof (Nat.mod_upper_bound (stop - start + step - 1) step ltac:(lia)). nia. }
    apply nth_error_Some in Hk2. lia.
Qed.

Section ChainThm.
  Variable S R : Type.
  Variable kernel : S -> R -> S * bool.
  Variable dS : S.

  Lemma run_length s rs : length (run kernel s rs) = length rs.
  Proof. revert s; induction rs as [|r rs IH]; intros s; cbn; auto. destruct (kernel s r). cbn. auto. Qed.

  Lemma run_nth : forall rs s j, j < length rs ->
      nth j (map fst (run kernel s rs)) dS = iterate kernel s rs (Datatypes.S j).
  Proof.
    induction rs as [|r rs IH]; intros s j Hj; cbn in *; [lia|].
    destruct (kernel s r) as [s' a] eqn:E. cbn.
    destruct j as [|j]; cbn.
    - destruct rs; reflexivity.
    - rewrite IH by lia. reflexivity.
  Qed.

  Lemma run_nth_snd : forall rs s j r, nth_error rs j = Some r ->
      nth j (map snd (run kernel s rs)) false = snd (kernel (iterate kernel s rs j) r).
  Proof.
    induction rs as [|r0 rs IH]; intros s j r Hj; [destruct j; discriminate|].
    cbn [run]. destruct (kernel s r0) as [s' a] eqn:E. cbn [map nth snd].
    destruct j as [|j]; cbn in Hj.
    - inversion Hj; subst. cbn. rewrite E. reflexivity.
    - cbn [iterate]. rewrite E. cbn [fst]. apply IH. exact Hj.
  Qed.

  (** accepts[i] reports whether the retained step was accepted *)
  Theorem chain_accepts init rs burn thin i r :
    1 <= thin -> nth_error rs (burn + i * thin) = Some r ->
    nth_error (r_accepts (chain kernel dS init rs burn thin)) i
    = Some (snd (kernel (iterate kernel init rs (burn + i * thin)) r)).
  Proof.
    intros Ht Hr. assert (Hi : burn + i * thin < length rs) by (apply nth_error_Some; congruence).
    unfold chain, select. cbn [r_accepts].
    rewrite nth_error_map, arange_nth by lia.
    destruct (_ <? length rs) eqn:E; [|apply Nat.ltb_ge in E; lia]. cbn.
    rewrite (run_nth_snd _ _ _ _ Hr). reflexivity.
  Qed.

  (** traces[i] is the state after burn + i*thin + 1 kernel steps; n_steps
      counts the retained states. *)
  Theorem chain_states init rs burn thin i :
    1 <= thin -> burn + i * thin < length rs ->
    nth_error (r_states (chain kernel dS init rs burn thin)) i
    = Some (iterate kernel init rs (Datatypes.S (burn + i * thin))).
  Proof.
    intros Ht Hi. unfold chain, select. cbn [r_states].
    rewrite nth_error_map, arange_nth by lia.
    destruct (_ <? length rs) eqn:E; [|apply Nat.ltb_ge in E; lia]. cbn.
    rewrite run_nth by lia. reflexivity.
  Qed.

  Theorem chain_n init rs burn thin :
    1 <= thin -> r_n (chain kernel dS init rs burn thin) = (length rs - burn + thin - 1) / thin.
  Proof. intros. unfold chain. cbn. apply arange_length; lia. Qed.

  (** thinned run = that slice of the un-thinned run (same randomness) *)
  Theorem chain_is_slice init rs burn thin i :
    1 <= thin -> burn + i * thin < length rs ->
    nth_error (r_states (chain kernel dS init rs burn thin)) i
    = nth_error (r_states (chain kernel dS init rs 0 1)) (burn + i * thin)
    /\ nth_error (r_accepts (chain kernel dS init rs burn thin)) i
       = nth_error (r_accepts (chain kernel dS init rs 0 1)) (burn + i * thin).
  Proof.
    intros Ht Hi. split.
    - rewrite chain_states by lia.
      pose proof (chain_states init rs 0 1 (burn + i * thin) ltac:(lia) ltac:(lia)) as H.
      rewrite H. f_equal. f_equal. lia.
    - unfold chain, select. cbn [r_accepts].
      rewrite !nth_error_map, !arange_nth by lia.
      destruct (burn + i * thin <? length rs) eqn:E; [|apply Nat.ltb_ge in E; lia].
      replace (0 + (burn + i * thin) * 1) with (burn + i * thin) by lia. rewrite E. reflexivity.
  Qed.

  Theorem chain_rate init rs burn thin :
    r_accepted (chain kernel dS init rs burn thin)
    = count_true (r_accepts (chain kernel dS init rs burn thin))
    /\ length (r_accepts (chain kernel dS init rs burn thin)) = r_n (chain kernel dS init rs burn thin)
    /\ length (r_states (chain kernel dS init rs burn thin)) = r_n (chain kernel dS init rs burn thin).
  Proof. unfold chain, select; cbn. rewrite !map_length. auto. Qed.
End ChainThm.
