(** GfiUpd.v — update (C03): the new trace is structurally coherent under the
    new arguments; the weight is the score difference (density ratio). *)
From GV Require Import Model.Gfi Model.Spec Lemmas.CmLemmas Lemmas.GfiCoh.

(** ** coherence of the updated trace — for every program, trace, constraint and
    new arguments on which update is defined *)
Theorem update_SC : forall g t x args t' w d,
    gf_update g t x args = Ok (t', w, d) -> SC g args t'.
Proof.
  intros g.
  apply (gf_mind
     (fun g => forall t x args t' w d, gf_update g t x args = Ok (t', w, d) -> SC g args t')
     (fun p => forall old oldc X st v st',
        run_update p old oldc X st = Ok (v, st') ->
        SCP p (u_map st) (u_score st) (u_map st') (u_score st') v)).
  - intros d t x args t' w dd H. cbn in H. unfold Distribution_update in H.
    destruct (match x with Some x' => x' | None => choices t end); [|discriminate].
    inversion H; subst. constructor.
  - intros body IH t x args t' w d H. cbn in H.
    destruct t as [| a0 old r0 s0 |]; try discriminate.
    destruct (match x with Some X => X | None => CNode [] end) as [|LX] eqn:EX; [discriminate|].
    destruct (run_update (body args) old _ (CNode LX) _) as [[r st]|] eqn:E; cbn in H; [|discriminate].
    inversion H; subst. constructor. exact (IH _ _ _ _ _ _ _ E).
  - intros g1 IH1 g2 IH2 t x args t' w d H. cbn in H.
    destruct (cond_args args) as [[c rest]|] eqn:Hc; cbn in H; [|discriminate].
    destruct t as [| | c0 t1 t2]; try discriminate.
    destruct (gf_update g1 t1 x rest) as [[[t1' w1] d1]|] eqn:E1; cbn in H; [|discriminate].
    destruct (gf_update g2 t2 x rest) as [[[t2' w2] d2]|] eqn:E2; cbn in H; [|discriminate].
    inversion H; subst. econstructor; eauto.
  - intros v old oldc X st v' st' H. cbn in H. inversion H; subst. constructor.
  - intros a g0 IHg args k IHk old oldc X st v st' H. cbn [run_update] in H.
    destruct (Update_call (gf_update g0) old oldc X st a args) as [[r st1]|] eqn:E; cbn in H; [|discriminate].
    unfold Update_call in E. destruct (mem a (u_map st)) eqn:Hm; [discriminate|].
    destruct (lookup a old) as [sub|]; [|discriminate].
    destruct (match cm_get a X with Some x => Some x | None => cm_get a oldc end) as [x|]; [|discriminate].
    destruct (gf_update g0 sub (Some x) args) as [[[t1 w1] d1]|] eqn:E1; cbn in E; [|discriminate].
    inversion E; subst. econstructor; eauto. eapply (IHk _ _ _ _ _ _ _ H).
  - intros e old oldc X st v st' H. discriminate.
Qed.

(** ** weight = old score - new score *)

(** Well-scored traces: a function trace's score is the sum of its sub-trace
    scores, addresses are unique.  (Every trace built by simulate / generate /
    update / regenerate is well-scored: [SC_WS].) *)
Fixpoint sum_scores (m : list (addr * tr)) : Z :=
  match m with [] => 0 | (_, t) :: m' => get_score t + sum_scores m' end.

Inductive WS : tr -> Prop :=
| WS_d args x s : WS (TrD args x s)
| WS_fn args m r s :
    s = sum_scores m -> NoDup (map fst m) -> (forall a t, In (a, t) m -> WS t) ->
    WS (TrFn args m r s)
| WS_cond c t1 t2 : WS t1 -> WS t2 -> WS (TrCond c t1 t2).

Lemma mem_false_notin {A} a (m : list (addr * A)) : mem a m = false -> ~ In a (map fst m).
Proof.
  unfold mem. induction m as [|[b y] m IH]; cbn; [tauto|].
  destruct (addr_eqb a b) eqn:E; [discriminate|].
  intros H [Hb|Hin]; [subst; rewrite addr_eqb_refl in E; discriminate|]. exact (IH H Hin).
Qed.

Lemma SCP_WS p m0 s0 m s r :
  SCP p m0 s0 m s r ->
  (forall g args t, SC g args t -> WS t) ->
  s0 = sum_scores m0 -> NoDup (map fst m0) -> (forall a t, In (a, t) m0 -> WS t) ->
  s = sum_scores m /\ NoDup (map fst m) /\ (forall a t, In (a, t) m -> WS t).
Proof.
  intros H Hsc. induction H as [|a g args k m0 s0 t m s r Hm Hs Hk IH]; intros E ND HW; auto.
  apply IH.
  - cbn. lia.
  - cbn. constructor; auto. apply mem_false_notin; exact Hm.
  - intros b tb [Hb|Hb]; [inversion Hb; subst; eapply Hsc; eauto|eauto].
Qed.

Theorem SC_WS : forall g args t, SC g args t -> WS t.
Proof.
  apply (SC_mind (fun g args t _ => WS t)
                 (fun p m0 s0 m s r _ =>
                    s0 = sum_scores m0 -> NoDup (map fst m0) -> (forall a t, In (a, t) m0 -> WS t) ->
                    s = sum_scores m /\ NoDup (map fst m) /\ (forall a t, In (a, t) m -> WS t))).
  - constructor.
  - intros body args m r s _ IH.
    specialize (IH eq_refl (NoDup_nil _) (fun a t (H : In (a, t) []) => match H with end)).
    destruct IH as [E [ND HW]]. constructor; auto.
  - intros; constructor; auto.
  - auto.
  - intros a g args k m0 s0 t m s r Hm _ IHt _ IHk E ND HW. apply IHk.
    + cbn. lia.
    + cbn. constructor; auto. apply mem_false_notin; exact Hm.
    + intros b tb [Hb|Hb]; [inversion Hb; subst; exact IHt|eauto].
Qed.

(** Same address skeleton (same addresses in the same recorded order, recursively). *)
Fixpoint same_shape (t t' : tr) {struct t} : bool :=
  match t, t' with
  | TrD _ _ _, TrD _ _ _ => true
  | TrFn _ m _ _, TrFn _ m' _ _ =>
      (fix go (m m' : list (addr * tr)) : bool :=
         match m, m' with
         | [], [] => true
         | (a, x) :: m1, (b, y) :: m1' => addr_eqb a b && same_shape x y && go m1 m1'
         | _, _ => false
         end) m m'
  | TrCond _ t1 t2, TrCond _ t1' t2' => same_shape t1 t1' && same_shape t2 t2'
  | _, _ => false
  end.

Fixpoint same_shape_maps (m m' : list (addr * tr)) : bool :=
  match m, m' with
  | [], [] => true
  | (a, x) :: m1, (b, y) :: m1' => addr_eqb a b && same_shape x y && same_shape_maps m1 m1'
  | _, _ => false
  end.
Lemma same_shape_fn a m r s a' m' r' s' :
  same_shape (TrFn a m r s) (TrFn a' m' r' s') = same_shape_maps m m'.
Proof. cbn. revert m'. induction m as [|[x y] m IH]; destruct m' as [|[x' y'] m']; cbn; auto; try (rewrite IH; auto). Qed.

Lemma lookup_nodup_head {A} a (x : A) m : lookup a ((a, x) :: m) = Some x.
Proof. cbn. rewrite addr_eqb_refl. reflexivity. Qed.

Lemma lookup_In_nodup {A} (m : list (addr * A)) a x :
  NoDup (map fst m) -> In (a, x) m -> lookup a m = Some x.
Proof.
  induction m as [|[b y] m IH]; cbn; intros ND Hin; [tauto|].
  inversion ND; subst. destruct Hin as [Hin|Hin].
  - inversion Hin; subst. rewrite addr_eqb_refl. reflexivity.
  - destruct (addr_eqb a b) eqn:E; [|auto].
    apply addr_eqb_eq in E; subst. exfalso. apply H1. apply in_map_iff. exists (b, x); auto.
Qed.

(** The update of a function body, seen as a list: every new entry was
    produced from the old entry at the same address. *)
Theorem update_weight : forall g t x args t' w d,
    gf_update g t x args = Ok (t', w, d) -> WS t -> same_shape t t' = true ->
    w = get_score t - get_score t'.
Proof.
  intros g.
  apply (gf_mind
     (fun g => forall t x args t' w d,
        gf_update g t x args = Ok (t', w, d) -> WS t -> same_shape t t' = true ->
        w = get_score t - get_score t')
     (fun p => forall old oldc X st v st',
        run_update p old oldc X st = Ok (v, st') ->
        (forall a t, In (a, t) old -> WS t) ->
        (* the entries added by this run, newest first *)
        exists added, u_map st' = added ++ u_map st /\
          ((forall a t', In (a, t') added -> exists t, lookup a old = Some t /\
                                                      (same_shape t t' = true -> True)) ->
           True) /\
          (forall tail, (* if the added entries line up with a segment of old *)
              forall seg, same_shape_maps seg added = true ->
              (forall a t, In (a, t) seg -> lookup a old = Some t) ->
              u_weight st' - u_weight st = sum_scores seg - sum_scores added /\
              u_score st' - u_score st = sum_scores added + 0 * tail))).
  - intros d t x args t' w dd H _ _. cbn in H. unfold Distribution_update in H.
    destruct (match x with Some x' => x' | None => choices t end); [|discriminate].
    inversion H; subst. cbn. lia.
  - intros body IH t x args t' w d H HW Hs. cbn in H.
    destruct t as [| a0 old r0 s0 |]; try discriminate.
    destruct (match x with Some X => X | None => CNode [] end) as [|LX] eqn:EX; [discriminate|].
    destruct (run_update (body args) old _ (CNode LX) _) as [[r st]|] eqn:E; cbn in H; [|discriminate].
    inversion H; subst. rewrite same_shape_fn in Hs. inversion HW; subst.
    destruct (IH _ _ _ _ _ _ _ E) as [added [Hadd [_ Hseg]]]; [eauto|].
    cbn in Hadd. rewrite app_nil_r in Hadd. subst added.
    destruct (Hseg 0 old Hs) as [Hw Hsc].
    + intros a t Hin. apply lookup_In_nodup; auto.
    + cbn in *. lia.
  - intros g1 IH1 g2 IH2 t x args t' w d H HW Hs. cbn in H.
    destruct (cond_args args) as [[c rest]|] eqn:Hc; cbn in H; [|discriminate].
    destruct t as [| | c0 t1 t2]; try discriminate.
    destruct (gf_update g1 t1 x rest) as [[[t1' w1] d1]|] eqn:E1; cbn in H; [|discriminate].
    destruct (gf_update g2 t2 x rest) as [[[t2' w2] d2]|] eqn:E2; cbn in H; [|discriminate].
    inversion H; subst. reflexivity.
  - intros v old oldc X st v' st' H _. cbn in H. inversion H; subst.
    exists []. split; [reflexivity|]. split; [auto|].
    intros tail seg Hseg _. destruct seg as [|[b y] seg]; [|cbn in Hseg; discriminate]. cbn. lia.
  - intros a g0 IHg args k IHk old oldc X st v st' H HWold. cbn [run_update] in H.
    destruct (Update_call (gf_update g0) old oldc X st a args) as [[r st1]|] eqn:E; cbn in H; [|discriminate].
    unfold Update_call in E. destruct (mem a (u_map st)) eqn:Hm; [discriminate|].
    destruct (lookup a old) as [sub|] eqn:Hsub; [|discriminate].
    destruct (match cm_get a X with Some x => Some x | None => cm_get a oldc end) as [x|]; [|discriminate].
    destruct (gf_update g0 sub (Some x) args) as [[[t1 w1] d1]|] eqn:E1; cbn in E; [|discriminate].
    inversion E; subst. clear E.
    destruct (IHk _ _ _ _ _ _ _ H HWold) as [added [Hadd [_ Hseg]]]. cbn in Hadd.
    exists (added ++ [(a, t1)]). split; [rewrite <- app_assoc; exact Hadd|]. split; [auto|].
    intros tail seg Hss Hlook.
    (* split seg to match added ++ [(a,t1)] *)
    assert (exists seg1 ts, seg = seg1 ++ [(a, ts)] /\ same_shape_maps seg1 added = true
                            /\ same_shape ts t1 = true) as [seg1 [ts [Eseg [Hs1 Hst]]]].
    { clear - Hss. revert seg Hss. induction added as [|[b y] added IH]; intros seg Hss.
      - destruct seg as [|[b' y'] seg]; [discriminate|]. cbn in Hss.
        destruct seg; [|destruct p; rewrite !andb_false_r in Hss; discriminate].
        apply andb_prop in Hss as [Hss _]. apply andb_prop in Hss as [Hab Hsh].
        apply addr_eqb_eq in Hab; subst. exists [], y'. auto.
      - destruct seg as [|[b' y'] seg]; [discriminate|]. cbn in Hss.
        apply andb_prop in Hss as [Hss Hrest]. destruct (IH _ Hrest) as [seg1 [ts [E [H1 H2]]]].
        exists ((b', y') :: seg1), ts. subst seg. cbn. rewrite Hss, H1. auto. }
    subst seg.
    assert (Hts : lookup a old = Some ts) by (apply Hlook; apply in_or_app; right; left; reflexivity).
    rewrite Hsub in Hts. inversion Hts; subst ts.
    destruct (Hseg tail seg1 Hs1) as [Hw Hsc].
    { intros b tb Hin. apply Hlook. apply in_or_app; left; exact Hin. }
    assert (HWsub : WS sub) by (eapply HWold; eapply lookup_In; eauto).
    pose proof (IHg _ _ _ _ _ _ E1 HWsub Hst) as Hw1.
    cbn in Hw, Hsc.
    assert (Esum : forall m1 b y, sum_scores (m1 ++ [(b, y)]) = sum_scores m1 + get_score y).
    { clear. induction m1 as [|[c z] m1 IH]; intros; cbn; [lia|]. rewrite IH. lia. }
    rewrite !Esum. lia.
  - intros e old oldc X st v st' H. discriminate.
Qed.
