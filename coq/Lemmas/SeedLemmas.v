(** SeedLemmas.v — every sample-site instance of a seeded run gets its own key:
    the keys are pairwise incomparable terms (none equal to, or derived from,
    another), all derived from the root key (C07); a seeded run does not depend
    on the global state (C06); lowering / residual facts (C14). *)
From Coq Require Import List Arith Bool Lia.
Import ListNotations.
From GV Require Import Model.Seed.

Definition prefix (a b : key) : Prop := exists t, b = a ++ t.
Definition incomp (a b : key) : Prop := ~ prefix a b /\ ~ prefix b a.

Lemma prefix_refl a : prefix a a.
Proof. exists []. rewrite app_nil_r. reflexivity. Qed.

Lemma prefix_trans a b c : prefix a b -> prefix b c -> prefix a c.
Proof. intros [t1 H1] [t2 H2]. subst. exists (t1 ++ t2). rewrite app_assoc. reflexivity. Qed.

Lemma prefix_app a t : prefix a (a ++ t).
Proof. exists t. reflexivity. Qed.

Lemma move_eq_dec (x y : move) : {x = y} + {x <> y}.
Proof. apply Nat.eq_dec. Qed.

(** two keys extending a common stem by different moves are incomparable *)
Lemma diverge_incomp k a b x y :
  a <> b -> prefix (k ++ [a]) x -> prefix (k ++ [b]) y -> incomp x y.
Proof.
  intros Hab [tx Hx] [ty Hy]. subst. split; intros [t Ht].
  - rewrite <- !app_assoc in Ht. apply app_inv_head in Ht. cbn in Ht. inversion Ht. congruence.
  - rewrite <- !app_assoc in Ht. apply app_inv_head in Ht. cbn in Ht. inversion Ht. congruence.
Qed.

Definition AllUnder (k : key) (l : list key) : Prop := forall x, In x l -> prefix k x.
Definition Pairwise (l : list key) : Prop := ForallOrdPairs incomp l.

Lemma incomp_sym a b : incomp a b -> incomp b a.
Proof. intros [H1 H2]; split; auto. Qed.

Lemma pairwise_app l1 l2 :
  Pairwise l1 -> Pairwise l2 -> (forall x y, In x l1 -> In y l2 -> incomp x y) -> Pairwise (l1 ++ l2).
Proof.
  intros H1 H2 Hc. induction H1 as [|x l1 Hx H1 IH]; cbn; [exact H2|].
  constructor.
  - apply Forall_app. split; [exact Hx|].
    apply Forall_forall. intros y Hy. apply Hc; [left; reflexivity|exact Hy].
  - apply IH. intros a b Ha Hb. apply Hc; [right; exact Ha|exact Hb].
Qed.

Lemma allunder_app k l1 l2 : AllUnder k l1 -> AllUnder k l2 -> AllUnder k (l1 ++ l2).
Proof. intros H1 H2 x Hx. apply in_app_or in Hx as [Hx|Hx]; auto. Qed.

Lemma allunder_weaken k k' l : prefix k k' -> AllUnder k' l -> AllUnder k l.
Proof. intros Hp H x Hx. eapply prefix_trans; eauto. Qed.

Lemma cross_incomp k a b l1 l2 :
  a <> b -> AllUnder (k ++ [a]) l1 -> AllUnder (k ++ [b]) l2 ->
  forall x y, In x l1 -> In y l2 -> incomp x y.
Proof. intros Hab H1 H2 x y Hx Hy. eapply diverge_incomp; eauto. Qed.

Definition Good (f : key -> list bool -> list key * list bool) : Prop :=
  forall k cs, AllUnder k (fst (f k cs)) /\ Pairwise (fst (f k cs)) /\
               (forall x, In x (fst (f k cs)) -> x <> k).

Lemma iters_good f : Good f ->
  forall todo sub i cs,
    (forall x, In x (fst (iters f sub todo i cs)) -> exists j, i <= j < i + todo /\ prefix (sub ++ [MF j]) x) /\
    Pairwise (fst (iters f sub todo i cs)).
Proof.
  intros Hf. induction todo as [|todo IH]; intros sub i cs; cbn [iters].
  - split; [intros x []|constructor].
  - destruct (f (sub ++ [MF i]) cs) as [li cs1] eqn:Ef.
    destruct (iters f sub todo (S i) cs1) as [lr cs2] eqn:Er. cbn [fst].
    destruct (Hf (sub ++ [MF i]) cs) as [U [P _]]. rewrite Ef in U, P. cbn [fst] in U, P.
    destruct (IH sub (S i) cs1) as [Ur Pr]. rewrite Er in Ur, Pr. cbn [fst] in Ur, Pr.
    split.
    + intros x Hx. apply in_app_or in Hx as [Hx|Hx].
      * exists i. split; [lia|]. apply U; exact Hx.
      * destruct (Ur x Hx) as [j [Hj Hp]]. exists j; split; [lia|exact Hp].
    + apply pairwise_app; auto.
      intros x y Hx Hy. destruct (Ur y Hy) as [j [Hj Hp]].
      eapply (diverge_incomp sub (MF i) (MF j)); [unfold MF; lia|apply U; exact Hx|exact Hp].
Qed.

Theorem seed_run_good : forall p, Good (seed_run p).
Proof.
  induction p as [|rest IH|rest IH|b0 IH0 b1 IH1 rest IH|len body IHb rest IH|body IHb rest IH|body IHb rest IH];
    intros k cs; cbn [seed_run].
  - cbn. repeat split; [intros x []|constructor|intros x []].
  - destruct (seed_run rest (k ++ [M0]) cs) as [l cs'] eqn:E. cbn [fst].
    destruct (IH (k ++ [M0]) cs) as [U [P N]]. rewrite E in U, P, N. cbn [fst] in *.
    repeat split.
    + intros x [Hx|Hx]; [subst; apply prefix_app|].
      eapply prefix_trans; [apply (prefix_app k [M0])|apply U; exact Hx].
    + constructor; [|exact P]. apply Forall_forall. intros y Hy.
      eapply (diverge_incomp k M1 M0); [unfold M0, M1; lia|apply prefix_refl|apply U; exact Hy].
    + intros x [Hx|Hx] Ex; subst.
      * apply (f_equal (@length move)) in Ex. rewrite app_length in Ex. cbn in Ex. lia.
      * destruct (U _ Hx) as [t Ht]. apply (f_equal (@length move)) in Ht.
        rewrite !app_length in Ht. cbn in Ht. lia.
  - apply IH.
  - destruct cs as [|c cs1].
    + destruct (seed_run b0 (k ++ [M1]) []) as [lb cs2] eqn:Eb.
      destruct (seed_run rest (k ++ [M0]) cs2) as [l cs3] eqn:E. cbn [fst].
      destruct (IH0 (k ++ [M1]) []) as [Ub [Pb Nb]]. rewrite Eb in Ub, Pb, Nb.
      destruct (IH (k ++ [M0]) cs2) as [U [P N]]. rewrite E in U, P, N. cbn [fst] in *.
      repeat split.
      * apply allunder_app; eapply allunder_weaken; eauto; apply prefix_app.
      * apply pairwise_app; auto. apply (cross_incomp k M1 M0); [unfold M0, M1; lia|exact Ub|exact U].
      * intros x Hx Ex. subst. apply in_app_or in Hx as [Hx|Hx];
          [destruct (Ub _ Hx) as [t Ht]|destruct (U _ Hx) as [t Ht]];
          apply (f_equal (@length move)) in Ht; rewrite !app_length in Ht; cbn in Ht; lia.
    + destruct (seed_run (if c then b1 else b0) (k ++ [M1]) cs1) as [lb cs2] eqn:Eb.
      destruct (seed_run rest (k ++ [M0]) cs2) as [l cs3] eqn:E. cbn [fst].
      assert (Hg : Good (seed_run (if c then b1 else b0))) by (destruct c; assumption).
      destruct (Hg (k ++ [M1]) cs1) as [Ub [Pb Nb]]. rewrite Eb in Ub, Pb, Nb.
      destruct (IH (k ++ [M0]) cs2) as [U [P N]]. rewrite E in U, P, N. cbn [fst] in *.
      repeat split.
      * apply allunder_app; eapply allunder_weaken; eauto; apply prefix_app.
      * apply pairwise_app; auto. apply (cross_incomp k M1 M0); [unfold M0, M1; lia|exact Ub|exact U].
      * intros x Hx Ex. subst. apply in_app_or in Hx as [Hx|Hx];
          [destruct (Ub _ Hx) as [t Ht]|destruct (U _ Hx) as [t Ht]];
          apply (f_equal (@length move)) in Ht; rewrite !app_length in Ht; cbn in Ht; lia.
  - destruct (iters (seed_run body) (k ++ [M1]) len 0 cs) as [ls cs1] eqn:Es.
    destruct (seed_run rest (k ++ [M0]) cs1) as [l cs2] eqn:E. cbn [fst].
    destruct (iters_good _ IHb len (k ++ [M1]) 0 cs) as [Us Ps]. rewrite Es in Us, Ps. cbn [fst] in *.
    destruct (IH (k ++ [M0]) cs1) as [U [P N]]. rewrite E in U, P, N. cbn [fst] in *.
    assert (Us' : AllUnder (k ++ [M1]) ls).
    { intros x Hx. destruct (Us x Hx) as [j [_ Hp]]. eapply prefix_trans; [|exact Hp]. apply prefix_app. }
    repeat split.
    + apply allunder_app; eapply allunder_weaken; eauto; apply prefix_app.
    + apply pairwise_app; auto. apply (cross_incomp k M1 M0); [unfold M0, M1; lia|exact Us'|exact U].
    + intros x Hx Ex. subst. apply in_app_or in Hx as [Hx|Hx];
        [destruct (Us' _ Hx) as [t Ht]|destruct (U _ Hx) as [t Ht]];
        apply (f_equal (@length move)) in Ht; rewrite !app_length in Ht; cbn in Ht; lia.
  - apply IH.
  - apply IH.
Qed.

Lemma pairwise_nodup l : Pairwise l -> NoDup l.
Proof.
  induction 1 as [|x l Hx _ IH]; constructor; auto.
  intros Hin. rewrite Forall_forall in Hx. destruct (Hx x Hin) as [H _]. apply H. apply prefix_refl.
Qed.

(** ** lowering facts *)
Lemma residual_has_sample p : has_sample (residual p) = unseeded p.
Proof.
  induction p; cbn; auto; try (rewrite ?IHp1, ?IHp2, ?IHp3; reflexivity).
Qed.

Lemma prefix_comparable : forall a b c : key, prefix a c -> prefix b c -> prefix a b \/ prefix b a.
Proof.
  induction a as [|x a IH]; intros b c [ta Ha] [tb Hb].
  - left. exists b. reflexivity.
  - destruct b as [|y b]; [right; exists (x :: a); reflexivity|].
    subst c. cbn in Hb. inversion Hb; subst.
    destruct (IH b (a ++ ta)) as [[t Ht]|[t Ht]]; [exists ta; reflexivity|exists tb; assumption| |].
    + left. exists t. cbn. rewrite Ht. reflexivity.
    + right. exists t. cbn. rewrite Ht. reflexivity.
Qed.

(** runs from incomparable root keys use incomparable site keys *)
Lemma runs_incomp k1 k2 l1 l2 :
  incomp k1 k2 -> AllUnder k1 l1 -> AllUnder k2 l2 ->
  forall x y, In x l1 -> In y l2 -> incomp x y.
Proof.
  intros [N1 N2] U1 U2 x y Hx Hy. specialize (U1 x Hx). specialize (U2 y Hy).
  split; intros Hp.
  - destruct (prefix_comparable k1 k2 y) as [H|H]; auto. eapply prefix_trans; eauto.
  - destruct (prefix_comparable k1 k2 x) as [H|H]; auto. eapply prefix_trans; eauto.
Qed.
