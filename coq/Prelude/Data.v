(** Data.v — values, addresses, choice maps, results, the sampling monad.
    Hand-written; shared by the GFI model (C01–C05, C09, C10, C16, C17). *)
From Coq Require Export ZArith List Bool Lia.
Export ListNotations.
Open Scope Z_scope.

(** Python exceptions are compared only by kind. *)
Inductive err := ECollision | EKey | EType | EMerge | EOther.

Inductive res (A : Type) := Ok (a : A) | Err (e : err).
Arguments Ok {A} a. Arguments Err {A} e.

Definition rbind {A B} (m : res A) (f : A -> res B) : res B :=
  match m with Ok a => f a | Err e => Err e end.
Notation "x <-r m ;; f" := (rbind m (fun x => f)) (at level 61, m at next level, right associativity).
Notation "' p <-r m ;; f" := (rbind m (fun p => f)) (at level 61, p pattern, m at next level, right associativity).

(** Values: integers, booleans, tuples/arrays, None. *)
Inductive value := VZ (z : Z) | VB (b : bool) | VTup (l : list value) | VNone.

Fixpoint value_eqb (a b : value) {struct a} : bool :=
  match a, b with
  | VZ x, VZ y => Z.eqb x y
  | VB x, VB y => Bool.eqb x y
  | VNone, VNone => true
  | VTup l, VTup m =>
      (fix go (l m : list value) : bool :=
         match l, m with
         | [], [] => true
         | x :: l', y :: m' => value_eqb x y && go l' m'
         | _, _ => false
         end) l m
  | _, _ => false
  end.

(** Addresses.  [AName] is a user address (string, coded as a number by the
    harness); [ALane i] is the i-th lane of a Vmap / step of a Scan: selections
    pass through lanes unchanged, constraints are looked up per lane. *)
Inductive addr := AName (n : nat) | ALane (i : nat).
Definition addr_eqb (a b : addr) : bool :=
  match a, b with
  | AName x, AName y => Nat.eqb x y
  | ALane x, ALane y => Nat.eqb x y
  | _, _ => false
  end.
Lemma addr_eqb_eq a b : addr_eqb a b = true <-> a = b.
Proof.
  destruct a, b; cbn; try (split; intro H; [discriminate|inversion H]);
    rewrite Nat.eqb_eq; split; intro H; try congruence; inversion H; auto.
Qed.
Lemma addr_eqb_refl a : addr_eqb a a = true.
Proof. apply addr_eqb_eq; reflexivity. Qed.
Lemma addr_eqb_neq a b : addr_eqb a b = false <-> a <> b.
Proof.
  split; intro H.
  - intro E; apply addr_eqb_eq in E. congruence.
  - destruct (addr_eqb a b) eqn:E; auto. apply addr_eqb_eq in E; contradiction.
Qed.

(** Association lists: first match wins. *)
Fixpoint lookup {A} (a : addr) (l : list (addr * A)) : option A :=
  match l with
  | [] => None
  | (b, x) :: l' => if addr_eqb a b then Some x else lookup a l'
  end.
Definition mem {A} (a : addr) (l : list (addr * A)) : bool :=
  match lookup a l with Some _ => true | None => false end.

(** Choice maps. *)
Inductive cm := CLeaf (v : value) | CNode (l : list (addr * cm)).

Definition cm_get (a : addr) (x : cm) : option cm :=
  match x with CNode l => lookup a l | CLeaf _ => None end.

(** Discards: choice maps with optional leaves. *)
Inductive dm := DNone | DLeaf (v : value) | DNode (l : list (addr * dm)).

(** The sampling monad: a free monad over draws.  A draw is resolved by an
    arbitrary value (the "tape" reading); [SErr] is a raised exception. *)
Record dist := { logpdf : value -> value -> Z;      (* logpdf x args *)
                 dsample : value -> value }.         (* the scripted sampler: value drawn given args *)

Inductive samp (A : Type) :=
| SRet (a : A)
| SDraw (d : dist) (args : value) (k : value -> samp A)
| SErr (e : err).
Arguments SRet {A} a. Arguments SDraw {A} d args k. Arguments SErr {A} e.

Fixpoint sbind {A B} (m : samp A) (f : A -> samp B) : samp B :=
  match m with
  | SRet a => f a
  | SDraw d args k => SDraw d args (fun v => sbind (k v) f)
  | SErr e => SErr e
  end.
Notation "x <- m ;; f" := (sbind m (fun x => f)) (at level 61, m at next level, right associativity).
Notation "' p <- m ;; f" := (sbind m (fun p => f)) (at level 61, p pattern, m at next level, right associativity).

Definition lift {A} (r : res A) : samp A :=
  match r with Ok a => SRet a | Err e => SErr e end.

(** [reach m a]: [a] is a possible result of [m] for some outcomes of the draws. *)
Inductive reach {A} : samp A -> A -> Prop :=
| RRet a : reach (SRet a) a
| RDraw d args k v a : reach (k v) a -> reach (SDraw d args k) a.

Lemma reach_bind {A B} (m : samp A) (f : A -> samp B) b :
  reach (sbind m f) b -> exists a, reach m a /\ reach (f a) b.
Proof.
  induction m as [a|d args k IH|e]; cbn; intros H.
  - exists a; split; [constructor|exact H].
  - inversion H; subst. destruct (IH _ H4) as [a [H1 H2]].
    exists a; split; [econstructor; exact H1|exact H2].
  - inversion H.
Qed.

Lemma reach_bind_intro {A B} (m : samp A) (f : A -> samp B) a b :
  reach m a -> reach (f a) b -> reach (sbind m f) b.
Proof.
  induction 1; cbn; intros; [assumption|econstructor; eauto].
Qed.

Lemma reach_ret {A} (a b : A) : reach (SRet a) b -> a = b.
Proof. inversion 1; reflexivity. Qed.

Lemma reach_lift {A} (r : res A) a : reach (lift r) a -> r = Ok a.
Proof. destruct r; cbn; inversion 1; reflexivity. Qed.

(** Scripted execution: resolve draws from a tape of values. *)
Fixpoint run_tape {A} (m : samp A) (tape : list value) : res (A * list value) :=
  match m with
  | SRet a => Ok (a, tape)
  | SErr e => Err e
  | SDraw d args k =>
      match tape with
      | [] => Err EOther
      | v :: tape' => run_tape (k v) tape'
      end
  end.

Lemma run_tape_reach {A} (m : samp A) tape a rest :
  run_tape m tape = Ok (a, rest) -> reach m a.
Proof.
  revert tape; induction m as [x|d args k IH|e]; cbn; intros tape H.
  - inversion H; constructor.
  - destruct tape as [|v tape']; [discriminate|]. econstructor; eauto.
  - discriminate.
Qed.
