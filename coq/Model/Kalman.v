(** Kalman.v — model of kalman_filter / kalman_smoother (predict/update
    recursion, RTS recursion) over exact rational matrices, and the
    specification: conditioning the joint Gaussian of all states and
    observations (dense moments + Schur complement). *)
From Coq Require Import QArith List Arith Bool.
Import ListNotations.
From GV Require Import Model.Mat.
Open Scope Q_scope.

Record lgssm := { m0 : vec; P0 : mat; A_ : mat; Q_ : mat; C_ : mat; R_ : mat }.

Record kstep := { f_mean : vec; f_cov : mat; quad : Q; sdet : Q }.   (* quad = innovation' S^-1 innovation; sdet = det S *)

Definition update (s : lgssm) (pm : vec) (pc : mat) (y : vec) : kstep :=
  let innov := vsub y (mvec (C_ s) pm) in
  let S := madd (mmul (mmul (C_ s) pc) (transpose (C_ s))) (R_ s) in
  let Sinv := minv S in
  let K := mmul (mmul pc (transpose (C_ s))) Sinv in
  {| f_mean := vadd pm (mvec K innov);
     f_cov := msub pc (mmul (mmul K (C_ s)) pc);
     quad := dot innov (mvec Sinv innov);
     sdet := mdet S |}.

Fixpoint kfilter_from (s : lgssm) (pm : vec) (pc : mat) (ys : list vec) : list kstep :=
  match ys with
  | [] => []
  | y :: ys' =>
      let st := update s pm pc y in
      st :: kfilter_from s (mvec (A_ s) (f_mean st))
                         (madd (mmul (mmul (A_ s) (f_cov st)) (transpose (A_ s))) (Q_ s)) ys'
  end.
Definition kfilter (s : lgssm) (ys : list vec) : list kstep := kfilter_from s (m0 s) (P0 s) ys.

(** RTS smoother, from the last filtered step backwards *)
Fixpoint ksmooth_rev (s : lgssm) (rf : list kstep) (nm : vec) (nc : mat) : list (vec * mat) :=
  match rf with
  | [] => []
  | st :: rf' =>
      let pm := mvec (A_ s) (f_mean st) in
      let pc := madd (mmul (mmul (A_ s) (f_cov st)) (transpose (A_ s))) (Q_ s) in
      let G := mmul (mmul (f_cov st) (transpose (A_ s))) (minv pc) in
      let sm := vadd (f_mean st) (mvec G (vsub nm pm)) in
      let sc := madd (f_cov st) (mmul (mmul G (msub nc pc)) (transpose G)) in
      (sm, sc) :: ksmooth_rev s rf' sm sc
  end.
Definition ksmooth (s : lgssm) (ys : list vec) : list (vec * mat) :=
  match rev (kfilter s ys) with
  | [] => []
  | last :: rf => rev ((f_mean last, f_cov last) :: ksmooth_rev s rf (f_mean last) (f_cov last))
  end.

(** * specification: dense joint moments and conditioning *)
Fixpoint mpow (a : mat) (n : nat) (d : nat) : mat :=
  match n with O => ident d | S n' => mmul a (mpow a n' d) end.

Fixpoint prior_covs (s : lgssm) (n : nat) (p : mat) : list mat :=   (* P_0 .. P_{n-1} *)
  match n with
  | O => []
  | S n' => p :: prior_covs s n' (madd (mmul (mmul (A_ s) p) (transpose (A_ s))) (Q_ s))
  end.

Definition d_state (s : lgssm) := length (m0 s).

(** Cov(x_i, x_j) *)
Definition cov_xx (s : lgssm) (Ps : list mat) (i j : nat) : mat :=
  if Nat.leb i j then mmul (nth i Ps []) (transpose (mpow (A_ s) (j - i) (d_state s)))
  else mmul (mpow (A_ s) (i - j) (d_state s)) (nth j Ps []).

Definition mean_x (s : lgssm) (i : nat) : vec := mvec (mpow (A_ s) i (d_state s)) (m0 s).

(** block matrix from a function on block indices *)
Definition hcat (ms : list mat) : mat :=
  match ms with
  | [] => []
  | m :: _ => map (fun r => concat (map (fun mm => nth r mm []) ms)) (seq 0 (length m))
  end.
Definition blocks (n m : nat) (f : nat -> nat -> mat) : mat :=
  concat (map (fun i => hcat (map (fun j => f i j) (seq 0 m))) (seq 0 n)).

(** moments of x_t given y_0..y_{k-1} *)
Definition condition (s : lgssm) (ys : list vec) (k t : nat) : vec * mat :=
  let n := Nat.max k (S t) in
  let Ps := prior_covs s n (P0 s) in
  let Syy := blocks k k (fun i j =>
               let c := mmul (mmul (C_ s) (cov_xx s Ps i j)) (transpose (C_ s)) in
               if Nat.eqb i j then madd c (R_ s) else c) in
  let Sxy := blocks 1 k (fun _ j => mmul (cov_xx s Ps t j) (transpose (C_ s))) in
  let muy := concat (map (fun i => mvec (C_ s) (mean_x s i)) (seq 0 k)) in
  let yv := concat (firstn k ys) in
  let W := mmul Sxy (minv Syy) in
  (vadd (mean_x s t) (mvec W (vsub yv muy)),
   msub (nth t Ps []) (mmul W (transpose Sxy))).

(** the marginal likelihood's two rational ingredients: quadratic form and determinant of Cov(y) *)
Definition evidence_parts (s : lgssm) (ys : list vec) : Q * Q :=
  let k := length ys in
  let Ps := prior_covs s k (P0 s) in
  let Syy := blocks k k (fun i j =>
               let c := mmul (mmul (C_ s) (cov_xx s Ps i j)) (transpose (C_ s)) in
               if Nat.eqb i j then madd c (R_ s) else c) in
  let muy := concat (map (fun i => mvec (C_ s) (mean_x s i)) (seq 0 k)) in
  let r := vsub (concat ys) muy in
  (dot r (mvec (minv Syy) r), mdet Syy).
