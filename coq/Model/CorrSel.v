(** CorrSel.v — correspondence cases for selections and filter/merge (C16). *)
From GV Require Export Model.Corr.

Inductive scase :=
| SMatch (s : sel) (p : list nat) (hits : list bool) (final : bool)
| SFilter (s : sel) (x : cm) (a b : option cm) (merged : option cm).

(** The implementation's chain of [match] calls along a path: per-step hit
    flags, then the [() in remainder] probe. *)
Fixpoint match_chain (s : sel) (p : list nat) : list bool * bool :=
  match p with
  | [] => ([], sel_unit s)
  | a :: p' => let '(c, r) := sel_match_name s a in
               let '(hs, f) := match_chain r p' in (c :: hs, f)
  end.

Fixpoint leaves (x : cm) : list (path * value) :=
  match x with
  | CLeaf v => [([], v)]
  | CNode l =>
      (fix go (l : list (addr * cm)) : list (path * value) :=
         match l with
         | [] => []
         | (a, y) :: l' => map (fun q => (a :: fst q, snd q)) (leaves y) ++ go l'
         end) l
  end.
Definition oleaves' (x : option cm) := match x with Some y => leaves y | None => [] end.

Fixpoint path_names (p : path) : list nat :=
  match p with [] => [] | AName n :: p' => n :: path_names p' | ALane _ :: p' => path_names p' end.

Fixpoint pv_eqb (a b : list (path * value)) : bool :=
  match a, b with
  | [], [] => true
  | (p, v) :: a', (q, w) :: b' => path_eqb p q && value_eqb v w && pv_eqb a' b'
  | _, _ => false
  end.

Definition check_scase (c : scase) : bool * bool * bool :=
  match c with
  | SMatch s p hits final =>
      let '(hs, f) := match_chain s p in
      let a := bools_eqb hs hits && Bool.eqb f final in
      let sp := Bool.eqb final (sem s p) in
      (a, sp, sp)
  | SFilter s x a b merged =>
      let '(ma, mb) := cm_filter x s in
      let agree := ocm_eqb ma a && ocm_eqb mb b in
      let lx := leaves x in
      let sp :=
        pv_eqb (oleaves' a) (filter (fun q => sem s (path_names (fst q))) lx) &&
        pv_eqb (oleaves' b) (filter (fun q => negb (sem s (path_names (fst q)))) lx) &&
        match merged with
        | Some m => cm_eqb m x
        | None => match lx with [] => true | _ => false end
        end in
      (agree, sp, sp)
  end.

Definition sreport (cs : list scase) : list (nat * bool * bool * bool) :=
  (fix go (i : nat) (cs : list scase) :=
     match cs with
     | [] => []
     | c :: cs' =>
         let '(a, s, r) := check_scase c in
         if a && s then go (S i) cs' else (i, a, s, r) :: go (S i) cs'
     end) O cs.
