(** Resample.v — model of genjax.inference.smc: systematic_resample,
    resample_vectorized_trace, resample, log_marginal_likelihood.
    Weights are non-negative integers W_i (unnormalised; W_i = 0 models a -inf
    log weight); the random offset is u = a/b with 0 < a < b.  All comparisons
    are cross-multiplied, so the model is exact. *)
From Coq Require Import ZArith List Lia Bool QArith.
Import ListNotations.
Open Scope Z_scope.

Fixpoint cumsum_from (acc : Z) (ws : list Z) : list Z :=
  match ws with [] => [] | w :: ws' => (acc + w) :: cumsum_from (acc + w) ws' end.
Definition cumsum (ws : list Z) := cumsum_from 0 ws.
Definition sumz (ws : list Z) : Z := fold_right Z.add 0 ws.

(** jnp.searchsorted(cumsum, pos) (side='left'): number of entries < pos, with
    cumsum entries C/T and pos = (j*b + a)/(N*b):  C/T < pos  <->  C*N*b < (j*b+a)*T. *)
Definition below (T N a b j : Z) (C : Z) : bool := C * N * b <? (j * b + a) * T.

Definition sys_index (ws : list Z) (N a b j : Z) : nat :=
  length (filter (below (sumz ws) N a b j) (cumsum ws)).

Definition sys_indices (ws : list Z) (N : nat) (a b : Z) : list nat :=
  map (fun j => sys_index ws (Z.of_nat N) a b (Z.of_nat j)) (seq 0 N).

(** leaf[indices] *)
Definition take {A} (d : A) (l : list A) (idx : list nat) : list A := map (fun i => nth i l d) idx.

(** copies of particle i *)
Definition copies (idx : list nat) (i : nat) : nat := length (filter (Nat.eqb i) idx).

(** A particle collection in "probability space": weights as rationals
    (exp of the log weights), running estimate as a rational. *)
Record pc (P : Type) := { particles : list P; weights : list Q; estimate : Q; diag : list Q }.
Arguments particles {P}. Arguments weights {P}. Arguments estimate {P}. Arguments diag {P}.

Definition qsum (l : list Q) : Q := fold_right Qplus 0%Q l.
Definition qmean (l : list Q) : Q := (qsum l / inject_Z (Z.of_nat (length l)))%Q.

(** exp(log_marginal_likelihood()) = estimate * mean(weights) *)
Definition marginal {P} (c : pc P) : Q := (estimate c * qmean (weights c))%Q.

Definition normalized (l : list Q) : list Q := map (fun w => (w / qsum l)%Q) l.

Definition resample {P} (d : P) (c : pc P) (idx : list nat) : pc P :=
  {| particles := take d (particles c) idx;
     weights := map (fun _ => 1%Q) idx;
     estimate := (estimate c * qmean (weights c))%Q;
     diag := normalized (weights c) |}.
