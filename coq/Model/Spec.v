(** Spec.v — the specification semantics, independent of the handler code:
    the sites a program visits on a choice map (only the *taken* branch of a
    Cond), each with its address path and log probability given the values it
    depends on; the joint log density is their sum. *)
From GV Require Export Model.Gfi.

Definition path := list addr.

Fixpoint gf_sites (g : gf) (x : cm) (args : value) {struct g}
  : res (list (path * Z) * value) :=
  match g with
  | GDist d =>
      match x with
      | CLeaf v => Ok ([([], logpdf d v args)], v)
      | CNode _ => Err EType
      end
  | GFn body => run_sites (body args) x
  | GCond g1 g2 =>
      '(c, rest) <-r cond_args args ;;
      if c then gf_sites g1 x rest else gf_sites g2 x rest
  end
with run_sites (p : prog) (X : cm) {struct p} : res (list (path * Z) * value) :=
  match p with
  | Ret v => Ok ([], v)
  | Fail e => Err e
  | Call a g args k =>
      match cm_get a X with
      | None => Err EKey
      | Some x =>
          '(l, r) <-r gf_sites g x args ;;
          '(l', v) <-r run_sites (k r) X ;;
          Ok (map (fun q => (a :: fst q, snd q)) l ++ l', v)
      end
  end.

(** The conditions of the Conds visited (taken-branch semantics), in program
    order, each with the address path at which the Cond sits. *)
Fixpoint gf_checks (g : gf) (x : cm) (args : value) {struct g} : list (path * bool) * value :=
  match g with
  | GDist d => ([], match x with CLeaf v => v | _ => VNone end)
  | GFn body => run_checks (body args) x
  | GCond g1 g2 =>
      match cond_args args with
      | Ok (c, rest) =>
          let '(l, r) := if c then gf_checks g1 x rest else gf_checks g2 x rest in (([], c) :: l, r)
      | Err _ => ([], VNone)
      end
  end
with run_checks (p : prog) (X : cm) {struct p} : list (path * bool) * value :=
  match p with
  | Ret v => ([], v)
  | Fail e => ([], VNone)
  | Call a g args k =>
      match cm_get a X with
      | None => ([], VNone)
      | Some x =>
          let '(l, r) := gf_checks g x args in
          let '(l', v) := run_checks (k r) X in
          (map (fun q => (a :: fst q, snd q)) l ++ l', v)
      end
  end.

Fixpoint sumz (l : list Z) : Z := match l with [] => 0 | x :: l' => x + sumz l' end.

Definition total (l : list (path * Z)) : Z := sumz (map snd l).

(** Joint log density and return value of [g] on choice map [x]. *)
Definition den (g : gf) (x : cm) (args : value) : res (Z * value) :=
  '(l, r) <-r gf_sites g x args ;; Ok (total l, r).

(** The same sum restricted to the sites satisfying [P]. *)
Definition total_on (P : path -> bool) (l : list (path * Z)) : Z :=
  total (filter (fun q => P (fst q)) l).

(** Is path [p] bound to a leaf value in the constraint map [c]? *)
Fixpoint cm_binds (c : cm) (p : path) : bool :=
  match p with
  | [] => match c with CLeaf _ => true | CNode _ => false end
  | a :: p' => match cm_get a c with Some c' => cm_binds c' p' | None => false end
  end.

(** Is the site at [p] selected by [s]?  Lanes are transparent. *)
Fixpoint selected (s : sel) (p : path) : bool :=
  match p with
  | [] => sel_unit s
  | a :: p' => selected (snd (sel_match s a)) p'
  end.

(** Leaf lookup along a path. *)
Fixpoint cm_at (x : cm) (p : path) : option cm :=
  match p with
  | [] => Some x
  | a :: p' => match cm_get a x with Some y => cm_at y p' | None => None end
  end.

(** ** Denotation of a selection on a path of string addresses (independent of
    the [match] machinery): the Boolean-algebra reading of C16. *)
Fixpoint is_prefix (q l : list nat) : bool :=
  match q, l with
  | [], _ => true
  | x :: q', y :: l' => Nat.eqb y x && is_prefix q' l'
  | _ :: _, [] => false
  end.

Fixpoint sem (s : sel) (p : list nat) {struct s} : bool :=
  match s with
  | SAll => true
  | SNone => false
  | SStr n => match p with m :: _ => Nat.eqb m n | [] => false end
  | STup q => match q with [] => false | _ => is_prefix q p end
  | SDict d =>
      match p with
      | [] => false
      | a :: p' =>
          (fix go (d : list (nat * sel)) : bool :=
             match d with
             | [] => false
             | (m, s') :: d' => if Nat.eqb a m then sem s' p' else go d'
             end) d
      end
  | SCompl s1 => negb (sem s1 p)
  | SIn s1 s2 => sem s1 p && sem s2 p
  | SOr s1 s2 => sem s1 p || sem s2 p
  end.
