(** Smc.v — particle-level model of genjax.inference.smc init / extend /
    rejuvenate (one particle; the collection is the list of particles, resample
    and the marginal estimate are in Model/Resample.v). *)
From GV Require Export Model.Gfi.

(** init, default proposal: target.generate(constraints, *args) *)
Definition init_default (g : gf) (args : value) (obs : cm) : samp (tr * Z) :=
  gf_generate g (Some obs) args.

(** init, custom proposal: proposal.simulate; merge(proposal choices, constraints)
    (constraints win); target.generate(merged); weight + proposal score *)
Definition init_custom (g q : gf) (args : value) (obs : cm) : samp (tr * Z) :=
  tq <- gf_simulate q args ;;
  '(t, w) <- gf_generate g (Some (cm_merge (choices tq) obs)) args ;;
  SRet (t, w + get_score tq).

(** extend: accumulate the incremental weight *)
Definition extend_default (g : gf) (args : value) (obs : cm) (lw0 : Z) : samp (tr * Z) :=
  '(t, w) <- gf_generate g (Some obs) args ;; SRet (t, lw0 + w).

Definition extend_custom (g q : gf) (args : value) (obs : cm) (lw0 : Z) : samp (tr * Z) :=
  tq <- gf_simulate q args ;;
  '(t, w) <- gf_generate g (Some (cm_merge obs (choices tq))) args ;;
  SRet (t, lw0 + w + get_score tq).

(** rejuvenate: apply the kernel to the trace, keep the weight *)
Definition rejuvenate {A} (kernel : tr -> samp A) (p : tr * Z) : samp (A * Z) :=
  t' <- kernel (fst p) ;; SRet (t', snd p).
