(** Vi.v — model of genjax.inference.vi: the ELBO objective built by
    elbo_factory (one draw of the variational family) and the gradient-ascent
    loop of optimize_vi. *)
From Coq Require Import QArith.
From GV Require Export Model.Gfi.

(** elbo(params): tr = family.simulate(...); merged = merge(constraint, q choices)
    (the family's choices win on overlap); p_density = target.assess(merged); p_density + q_score *)
Definition elbo (target family : gf) (obs : cm) (targs qargs : value) : samp Z :=
  tq <- gf_simulate family qargs ;;
  '(lp, _) <- lift (gf_assess target (cm_merge obs (choices tq)) targs) ;;
  SRet (lp + get_score tq).

(** optimize_vi: scan(update_step, init, arange(n)); update_step: params + lr * grad;
    the history holds the new parameters of every iteration *)
Section Ascent.
  Variable grad : nat -> Q -> Q.      (* gradient estimate used at iteration k (any estimator, any noise) *)
  Variable lr : Q.
  Fixpoint ascent (n : nat) (k : nat) (p : Q) : Q * list Q :=
    match n with
    | O => (p, [])
    | S n' => let p' := (p + lr * grad k p)%Q in
              let '(fin, hist) := ascent n' (S k) p' in (fin, p' :: hist)
    end.
  (** the k-th iterate *)
  Fixpoint iterate (k : nat) (start : nat) (p : Q) : Q :=
    match k with O => p | S k' => iterate k' (S start) (p + lr * grad start p)%Q end.
End Ascent.
