(** Mat.v — small executable dense matrix library over Q (lists of rows),
    normalising with Qred; inverse and determinant by Gauss-Jordan elimination. *)
From Coq Require Import QArith List Arith Bool.
Import ListNotations.
Open Scope Q_scope.

Definition vec := list Q.
Definition mat := list vec.

Definition qr (x : Q) : Q := Qred x.
Definition vadd (a b : vec) : vec := map (fun p => qr (fst p + snd p)) (combine a b).
Definition vsub (a b : vec) : vec := map (fun p => qr (fst p - snd p)) (combine a b).
Definition vscale (c : Q) (a : vec) : vec := map (fun x => qr (c * x)) a.
Definition dot (a b : vec) : Q := qr (fold_right (fun p acc => fst p * snd p + acc) 0 (combine a b)).

Fixpoint transpose_aux (n : nat) (m : mat) : mat :=
  match n with
  | O => []
  | S n' => map (fun r => hd 0 r) m :: transpose_aux n' (map (fun r => tl r) m)
  end.
Definition transpose (m : mat) : mat := transpose_aux (length (hd [] m)) m.

Definition mvec (m : mat) (v : vec) : vec := map (fun r => dot r v) m.
Definition mmul (a b : mat) : mat := let bt := transpose b in map (fun r => map (fun c => dot r c) bt) a.
Definition madd (a b : mat) : mat := map (fun p => vadd (fst p) (snd p)) (combine a b).
Definition msub (a b : mat) : mat := map (fun p => vsub (fst p) (snd p)) (combine a b).
Definition ident (n : nat) : mat :=
  map (fun i => map (fun j => if Nat.eqb i j then 1 else 0) (seq 0 n)) (seq 0 n).
Definition zeros (r c : nat) : mat := map (fun _ => map (fun _ => 0) (seq 0 c)) (seq 0 r).

(** Gauss-Jordan on an augmented matrix; returns (reduced rows, determinant of the left block) *)
Definition is0 (x : Q) : bool := Qeq_bool x 0.

(** first row with a non-zero entry in [col]; the rows skipped on the way (their
    number decides the sign of the permutation) *)
Fixpoint find_pivot (col : nat) (rows : list vec) : option (vec * list vec * nat) :=
  match rows with
  | [] => None
  | r :: rest =>
      if is0 (nth col r 0) then
        match find_pivot col rest with
        | Some (p, others, k) => Some (p, r :: others, S k)
        | None => None
        end
      else Some (r, rest, O)
  end.

(** eliminate column [col]: [done] rows are already pivoted (kept in order) *)
Fixpoint gj (fuel col : nat) (done todo : list vec) (det : Q) : list vec * Q :=
  match fuel with
  | O => (done ++ todo, det)
  | S f =>
      match find_pivot col todo with
      | None => (done ++ todo, 0)
      | Some (p, others, k) =>
          let pv := nth col p 0 in
          let pn := vscale (/ pv) p in
          let elim := fun r => vsub r (vscale (nth col r 0) pn) in
          gj f (S col) (map elim done ++ [pn]) (map elim others)
             (qr (det * pv * (if Nat.even k then 1 else -1)))
      end
  end.

Definition minv (m : mat) : mat :=
  let n := length m in
  let aug := map (fun p => fst p ++ snd p) (combine m (ident n)) in
  let '(rows, _) := gj n 0 [] aug 1 in
  map (fun r => skipn n r) rows.

Definition mdet (m : mat) : Q :=
  let n := length m in
  snd (gj n 0 [] m 1).
