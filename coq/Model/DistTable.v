(** DistTable.v — the source-level tie of C13: which TFP constructor each exported
    distribution wraps and how the wrapper passes its parameters on.

    [code_row]s are regenerated from src/genjax/distributions.py on every run by
    harness/dist_translate.py (Python ast, fail-closed) and compared with
    [expected_code_table]; [doc_consistent] shows that the documented call signatures of
    Model/Dists.v ([doc_table], the table the behavioural correspondence is run against)
    are exactly what these wrappers denote, given the positional parameter order of the
    TFP constructors ([tfp_sig]: facts about the TFP API, trusted). *)
From Coq Require Import List String Bool Arith.
From GV Require Import Model.Dists.
Import ListNotations.
Open Scope string_scope.

Inductive passing := ByPos (i : nat) | ByKw (k : string).
Inductive how := PassThrough | Rebind (l : list (string * passing)).
Definition code_row := (string * string * how * list (string * string))%type.

Definition expected_code_table : list code_row :=
  [ ("bernoulli", "Bernoulli", PassThrough, []);
    ("flip", "Bernoulli", Rebind [("p", ByKw "probs")], [("dtype", "jnp.bool_")]);
    ("beta", "Beta", PassThrough, []);
    ("categorical", "Categorical", Rebind [("logits", ByPos 0%nat)], []);
    ("geometric", "Geometric", PassThrough, []);
    ("normal", "Normal", PassThrough, []);
    ("uniform", "Uniform", PassThrough, []);
    ("exponential", "Exponential", PassThrough, []);
    ("poisson", "Poisson", PassThrough, []);
    ("multivariate_normal", "MultivariateNormalFullCovariance", PassThrough, []);
    ("dirichlet", "Dirichlet", PassThrough, []);
    ("binomial", "Binomial", PassThrough, []);
    ("gamma", "Gamma", PassThrough, []);
    ("log_normal", "LogNormal", PassThrough, []);
    ("student_t", "StudentT", PassThrough, []);
    ("laplace", "Laplace", PassThrough, []);
    ("half_normal", "HalfNormal", PassThrough, []);
    ("inverse_gamma", "InverseGamma", PassThrough, []);
    ("weibull", "Weibull", PassThrough, []);
    ("cauchy", "Cauchy", PassThrough, []);
    ("chi2", "Chi2", PassThrough, []);
    ("multinomial", "Multinomial", PassThrough, []);
    ("negative_binomial", "NegativeBinomial", PassThrough, []);
    ("zipf", "Zipf", PassThrough, []) ].

(** positional parameter order of the TFP constructors *)
Definition tfp_sig_table : list (string * list string) :=
  [ ("Bernoulli", ["logits"; "probs"]); ("Beta", ["concentration1"; "concentration0"]);
    ("Categorical", ["logits"; "probs"]); ("Geometric", ["logits"; "probs"]);
    ("Normal", ["loc"; "scale"]); ("Uniform", ["low"; "high"]);
    ("Exponential", ["rate"]); ("Poisson", ["rate"; "log_rate"]);
    ("MultivariateNormalFullCovariance", ["loc"; "covariance_matrix"]);
    ("Dirichlet", ["concentration"]); ("Binomial", ["total_count"; "logits"; "probs"]);
    ("Gamma", ["concentration"; "rate"]); ("LogNormal", ["loc"; "scale"]);
    ("StudentT", ["df"; "loc"; "scale"]); ("Laplace", ["loc"; "scale"]);
    ("HalfNormal", ["scale"]); ("InverseGamma", ["concentration"; "scale"]);
    ("Weibull", ["concentration"; "scale"]); ("Cauchy", ["loc"; "scale"]);
    ("Chi2", ["df"]); ("Multinomial", ["total_count"; "logits"; "probs"]);
    ("NegativeBinomial", ["total_count"; "logits"; "probs"]); ("Zipf", ["power"]) ].

Definition tfp_sig (ctor : string) : list string :=
  match find (fun r : string * list string => String.eqb (fst r) ctor) tfp_sig_table with
  | Some (_, l) => l | None => [] end.

(** the TFP constructor and TFP-level parameter names a family of Model/Dists.v stands for *)
Definition family_names (d : dname) : string * list string :=
  match d with
  | BernoulliLogits => ("Bernoulli", ["logits"]) | BernoulliProbs => ("Bernoulli", ["probs"])
  | FlipProb => ("Bernoulli", ["probs"])
  | BetaD => ("Beta", ["concentration1"; "concentration0"])
  | CategoricalLogits => ("Categorical", ["logits"])
  | GeometricLogits => ("Geometric", ["logits"]) | GeometricProbs => ("Geometric", ["probs"])
  | NormalD => ("Normal", ["loc"; "scale"]) | UniformD => ("Uniform", ["low"; "high"])
  | ExponentialRate => ("Exponential", ["rate"])
  | PoissonRate => ("Poisson", ["rate"]) | PoissonLogRate => ("Poisson", ["log_rate"])
  | MvNormalCov => ("MultivariateNormalFullCovariance", ["loc"; "covariance_matrix"])
  | DirichletD => ("Dirichlet", ["concentration"])
  | BinomialProbs => ("Binomial", ["total_count"; "probs"]) | BinomialLogits => ("Binomial", ["total_count"; "logits"])
  | GammaRate => ("Gamma", ["concentration"; "rate"])
  | LogNormalD => ("LogNormal", ["loc"; "scale"]) | StudentTD => ("StudentT", ["df"; "loc"; "scale"])
  | LaplaceD => ("Laplace", ["loc"; "scale"]) | HalfNormalD => ("HalfNormal", ["scale"])
  | InverseGammaScale => ("InverseGamma", ["concentration"; "scale"])
  | WeibullD => ("Weibull", ["concentration"; "scale"]) | CauchyD => ("Cauchy", ["loc"; "scale"])
  | Chi2D => ("Chi2", ["df"])
  | MultinomialProbs => ("Multinomial", ["total_count"; "probs"])
  | NegBinomialProbs => ("NegativeBinomial", ["total_count"; "probs"])
  | ZipfD => ("Zipf", ["power"])
  | LogisticD => ("Logistic", ["loc"; "scale"]) | GumbelD => ("Gumbel", ["loc"; "scale"])
  end.

Definition row_of (tbl : list code_row) (name : string) : option code_row :=
  find (fun r : code_row => let '(n, _, _, _) := r in String.eqb n name) tbl.

(** what a positional call of [name] (kws = []) with n positional parameters, or [name(k1=.., k2=..)], builds *)
Definition resolve (r : code_row) (kws : list string) (n : nat) : option (string * list string) :=
  let '(_, ctor, h, _) := r in
  match h with
  | PassThrough =>
      match kws with
      | [] => if Nat.leb n (List.length (tfp_sig ctor)) then Some (ctor, firstn n (tfp_sig ctor)) else None
      | _ => Some (ctor, kws)
      end
  | Rebind l =>
      let names := match kws with [] => firstn n (map fst l) | _ => kws end in
      let one := fun p => match find (fun e : string * passing => String.eqb (fst e) p) l with
                          | Some (_, ByPos j) => nth_error (tfp_sig ctor) j
                          | Some (_, ByKw k) => Some k
                          | None => None
                          end in
      (fix go (ps : list string) : option (string * list string) :=
         match ps with
         | [] => Some (ctor, [])
         | p :: ps' => match one p, go ps' with
                       | Some k, Some (c, ks) => Some (c, k :: ks)
                       | _, _ => None
                       end
         end) names
  end.

Definition strs_eqb (a b : list string) : bool :=
  if list_eq_dec string_dec a b then true else false.

Definition row_consistent (tbl : list code_row) (e : string * list string * dname) : bool :=
  let '(name, kws, d) := e in
  match row_of tbl name with
  | None => false
  | Some r =>
      let '(ctor, names) := family_names d in
      match resolve r kws (List.length names) with
      | Some (c, ks) => String.eqb c ctor && strs_eqb ks names
      | None => false
      end
  end.

(** rows of [doc_table] about the exported distributions (user wrappers are built by the harness) *)
Definition exported_doc : list (string * list string * dname) :=
  filter (fun e : string * list string * dname =>
            let '(n, _, _) := e in negb (String.prefix "user_" n)) doc_table.

Definition doc_consistent (tbl : list code_row) : bool := forallb (row_consistent tbl) exported_doc.

(** every exported distribution has a documented signature, and vice versa *)
Definition names_covered (tbl : list code_row) : bool :=
  forallb (fun r : code_row => let '(n, _, _, _) := r in
                               existsb (fun e : string * list string * dname => let '(m, _, _) := e in String.eqb n m) exported_doc) tbl
  && forallb (fun e : string * list string * dname => let '(m, _, _) := e in
                                                      match row_of tbl m with Some _ => true | None => false end) exported_doc.

Definition passing_eqb (a b : passing) : bool :=
  match a, b with ByPos i, ByPos j => Nat.eqb i j | ByKw x, ByKw y => String.eqb x y | _, _ => false end.
Definition how_eqb (a b : how) : bool :=
  match a, b with
  | PassThrough, PassThrough => true
  | Rebind l, Rebind m =>
      (fix go (l m : list (string * passing)) : bool :=
         match l, m with
         | [], [] => true
         | (p, x) :: l', (q, y) :: m' => String.eqb p q && passing_eqb x y && go l' m'
         | _, _ => false
         end) l m
  | _, _ => false
  end.
Definition row_eqb (a b : code_row) : bool :=
  let '(n1, c1, h1, e1) := a in let '(n2, c2, h2, e2) := b in
  String.eqb n1 n2 && String.eqb c1 c2 && how_eqb h1 h2 &&
  (fix go (l m : list (string * string)) : bool :=
     match l, m with
     | [], [] => true
     | (p, x) :: l', (q, y) :: m' => String.eqb p q && String.eqb x y && go l' m'
     | _, _ => false
     end) e1 e2.
Fixpoint table_eqb (a b : list code_row) : bool :=
  match a, b with
  | [], [] => true
  | x :: a', y :: b' => row_eqb x y && table_eqb a' b'
  | _, _ => false
  end.

(** the per-run judgement of a regenerated table: identical to the expected one (hence all
    theorems below apply to it), and - independently - consistent with the documented signatures *)
Definition judge_code_table (tbl : list code_row) : bool * bool :=
  (table_eqb tbl expected_code_table, doc_consistent tbl && names_covered tbl).

Theorem expected_table_consistent :
  doc_consistent expected_code_table = true /\ names_covered expected_code_table = true.
Proof. split; vm_compute; reflexivity. Qed.

Lemma table_eqb_eq : forall a b, table_eqb a b = true -> doc_consistent a = doc_consistent b.
Proof.
  assert (R : forall x y, row_eqb x y = true -> x = y).
  { intros [[[n1 c1] h1] e1] [[[n2 c2] h2] e2]. cbn.
    rewrite !andb_true_iff. intros [[[H1 H2] H3] H4].
    apply String.eqb_eq in H1, H2. subst.
    assert (h1 = h2).
    { destruct h1 as [|l], h2 as [|m]; cbn in H3; try discriminate; [reflexivity|]. f_equal.
      revert m H3. induction l as [|[p x] l IH]; intros [|[q y] m] H; try discriminate; [reflexivity|].
      rewrite !andb_true_iff in H. destruct H as [[Hp Hx] Hl]. apply String.eqb_eq in Hp. subst.
      assert (x = y).
      { destruct x, y; cbn in Hx; try discriminate; [apply Nat.eqb_eq in Hx|apply String.eqb_eq in Hx]; subst; reflexivity. }
      subst. f_equal. apply IH. exact Hl. }
    subst. f_equal.
    revert e2 H4. induction e1 as [|[p x] l IH]; intros [|[q y] m] H; try discriminate; [reflexivity|].
    rewrite !andb_true_iff in H. destruct H as [[Hp Hx] Hl]. apply String.eqb_eq in Hp, Hx. subst.
    f_equal. apply IH. exact Hl. }
  induction a as [|x a IH]; intros [|y b] H; try discriminate; [reflexivity|].
  cbn in H. apply andb_true_iff in H as [H1 H2]. apply R in H1. subst.
  assert (a = b).
  { clear IH. revert b H2. induction a as [|x a IHa]; intros [|z b] H; try discriminate; [reflexivity|].
    cbn in H. apply andb_true_iff in H as [H1 H2]. apply R in H1. subst. f_equal. apply IHa. exact H2. }
  subst. reflexivity.
Qed.
