(** Adev.v — model of genjax.adev: dual numbers over the rationals, expectation
    programs with Bernoulli (flip) sites and deterministic code in between
    (arbitrary Gallina functions on dual numbers: HOAS), the three discrete
    estimators (enumeration, REINFORCE, measure-valued), the reparameterised
    estimators, and the exact (dual-number) expectation they must match. *)
From Coq Require Import QArith Qcanon List Bool.
Import ListNotations.
Open Scope Qc_scope.

Definition D := (Qc * Qc)%type.
Definition dconst (c : Qc) : D := (c, 0).
Definition dadd (a b : D) : D := (fst a + fst b, snd a + snd b).
Definition dsub (a b : D) : D := (fst a - fst b, snd a - snd b).
Definition dmul (a b : D) : D := (fst a * fst b, fst a * snd b + snd a * fst b).

Inductive est := Enum | Reinforce | Mvd.

Inductive eprog :=
| ERet (d : D)
| EFlip (e : est) (p : D) (k : bool -> eprog).

(** finite randomness: weighted coin flips *)
Inductive rnd (A : Type) := RRet (a : A) | RFlip (p : Qc) (k : bool -> rnd A).
Arguments RRet {A} a. Arguments RFlip {A} p k.

Fixpoint rbind {A B} (m : rnd A) (f : A -> rnd B) : rnd B :=
  match m with RRet a => f a | RFlip p k => RFlip p (fun b => rbind (k b) f) end.

Fixpoint Ex {A} (m : rnd A) (f : A -> Qc) : Qc :=
  match m with
  | RRet a => f a
  | RFlip p k => p * Ex (k true) f + (1 - p) * Ex (k false) f
  end.

(** run with scripted outcomes *)
Fixpoint run_script {A} (m : rnd A) (bs : list bool) : option (A * list bool) :=
  match m with
  | RRet a => Some (a, bs)
  | RFlip p k => match bs with b :: bs' => run_script (k b) bs' | [] => None end
  end.

(** sampling the primal value of a program (what the pure continuation does) *)
Fixpoint sample_primal (e : eprog) : rnd Qc :=
  match e with
  | ERet d => RRet (fst d)
  | EFlip _ p k => RFlip (fst p) (fun b => sample_primal (k b))
  end.

(** d/dtheta log P(b) for b ~ flip(p), as the tangent REINFORCE multiplies with *)
Definition lp_tangent (p : D) (b : bool) : Qc :=
  if b then snd p / fst p else - snd p / (1 - fst p).

(** the ADEV estimator: a random dual number *)
Fixpoint adev (e : eprog) : rnd D :=
  match e with
  | ERet d => RRet d
  | EFlip Enum p k =>
      rbind (adev (k true)) (fun dT =>
      rbind (adev (k false)) (fun dF =>
      RRet (dadd (dmul p dT) (dmul (dsub (dconst 1) p) dF))))
  | EFlip Reinforce p k =>
      RFlip (fst p) (fun b =>
      rbind (adev (k b)) (fun d =>
      RRet (fst d, snd d + fst d * lp_tangent p b)))
  | EFlip Mvd p k =>
      RFlip (fst p) (fun b =>
      rbind (adev (k b)) (fun d =>
      rbind (sample_primal (k (negb b))) (fun o =>
      let sign := if b then - (1) else 1 in
      RRet (fst d, snd d + sign * (o - fst d) * snd p))))
  end.

(** the exact expectation in dual arithmetic: value E[f] and derivative d/dtheta E[f] *)
Fixpoint dualE (e : eprog) : D :=
  match e with
  | ERet d => d
  | EFlip _ p k => dadd (dmul p (dualE (k true))) (dmul (dsub (dconst 1) p) (dualE (k false)))
  end.

(** REINFORCE needs parameters in the open domain *)
Fixpoint ok (e : eprog) : Prop :=
  match e with
  | ERet _ => True
  | EFlip es p k =>
      (es = Reinforce -> fst p <> 0 /\ fst p <> 1) /\ ok (k true) /\ ok (k false)
  end.

Fixpoint all_enum (e : eprog) : Prop :=
  match e with
  | ERet _ => True
  | EFlip es p k => es = Enum /\ all_enum (k true) /\ all_enum (k false)
  end.

(** reparameterised site: for the noise actually drawn the output dual is the
    pathwise derivative *)
Definition reparam_normal (mu sigma : D) (eps : Qc) : D := dadd mu (dmul sigma (dconst eps)).
Definition reparam_uniform (lo hi : D) (eps : Qc) : D := dadd lo (dmul (dsub hi lo) (dconst eps)).
