(** CorrState.v — correspondence cases for state/save (C19). *)
From Coq Require Import ZArith List Arith Bool.
Import ListNotations.
From GV Require Import Model.StateM.

(** observed collected dictionary: nested dicts with nested-list numeric leaves *)
Inductive num := NZ (z : Z) | NL (l : list num).
Inductive otree := OLeaf (v : num) | ONode (l : list (nat * otree)).

Definition digits (idx : list nat) : Z :=
  fold_left (fun d i => (d * 10 + Z.of_nat i + 1)%Z) idx 0%Z.

Fixpoint enc (a : arr) : num :=
  match a with
  | ASite s idx => NZ (Z.of_nat s * 1000000 + digits idx)%Z
  | AStack l => NL (map enc l)
  end.

Fixpoint num_eqb (a b : num) {struct a} : bool :=
  match a, b with
  | NZ x, NZ y => Z.eqb x y
  | NL l, NL m =>
      (fix go (l m : list num) : bool :=
         match l, m with
         | [], [] => true
         | x :: l', y :: m' => num_eqb x y && go l' m'
         | _, _ => false
         end) l m
  | _, _ => false
  end.

Fixpoint oaget (k : nat) (l : list (nat * otree)) : option otree :=
  match l with [] => None | (k', v) :: l' => if Nat.eqb k k' then Some v else oaget k l' end.

(** order-insensitive comparison of the model tree with the observed one *)
Fixpoint tree_eqb (t : tree) (o : otree) {struct t} : bool :=
  match t, o with
  | TLeaf a, OLeaf v => num_eqb (enc a) v
  | TNode l, ONode m =>
      Nat.eqb (length l) (length m) &&
      (fix go (l : list (nat * tree)) : bool :=
         match l with
         | [] => true
         | (k, s) :: l' => match oaget k m with Some os => tree_eqb s os && go l' | None => false end
         end) l
  | _, _ => false
  end.

Inductive stcase := CState (p : list sprog) (transparent : bool) (obs : list otree).

Definition check_stcase (c : stcase) : bool * bool * bool :=
  match c with
  | CState p tr obs =>
      let code := coll (interp (flatten p []) [] {| coll := TNode []; nstack := [] |}) in
      let sp := spec p [] [] [] (TNode []) in
      (forallb (tree_eqb code) obs && tr && negb (Nat.eqb (length obs) 0),
       forallb (tree_eqb sp) obs && tr, tr)
  end.

Definition streport (cs : list stcase) : list (nat * bool * bool * bool) :=
  (fix go (i : nat) (cs : list stcase) :=
     match cs with
     | [] => []
     | c :: cs' =>
         let '(a, s, r) := check_stcase c in
         if a && s then go (S i) cs' else (i, a, s, r) :: go (S i) cs'
     end) O cs.
