(** Corr.v — the correspondence checker for the GFI model.  The harness writes
    the cases it ran on the implementation (inputs and canonicalised outputs)
    as Gallina data; [check_case] evaluates the model on the same inputs and
    compares ([agree]), and independently judges the implementation's output
    against the specification semantics ([spec_ok]).  Evaluated by vm_compute. *)
From GV Require Export Model.Ast Model.Spec.

(** ** Order-insensitive structural equality *)
Fixpoint cm_eqb (x y : cm) {struct x} : bool :=
  match x, y with
  | CLeaf v, CLeaf w => value_eqb v w
  | CNode lx, CNode ly =>
      Nat.eqb (length lx) (length ly) &&
      (fix go (l : list (addr * cm)) : bool :=
         match l with
         | [] => true
         | (a, v) :: l' =>
             match lookup a ly with
             | Some w => cm_eqb v w && go l'
             | None => false
             end
         end) lx
  | _, _ => false
  end.

Fixpoint dm_eqb (x y : dm) {struct x} : bool :=
  match x, y with
  | DNone, DNone => true
  | DLeaf v, DLeaf w => value_eqb v w
  | DNode lx, DNode ly =>
      Nat.eqb (length lx) (length ly) &&
      (fix go (l : list (addr * dm)) : bool :=
         match l with
         | [] => true
         | (a, v) :: l' =>
             match lookup a ly with
             | Some w => dm_eqb v w && go l'
             | None => false
             end
         end) lx
  | _, _ => false
  end.

(** "No discard" is [None] at some level in the implementation and a map of
    [None]s at another; both are pruned before comparison. *)
Fixpoint dm_prune (x : dm) : dm :=
  match x with
  | DNode l =>
      let l' := (fix go (l : list (addr * dm)) : list (addr * dm) :=
                   match l with
                   | [] => []
                   | (a, v) :: l' =>
                       match dm_prune v with
                       | DNone => go l'
                       | v' => (a, v') :: go l'
                       end
                   end) l in
      match l' with [] => DNone | _ => DNode l' end
  | _ => x
  end.

Definition ocm_eqb (x y : option cm) : bool :=
  match x, y with
  | Some a, Some b => cm_eqb a b
  | None, None => true
  | _, _ => false
  end.

(** Observation of a trace: choices, score, return value. *)
Definition tobs := (cm * Z * value)%type.
Definition obs_of (t : tr) : tobs := (choices t, get_score t, get_retval t).
(** -infinity / +infinity are carried as the sentinels -/+10^9; any total beyond
    10^8 in magnitude is clamped to the sentinel before comparison. *)
Definition clampz (z : Z) : Z :=
  if z <? -100000000 then -1000000000 else if 100000000 <? z then 1000000000 else z.
Definition zeqc (a b : Z) : bool := Z.eqb (clampz a) (clampz b).

Definition tobs_eqb (a b : tobs) : bool :=
  let '(c1, s1, r1) := a in let '(c2, s2, r2) := b in
  cm_eqb c1 c2 && zeqc s1 s2 && value_eqb r1 r2.

(** Results agree when both fail or both succeed with equal payloads. *)
Definition res_agree {A} (eqb : A -> A -> bool) (m o : res A) : bool :=
  match m, o with
  | Ok a, Ok b => eqb a b
  | Err _, Err _ => true
  | _, _ => false
  end.

(** ** Specification-level judgements on observed outputs *)

(** score = -(joint log density of the observed choices), retval = the
    program's return value on them. *)
Definition coherent_obs (g : gf) (args : value) (o : tobs) : bool :=
  let '(c, s, r) := o in
  match den g c args with
  | Ok (w, r') => zeqc w (- s) && value_eqb r r'
  | Err _ => false
  end.

(** Every leaf of [c] appears with the same value in [x]. *)
Fixpoint cm_sub (c x : cm) {struct c} : bool :=
  match c, x with
  | CLeaf v, CLeaf w => value_eqb v w
  | CNode lc, CNode _ =>
      (fix go (l : list (addr * cm)) : bool :=
         match l with
         | [] => true
         | (a, v) :: l' =>
             match cm_get a x with
             | Some w => cm_sub v w && go l'
             | None => false
             end
         end) lc
  | _, _ => false
  end.

Definition sites_of (g : gf) (x : cm) (args : value) : list (path * Z) :=
  match gf_sites g x args with Ok (l, _) => l | Err _ => [] end.

Definition gen_spec (g : gf) (x : option cm) (args : value) (o : tobs * Z) : bool :=
  let '(t, w) := o in
  coherent_obs g args t &&
  match x with
  | None => Z.eqb w 0
  | Some c =>
      cm_sub c (fst (fst t)) &&
      zeqc w (total_on (cm_binds c) (sites_of g (fst (fst t)) args))
  end.

(** Leaf value of a choice map at a path. *)
Definition leaf_at (x : cm) (p : path) : option value :=
  match cm_at x p with Some (CLeaf v) => Some v | _ => None end.
Fixpoint dm_at (x : dm) (p : path) : option dm :=
  match p with
  | [] => Some x
  | a :: p' => match x with DNode l => match lookup a l with Some y => dm_at y p' | None => None end
                          | _ => None end
  end.
Definition ov_eqb (a b : option value) : bool :=
  match a, b with Some x, Some y => value_eqb x y | None, None => true | _, _ => false end.

Definition obind {A B} (m : option A) (f : A -> option B) : option B :=
  match m with Some a => f a | None => None end.

(** update: coherent under the new arguments, constrained sites hold the new
    values, the others the old ones, weight = density ratio, the discard holds
    the visible old value of every constrained site. *)
Fixpoint bools_eqb (a b : list bool) : bool :=
  match a, b with
  | [], [] => true
  | x :: a', y :: b' => Bool.eqb x y && bools_eqb a' b'
  | _, _ => false
  end.

Fixpoint path_eqb (p q : path) : bool :=
  match p, q with
  | [], [] => true
  | a :: p', b :: q' => addr_eqb a b && path_eqb p' q'
  | _, _ => false
  end.
Fixpoint path_prefixb (p q : path) : bool :=
  match p, q with
  | [], _ => true
  | a :: p', b :: q' => addr_eqb a b && path_prefixb p' q'
  | _ :: _, [] => false
  end.

(** Does the move switch the branch taken by some Cond? *)
Definition flips (g : gf) (c0 : cm) (args0 : value) (c1 : cm) (args1 : value) : bool :=
  negb (bools_eqb (map snd (fst (gf_checks g c0 args0))) (map snd (fst (gf_checks g c1 args1)))).

(** paths of the Conds whose condition differs (or that exist on one side only) *)
Definition flipped_conds (g : gf) (c0 : cm) (args0 : value) (c1 : cm) (args1 : value) : list path :=
  let l0 := fst (gf_checks g c0 args0) in let l1 := fst (gf_checks g c1 args1) in
  let differs (a b : list (path * bool)) :=
    filter (fun q => negb (existsb (fun q' => path_eqb (fst q) (fst q') && Bool.eqb (snd q) (snd q')) b)) a in
  map fst (differs l0 l1 ++ differs l1 l0).

(** [strict = false] drops the "unconstrained addresses keep their old values"
    clause for moves that flip a Cond (known finding K1). *)
Definition upd_spec (strict : bool) (g : gf) (old : tobs) (args0 : value) (x : option cm) (args1 : value)
           (o : tobs * Z * dm) : bool :=
  let '(t, w, d) := o in
  let c := match x with Some c => c | None => CNode [] end in
  let newc := fst (fst t) in let oldc := fst (fst old) in
  let flip := flips g oldc args0 newc args1 in
  coherent_obs g args1 t &&
  Z.eqb w ((- snd (fst t)) - (- snd (fst old))) &&
  forallb (fun q =>
             let p := fst q in
             if cm_binds c p then
               ov_eqb (leaf_at newc p) (leaf_at c p) &&
               match dm_at d p with Some (DLeaf v) => ov_eqb (Some v) (leaf_at oldc p) | _ => false end
             else
               match leaf_at oldc p with
               | Some v => ov_eqb (leaf_at newc p) (Some v) || (negb strict && flip)
               | None => true   (* site not present before *)
               end)
          (sites_of g newc args1).

(** regenerate: coherent; unselected sites keep their values; when the set of
    visited sites is unchanged (no Cond flip) the weight is the change in joint
    density minus the change in the log prior of the selected sites; the
    discard holds the old values of the selected sites. *)
Definition same_paths' (l1 l2 : list (path * Z)) : bool :=
  Nat.eqb (length l1) (length l2) &&
  forallb (fun q => existsb (fun q' => path_eqb (fst q) (fst q')) l2) l1.

Definition regen_spec (g : gf) (old : tobs) (args0 : value) (s : sel) (args1 : value)
           (o : tobs * Z * dm) : bool :=
  let '(t, w, d) := o in
  let newc := fst (fst t) in let oldc := fst (fst old) in
  let ls1 := sites_of g newc args1 in let ls0 := sites_of g oldc args0 in
  let flip := flips g oldc args0 newc args1 in
  coherent_obs g args1 t &&
  forallb (fun q =>
             let p := fst q in
             if selected s p then
               match dm_at d p with
               | Some (DLeaf v) => ov_eqb (Some v) (leaf_at oldc p) || flip
               | _ => false
               end
             else
               match leaf_at oldc p with
               | Some v => ov_eqb (leaf_at newc p) (Some v) || flip
               | None => true
               end)
          ls1 &&
  (* the MH weight is required whenever the visited sites are unchanged, and also
     across a Cond switch when no selected site sits under a switched Cond (the
     mixture-indicator move: the switched Cond's own choices are all unselected) *)
  (let fl := flipped_conds g oldc args0 newc args1 in
   let sel_under_flip :=
     existsb (fun q => selected s (fst q) && existsb (fun c => path_prefixb c (fst q)) fl) (ls0 ++ ls1) in
   (if flip then sel_under_flip else negb (same_paths' ls0 ls1)) ||
   Z.eqb w ((total ls1 - total ls0) - (total_on (selected s) ls1 - total_on (selected s) ls0))).

(** ** Cases *)
Inductive op :=
| OUpd (x : option cm) (args : value)
| ORegen (s : sel) (args : value)
| OBack (args : value).            (* update with the previous step's discard *)

Definition step_obs := res (tobs * Z * dm).

Inductive gcase :=
| CSim (g : gast) (args : value) (o : res tobs)
| CAssess (g : gast) (x : cm) (args : value) (o : res (Z * value))
| CGen (g : gast) (x : option cm) (args : value) (o : res (tobs * Z))
| CHist (g : gast) (args0 : value) (ops : list op) (obs : list step_obs).

Definition zv_eqb (a b : Z * value) : bool := zeqc (fst a) (fst b) && value_eqb (snd a) (snd b).
Definition tz_eqb (a b : tobs * Z) : bool := tobs_eqb (fst a) (fst b) && zeqc (snd a) (snd b).
Definition step_eqb (a b : tobs * Z * dm) : bool :=
  let '(t1, w1, d1) := a in let '(t2, w2, d2) := b in
  tobs_eqb t1 t2 && Z.eqb w1 w2 && dm_eqb (dm_prune d1) (dm_prune d2).

Definition obs3 (r : tr * Z * dm) : tobs * Z * dm :=
  let '(t, w, d) := r in (obs_of t, w, d).

(** Run a history on the model; one observation per op, stopping at the first error. *)
Fixpoint run_hist (g : gf) (t : tr) (args_t : value) (last : dm) (ops : list op)
  : list (res (tr * Z * dm)) :=
  match ops with
  | [] => []
  | o :: ops' =>
      let r := match o with
               | OUpd x args => gf_update g t x args
               | ORegen s args => run_echo (gf_regenerate g t s args)
               | OBack args => gf_update g t (cm_of_dm last) args
               end in
      match r with
      | Ok (t', w, d) =>
          let a := match o with OUpd _ a | ORegen _ a | OBack a => a end in
          r :: run_hist g t' a d ops'
      | Err e => [r]
      end
  end.

Fixpoint hist_agree (ms : list (res (tr * Z * dm))) (os : list step_obs) : bool :=
  match ms, os with
  | [], [] => true
  | m :: ms', o :: os' =>
      res_agree step_eqb (match m with Ok r => Ok (obs3 r) | Err e => Err e end) o
      && hist_agree ms' os'
  | _, _ => false
  end.

(** Judge the implementation's own history against the spec: each step is
    judged relative to the implementation's previous observation. *)
Fixpoint hist_spec (strict : bool) (g : gf) (prev : tobs) (args_prev : value) (lastd : dm)
         (ops : list op) (os : list step_obs) : bool :=
  match ops, os with
  | [], _ => true
  | o :: ops', Ok (t, w, d) :: os' =>
      (match o with
       | OUpd x args => upd_spec strict g prev args_prev x args (t, w, d)
       | ORegen s args => regen_spec g prev args_prev s args (t, w, d)
       | OBack args => upd_spec strict g prev args_prev (cm_of_dm lastd) args (t, w, d)
       end) &&
      hist_spec strict g t (match o with OUpd _ a | ORegen _ a | OBack a => a end) d ops' os'
  | _ :: _, Err _ :: _ => false        (* the operations are total on coherent traces *)
  | _ :: _, [] => false
  end.

(** [(agree, spec_ok)].  When the implementation raised, the specification
    verdict is whether the program is erroneous in the model too (address
    collision, missing key, ill-typed arguments): the operations are total on
    well-formed inputs. *)
Definition is_err {A} (r : res A) : bool := match r with Err _ => true | Ok _ => false end.

Definition check_case (c : gcase) : bool * bool * bool :=
  match c with
  | CSim g args o =>
      let cg := compile g in
      let m := match run_echo (gf_simulate cg args) with Ok t => Ok (obs_of t) | Err e => Err e end in
      let s := match o with Ok t => coherent_obs cg args t | Err _ => is_err m end in
      (res_agree tobs_eqb m o, s, s)
  | CAssess g x args o =>
      let cg := compile g in
      let s := match o with Ok _ => res_agree zv_eqb (den cg x args) o | Err _ => is_err (gf_assess cg x args) end in
      (res_agree zv_eqb (gf_assess cg x args) o, s, s)
  | CGen g x args o =>
      let cg := compile g in
      let m := match run_echo (gf_generate cg x args) with
               | Ok (t, w) => Ok (obs_of t, w) | Err e => Err e end in
      let s := match o with Ok r => gen_spec cg x args r | Err _ => is_err m end in
      (res_agree tz_eqb m o, s, s)
  | CHist g args0 ops os =>
      let cg := compile g in
      match run_echo (gf_simulate cg args0) with
      | Ok t0 =>
          let ms := run_hist cg t0 args0 DNone ops in
          (hist_agree ms os,
           hist_spec true cg (obs_of t0) args0 DNone ops os,
           hist_spec false cg (obs_of t0) args0 DNone ops os)
      | Err _ => (false, false, false)
      end
  end.

(** Indices of the cases that are not (agree, strict-spec) clean, with
    [(agree, spec_strict, spec_relaxed)]. *)
Definition report (cs : list gcase) : list (nat * bool * bool * bool) :=
  (fix go (i : nat) (cs : list gcase) :=
     match cs with
     | [] => []
     | c :: cs' =>
         let '(a, s, r) := check_case c in
         if a && s then go (S i) cs' else (i, a, s, r) :: go (S i) cs'
     end) O cs.
