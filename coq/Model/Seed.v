(** Seed.v — model of genjax.pjax: the Seed interpreter's key discipline, the
    lowering rule of sample sites, and the residual program after seeding.

    Programs are mini-Jaxprs.  Keys are terms of the free key algebra,
    represented by the list of moves from the root key:
      jrand.split(k)[0] = k ++ [0],  jrand.split(k)[1] = k ++ [1],
      jrand.fold_in(k, i) = k ++ [i].
    Distinct terms stand for independent streams (the PRNG idealisation; the
    correspondence evaluates terms with the real threefry split/fold_in). *)
From Coq Require Import List Arith Bool Lia.
Import ListNotations.

(** With JAX's partitionable threefry, split(k)[i] and fold_in(k, i) are the same
    key (observed by the correspondence), so a move is just a child index: the
    algebra below makes that identification, which is the weaker assumption. *)
Definition move := nat.
Definition M0 : move := 0.
Definition M1 : move := 1.
Definition MF (i : nat) : move := i.
Definition key := list move.

Inductive jx :=
| JNil
| JSample (rest : jx)                     (* a sample_p site *)
| JDet (rest : jx)                        (* deterministic primitive *)
| JCond (b0 b1 : jx) (rest : jx)          (* lax.cond / switch with two branches *)
| JScan (len : nat) (body : jx) (rest : jx)
| JOther (body : jx) (rest : jx)          (* higher-order primitive Seed does not interpret:
                                             while_loop / fori_loop / nested jit / custom_jvp *)
| JGrad (body : jx) (rest : jx).          (* jax.grad / jvp / value_and_grad of a sub-function inside a staged
                                             program: JAX applies the JVP rule of every site in [body] at trace
                                             time; the rule raises the site's lowering error when its primals
                                             are tracers (it used to inline the staged keyless sampler and its
                                             baked-in key: fix F25), so for staging a differentiated block
                                             behaves like a construct that is not interpreted *)

(** scan iterations: iteration i runs the (seeded) body with key fold_in(sub, i) *)
Fixpoint iters (f : key -> list bool -> list key * list bool) (sub : key) (todo i : nat) (cs : list bool)
  : list key * list bool :=
  match todo with
  | O => ([], cs)
  | S todo' =>
      let '(li, cs1) := f (sub ++ [MF i]) cs in
      let '(lr, cs2) := iters f sub todo' (S i) cs1 in
      (li ++ lr, cs2)
  end.

(** One seeded run.  [cs] supplies the branch index taken at each cond reached
    (consumed in execution order); the result lists the key handed to each
    sample-site instance, in execution order. *)
Fixpoint seed_run (p : jx) (k : key) (cs : list bool) {struct p} : list key * list bool :=
  match p with
  | JNil => ([], cs)
  | JSample rest =>
      (* self.key, sub_key = split(self.key); site gets sub_key *)
      let '(l, cs') := seed_run rest (k ++ [M0]) cs in ((k ++ [M1]) :: l, cs')
  | JDet rest => seed_run rest k cs
  | JCond b0 b1 rest =>
      (* self.key, sub_key = split(self.key); the taken branch is seeded with sub_key *)
      let '(c, cs1) := match cs with c :: cs1 => (c, cs1) | [] => (false, []) end in
      let '(lb, cs2) := seed_run (if c then b1 else b0) (k ++ [M1]) cs1 in
      let '(l, cs3) := seed_run rest (k ++ [M0]) cs2 in
      (lb ++ l, cs3)
  | JScan len body rest =>
      (* self.key, sub_key = split(self.key); iteration i is seeded with fold_in(sub_key, i) *)
      let '(ls, cs1) := iters (seed_run body) (k ++ [M1]) len 0 cs in
      let '(l, cs2) := seed_run rest (k ++ [M0]) cs1 in
      (ls ++ l, cs2)
  | JOther body rest =>
      (* eqn.primitive.bind(...): the inner sites stay unseeded (they raise when lowered);
         the interpreter's key is not advanced *)
      seed_run rest k cs
  | JGrad body rest => seed_run rest k cs
  end.

(** Does the (traced) program contain a sample primitive at any depth? *)
Fixpoint has_sample (p : jx) : bool :=
  match p with
  | JNil => false
  | JSample _ => true
  | JDet rest => has_sample rest
  | JCond b0 b1 rest => has_sample b0 || has_sample b1 || has_sample rest
  | JScan _ body rest => has_sample body || has_sample rest
  | JOther body rest => has_sample body || has_sample rest
  | JGrad body rest => has_sample body || has_sample rest
  end.

(** Does the source program contain a sampling site at all (also under grad)? *)
Fixpoint contains_site (p : jx) : bool :=
  match p with
  | JNil => false
  | JSample _ => true
  | JDet rest => contains_site rest
  | JCond b0 b1 rest => contains_site b0 || contains_site b1 || contains_site rest
  | JScan _ body rest => contains_site body || contains_site rest
  | JOther body rest => contains_site body || contains_site rest
  | JGrad body rest => contains_site body || contains_site rest
  end.

(** Compiling (jit / lowering) a program: every sub-Jaxpr is lowered, and the
    lowering rule of a sample site raises.  [true] = raises the lowering error. *)
Definition lower_raises (p : jx) : bool := has_sample p.

(** The program left after seeding: interpreted sites are gone (they call the
    keyful sampler), sites under an uninterpreted higher-order primitive remain. *)
Fixpoint residual (p : jx) : jx :=
  match p with
  | JNil => JNil
  | JSample rest => JDet (residual rest)
  | JDet rest => JDet (residual rest)
  | JCond b0 b1 rest => JCond (residual b0) (residual b1) (residual rest)
  | JScan len body rest => JScan len (residual body) (residual rest)
  | JOther body rest => JOther body (residual rest)
  | JGrad body rest => JGrad body (residual rest)
  end.

(** Sites sitting under an uninterpreted primitive. *)
Fixpoint unseeded (p : jx) : bool :=
  match p with
  | JNil => false
  | JSample rest => unseeded rest
  | JDet rest => unseeded rest
  | JCond b0 b1 rest => unseeded b0 || unseeded b1 || unseeded rest
  | JScan _ body rest => unseeded body || unseeded rest
  | JOther body rest => has_sample body || unseeded rest
  | JGrad body rest => has_sample body || unseeded rest
  end.

(** The process-global key counter: staging a function traces every keyless
    sampler once (incrementing the counter); a seeded run reads it nowhere. *)
Fixpoint static_sites (p : jx) : nat :=
  match p with
  | JNil => 0
  | JSample rest => S (static_sites rest)
  | JDet rest => static_sites rest
  | JCond b0 b1 rest => static_sites b0 + static_sites b1 + static_sites rest
  | JScan _ body rest => static_sites body + static_sites rest
  | JOther body rest => static_sites body + static_sites rest
  | JGrad body rest => static_sites body + static_sites rest
  end.

Record gstate := { counter : nat; cache_warm : bool }.

Definition seeded_call (G : gstate) (p : jx) (k : key) (cs : list bool) : list key * gstate :=
  (fst (seed_run p k cs),
   {| counter := if cache_warm G then counter G else counter G + static_sites p; cache_warm := true |}).
