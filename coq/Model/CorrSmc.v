(** CorrSmc.v — correspondence / specification judgement for SMC pipelines (C10).
    Particles carry real (dyadic) random choices drawn under seed; the checker
    judges each stage against the specification semantics: weight identity per
    particle, weights kept by rejuvenation, resampling invariants, and
    exp(log_marginal_likelihood) = exp(estimate) * mean(2^lw). *)
From Coq Require Import QArith Qabs.
From GV Require Export Model.Corr.

Inductive sop :=
| SInit (target : gast) (args : value) (obsc : cm) (prop : option gast)
| SExtend (target : gast) (obsc : cm) (prop : option gast)   (* args_i = [previous retval_i] *)
| SRejuv
| SResample.

Definition part := (cm * Z * value * Z)%type.   (* choices, log weight (ln 2 units), retval, score *)
(** [sn_fvals]: a test function's value on each particle's choices (computed by the harness from the
    choices, not by the library); [sn_fest]: ParticleCollection.estimate of that function;
    [sn_fest2]: second component of estimate of the vector-valued function (f, f^2) *)
Record snap := { sn_parts : list part; sn_est : Q; sn_lml : Q;
                 sn_fvals : list Z; sn_fest : Q; sn_fest2 : Q }.


Definition pow2 (k : Z) : Q := Qpower (2 # 1) k.

Definition qrel_close (x y : Q) : bool :=
  Qle_bool (Qabs (x - y)) ((1 # 2000) * Qabs y)%Q.

Definition lml_ok (s : snap) : bool :=
  let ws := map (fun p : part => pow2 (snd (fst (fst p)))) (sn_parts s) in
  let n := Z.of_nat (length ws) in
  qrel_close (sn_lml s) (sn_est s * (fold_right Qplus 0%Q ws / inject_Z n))%Q.

(** estimate(f) = sum_i w_i f(x_i) / sum_i w_i  (self-normalised), scalar- and vector-valued f *)
Definition fest_ok (s : snap) : bool :=
  let ws := map (fun p : part => pow2 (snd (fst (fst p)))) (sn_parts s) in
  let tot := fold_right Qplus 0%Q ws in
  let wf := fold_right Qplus 0%Q (map (fun x : Q * Z => (fst x * inject_Z (snd x))%Q) (combine ws (sn_fvals s))) in
  let wf2 := fold_right Qplus 0%Q (map (fun x : Q * Z => (fst x * inject_Z (snd x * snd x))%Q) (combine ws (sn_fvals s))) in
  Nat.eqb (length (sn_fvals s)) (length ws) &&
  Qle_bool (Qabs (sn_fest s * tot - wf)) ((1 # 2000) * (Qabs wf + tot))%Q &&
  Qle_bool (Qabs (sn_fest2 s * tot - wf2)) ((1 # 2000) * (Qabs wf2 + tot))%Q.

(** increment of the log weight produced by one generate-based move *)
Definition incr_ok (target : gf) (args : value) (obsc : cm) (prop : option gf) (p : part) (dlw : Z) : bool :=
  let '(c, _, r, sc) := p in
  match gf_sites target c args with
  | Ok (l, r') =>
      value_eqb r r' && Z.eqb (total l) (- sc) && cm_sub obsc c &&
      match prop with
      | None => Z.eqb dlw (total_on (cm_binds obsc) l)
      | Some q =>
          (* the proposal may cover only some of the latent sites: the target is then generated under
             observations + proposed values, its weight counts exactly those sites, the rest are drawn
             from the target's own prior and cancel *)
          match gf_sites q c args with
          | Ok (lq, _) =>
              let covered := fun pth => cm_binds obsc pth || existsb (fun e => path_eqb pth (fst e)) lq in
              Z.eqb dlw (total_on covered l - total lq)
          | Err _ => false
          end
      end
  | Err _ => false
  end.

Definition part_eqb (a b : part) : bool :=
  let '(c1, _, r1, s1) := a in let '(c2, _, r2, s2) := b in
  cm_eqb c1 c2 && value_eqb r1 r2 && Z.eqb s1 s2.

Definition lw (p : part) : Z := snd (fst (fst p)).
Definition pret (p : part) : value := snd (fst p).

(** state of the checker: current target, observations so far for it, per-particle args *)
Fixpoint stages (cur : option (gf * cm)) (argsl : list value) (prev : option snap)
         (ops : list sop) (snaps : list snap) : bool :=
  match ops, snaps with
  | [], [] => true
  | o :: ops', s :: snaps' =>
      lml_ok s && fest_ok s &&
      match o with
      | SInit tg args obsc prop =>
          let g := compile tg in
          forallb (fun p => incr_ok g args obsc (option_map compile prop) p (lw p)) (sn_parts s)
          && qrel_close (sn_est s) 1
          && stages (Some (g, obsc)) (map (fun _ => args) (sn_parts s)) (Some s) ops' snaps'
      | SExtend tg obsc prop =>
          match prev with
          | None => false
          | Some ps =>
              let g := compile tg in
              let al := map (fun p => VTup [pret p]) (sn_parts ps) in
              Nat.eqb (length (sn_parts s)) (length (sn_parts ps)) &&
              forallb (fun x => let '(p, (p0, a)) := x in
                                incr_ok g a obsc (option_map compile prop) p (lw p - lw p0))
                      (combine (sn_parts s) (combine (sn_parts ps) al))
              && qrel_close (sn_est s) (sn_est ps)
              && stages (Some (g, obsc)) al (Some s) ops' snaps'
          end
      | SRejuv =>
          match prev, cur with
          | Some ps, Some (g, obsc) =>
              Nat.eqb (length (sn_parts s)) (length (sn_parts ps)) &&
              forallb (fun x => let '(p, p0) := x in
                                Z.eqb (lw p) (lw p0) &&
                                (let '(c, _, r, sc) := p in
                                 existsb (fun a => coherent_obs g a (c, sc, r)) argsl && cm_sub obsc c))
                      (combine (sn_parts s) (sn_parts ps))
              && qrel_close (sn_est s) (sn_est ps)
              && stages cur argsl (Some s) ops' snaps'
          | _, _ => false
          end
      | SResample =>
          match prev with
          | Some ps =>
              Nat.eqb (length (sn_parts s)) (length (sn_parts ps)) &&
              forallb (fun p => Z.eqb (lw p) 0 && existsb (part_eqb p) (sn_parts ps)) (sn_parts s)
              && qrel_close (sn_est s) (sn_lml ps) && qrel_close (sn_lml s) (sn_lml ps)
              (* the per-particle arguments of the copies are unknown to the checker:
                 later rejuvenation stages are judged only through weights *)
              && stages cur argsl (Some s) ops' snaps'
          | None => false
          end
      end
  | _, _ => false
  end.

(** ** rejuvenation_smc (return_all_particles=True): one snapshot per time step, taken after
    extend [+ resample when ESS < N // 2] [+ rejuvenation moves].  Between two snapshots either no
    resampling happened — then every particle's weight increment is the generate / proposal
    increment for its own previous return value, the estimate is unchanged and the effective
    sample size of the new weights is not below N // 2 (otherwise the rule should have resampled) —
    or it did: all weights are 0, every particle extends some previous particle, and
    exp(lml) = estimate.  With an MCMC kernel the traces move after the weights are fixed, so
    only coherence (each trace is a run of the model on some previous particle's return value and
    holds the observations) and the weight bookkeeping that remains observable are judged. *)
Definition ess_ok (ps : list part) (nfloor : Z) : bool :=
  let ws := map (fun p : part => pow2 (lw p)) ps in
  let s1 := fold_right Qplus 0%Q ws in
  let s2 := fold_right Qplus 0%Q (map (fun w => w * w)%Q ws) in
  (* ESS = s1^2 / s2 >= nfloor - 1/1000 *)
  Qle_bool ((inject_Z nfloor - (1 # 1000)) * s2)%Q (s1 * s1)%Q.

Definition coherent_with (g : gf) (obsc : cm) (al : list value) (p : part) : bool :=
  let '(c, _, r, sc) := p in
  cm_sub obsc c && existsb (fun a => coherent_obs g a (c, sc, r)) al.

Definition auto_step (g : gf) (obsc : cm) (prop : option gf) (kernel : bool) (nfloor : Z)
           (al_own : list value) (al_any : list value) (prev_lw : list Z) (prev_est : Q) (first : bool) (s : snap) : bool :=
  let ps := sn_parts s in
  lml_ok s && fest_ok s &&
  let resampled := forallb (fun p => Z.eqb (lw p) 0) ps && forallb (coherent_with g obsc al_any) ps
                   && qrel_close (sn_lml s) (sn_est s) in
  let plain :=
      Nat.eqb (length ps) (length al_own) &&
      (if kernel then
         forallb (coherent_with g obsc al_any) ps
       else
         forallb (fun x => let '(p, (a, l0)) := x in incr_ok g a obsc prop p (lw p - l0))
                 (combine ps (combine al_own prev_lw)))
      && qrel_close (sn_est s) prev_est
      && (if kernel then true else ess_ok ps nfloor) in
  plain || resampled.

Fixpoint auto_steps (g : gf) (prop : option gf) (kernel : bool) (nfloor : Z)
         (prev : snap) (obss : list cm) (snaps : list snap) : bool :=
  match obss, snaps with
  | [], [] => true
  | obsc :: obss', s :: snaps' =>
      let al := map (fun p => VTup [pret p]) (sn_parts prev) in
      auto_step g obsc prop kernel nfloor al al (map lw (sn_parts prev)) (sn_est prev) false s
      && auto_steps g prop kernel nfloor s obss' snaps'
  | _, _ => false
  end.

Inductive smc_case :=
| CSmc (ops : list sop) (snaps : list snap)
| CRsmc (target : gast) (args0 : value) (prop : option gast) (kernel : bool) (n : nat)
        (obss : list cm) (snaps : list snap)
| CFlagSmc (ok : bool).

Definition check_smc (c : smc_case) : bool * bool * bool :=
  match c with
  | CSmc ops snaps => let ok := stages None [] None ops snaps in (ok, ok, ok)
  | CRsmc tg args0 prop kernel n obss snaps =>
      let g := compile tg in
      let nfloor := (Z.of_nat n / 2)%Z in
      let ok :=
        match obss, snaps with
        | obs0 :: obss', s0 :: snaps' =>
            Nat.eqb (length (sn_parts s0)) n &&
            auto_step g obs0 None kernel nfloor (map (fun _ => args0) (sn_parts s0)) [args0]
                      (map (fun _ => 0%Z) (sn_parts s0)) 1%Q true s0
            && auto_steps g (option_map compile prop) kernel nfloor s0 obss' snaps'
        | _, _ => false
        end in
      (ok, ok, ok)
  | CFlagSmc ok => (ok, ok, ok)
  end.

Definition smc_report (cs : list smc_case) : list (nat * bool * bool * bool) :=
  (fix go (i : nat) (cs : list smc_case) :=
     match cs with
     | [] => []
     | c :: cs' =>
         let '(a, s, r) := check_smc c in
         if a && s then go (S i) cs' else (i, a, s, r) :: go (S i) cs'
     end) O cs.
