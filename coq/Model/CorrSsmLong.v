(** CorrSsmLong.v — long observation sequences for the discrete HMM (C20): the
    implementation's log marginal is compared with ln of the model's exact rational
    marginal by certified interval arithmetic; the last filtering distribution in
    probability space. *)
From Coq Require Import Reals QArith Qcanon List Arith Bool.
From Interval Require Import Tactic.
From GV Require Import Model.Hmm Model.CorrSsm.
Import ListNotations.

Definition q2r (q : Q) : R := (IZR (Qnum q) / IZR (Zpos (Qden q)))%R.

(** one pass of the vector recursion: the exact marginal and the judgement of the last
    filtering distribution *)
Definition long_eval (K : nat) (pi0 : list Q) (A E : list (list Q)) (ys : list nat) (filt : list Q) : Q * bool :=
  let av := alpha_vec K (tab1 pi0) (tab2 A) (tab2 E) ys in
  let m := fold_right Qcplus (Q2Qc 0) av in
  (this m, vclose (1 # 2000) filt (map (fun a => this (a / m)%Qc) av)).

Lemma long_eval_marginal K pi0 A E ys filt :
  fst (long_eval K pi0 A E ys filt) = this (marginal_vec K (tab1 pi0) (tab2 A) (tab2 E) ys).
Proof. reflexivity. Qed.

Ltac hmm_long i K pi0 A E ys lm tol filt :=
  let r := eval vm_compute in (long_eval K pi0 A E ys filt) in
  lazymatch r with
  | (?m, true) =>
      tryif assert_succeeds
              (assert (Rabs (q2r lm - ln (q2r m)) <= q2r tol)%R
                by (cbv [q2r Qnum Qden]; interval with (i_prec 80)))
      then idtac "CASE" i "OK"
      else tryif assert_succeeds
                   (assert (q2r tol < Rabs (q2r lm - ln (q2r m)))%R
                     by (cbv [q2r Qnum Qden]; interval with (i_prec 80)))
           then idtac "CASE" i "BAD"
           else idtac "CASE" i "UNDECIDED"
  | (_, false) => idtac "CASE" i "BADFILTER"
  end.
