(** CorrSsmLong.v — long observation sequences for the discrete HMM (C20): the
    implementation's log marginal is compared with ln of the model's exact rational
    marginal by certified interval arithmetic; the last filtering distribution in
    probability space. *)
From Coq Require Import Reals QArith Qcanon List Arith Bool.
From Interval Require Import Tactic.
From GV Require Import Model.Hmm Model.CorrSsm.
Import ListNotations.

Definition q2r (q : Q) : R := (IZR (Qnum q) / IZR (Zpos (Qden q)))%R.

Definition long_marginal (K : nat) (pi0 : list Q) (A E : list (list Q)) (ys : list nat) : Q :=
  this (marginal_vec K (tab1 pi0) (tab2 A) (tab2 E) ys).

Definition long_filter_ok (K : nat) (pi0 : list Q) (A E : list (list Q)) (ys : list nat) (filt : list Q) : bool :=
  let av := alpha_vec K (tab1 pi0) (tab2 A) (tab2 E) ys in
  let m := fold_right Qcplus (Q2Qc 0) av in
  vclose (1 # 2000) filt (map (fun a => this (a / m)%Qc) av).

Ltac hmm_long i K pi0 A E ys lm tol filt :=
  let m := eval vm_compute in (long_marginal K pi0 A E ys) in
  let f := eval vm_compute in (long_filter_ok K pi0 A E ys filt) in
  lazymatch f with
  | true =>
      tryif assert_succeeds
              (assert (Rabs (q2r lm - ln (q2r m)) <= q2r tol)%R
                by (cbv [q2r Qnum Qden]; interval with (i_prec 80)))
      then idtac "CASE" i "OK"
      else tryif assert_succeeds
                   (assert (q2r tol < Rabs (q2r lm - ln (q2r m)))%R
                     by (cbv [q2r Qnum Qden]; interval with (i_prec 80)))
           then idtac "CASE" i "BAD"
           else idtac "CASE" i "UNDECIDED"
  | false => idtac "CASE" i "BADFILTER"
  end.
