(** Ast.v — a first-order program syntax shared by the harness and the model.
    The harness builds the *same* AST as a genjax program (harness/gfi_build.py)
    and as a [gf] (here, [compile]); theorems about [gf] cover every [compile]
    image.  Vmap and Scan are compiled lane-wise / step-wise into [GFn]s over
    [ALane] addresses. *)
From GV Require Export Model.Gfi.

Inductive expr :=
| EK (z : Z)
| EV (i : nat)                 (* environment slot: arguments, then call results *)
| EAdd (a b : expr) | ESub (a b : expr) | EMul (a b : expr)
| EGt (a b : expr)             (* boolean a > b *)
| ETup (l : list expr)
| EIdx (a : expr) (i : nat).   (* tuple / array projection *)

Inductive gast :=
| ADist (kind : nat)
| AFn (body : past)
| ACond (g1 g2 : gast)
| AVmap (n : nat) (axes : list bool) (g : gast)   (* per argument: mapped (axis 0) or broadcast *)
| AScan (len : nat) (g : gast)
with past :=
| PRet (e : expr)
| PCall (a : nat) (g : gast) (args : list expr) (k : past).

Definition vnth (i : nat) (l : list value) : value := nth i l VNone.

Definition zop (f : Z -> Z -> Z) (a b : value) : value :=
  match a, b with VZ x, VZ y => VZ (f x y) | _, _ => VNone end.

Fixpoint eval (e : expr) (env : list value) {struct e} : value :=
  match e with
  | EK z => VZ z
  | EV i => vnth i env
  | EAdd a b => zop Z.add (eval a env) (eval b env)
  | ESub a b => zop Z.sub (eval a env) (eval b env)
  | EMul a b => zop Z.mul (eval a env) (eval b env)
  | EGt a b => match eval a env, eval b env with
               | VZ x, VZ y => VB (Z.ltb y x) | _, _ => VNone end
  | ETup l => VTup ((fix go (l : list expr) := match l with [] => [] | x :: l' => eval x env :: go l' end) l)
  | EIdx a i => match eval a env with VTup l => vnth i l | _ => VNone end
  end.

(** The stub distributions: arguments are [(tape, param)]; the sampler returns
    its tape argument, the log density is integer valued. *)
Definition zabs_diff (v p : value) : Z :=
  match v, p with VZ x, VZ y => Z.abs (x - y) | _, _ => 0 end.
(** kind 3: a real dyadic categorical over {0,1,2} with masses (1/2,1/4,1/4)
    rotated by the parameter; log masses in units of ln 2.  Arguments [(param)]. *)
Definition dy_logpdf (x p : value) : Z :=
  match x, p with
  | VZ v, VZ q => if Z.eqb ((v - q) mod 3) 0 then -1 else -2
  | _, _ => 0
  end.

(** kind 4: bounded support {v >= p}: log density -(v-p) inside, -infinity
    outside.  -infinity is modelled by the sentinel [NEGINF]; totals are clamped
    by the correspondence before comparison (Corr.v: clampz). *)
Definition NEGINF : Z := -1000000000.
Definition bs_logpdf (x p : value) : Z :=
  match x, p with
  | VZ v, VZ q => if Z.leb q v then - (v - q) else NEGINF
  | _, _ => 0
  end.

Definition stub_logpdf (kind : nat) (x args : value) : Z :=
  match kind, args with
  | 3%nat, VTup [p] => dy_logpdf x p
  | 4%nat, VTup [_; p] => bs_logpdf x p
  | _, _ =>
  match args with
  | VTup [_; p] =>
      match kind with
      | O => - zabs_diff x p
      | S O => - (2 * zabs_diff x p) - 1
      | _ => - (3 * zabs_diff x p) - 2
      end
  | _ => 0
  end
  end.
(** scripted samplers: kinds 0-2 return their tape argument, kind 4 returns
    max(tape, param) (always inside the support). *)
Definition stub_sample (kind : nat) (args : value) : value :=
  match kind, args with
  | 4%nat, VTup [VZ t; VZ p] => VZ (Z.max t p)
  | _, VTup (t :: _) => t
  | _, _ => VNone
  end.
Definition stub (kind : nat) : dist := {| logpdf := stub_logpdf kind; dsample := stub_sample kind |}.

Definition args_list (v : value) : list value :=
  match v with VTup l => l | _ => [] end.

(** Lane [i] of the arguments of a Vmap. *)
Fixpoint lane_args (axes : list bool) (args : list value) (i : nat) : list value :=
  match axes, args with
  | b :: axes', a :: args' =>
      (if b then match a with VTup l => vnth i l | _ => VNone end else a)
        :: lane_args axes' args' i
  | _, _ => args   (* in_axes shorter than args: remaining broadcast *)
  end.

(** Vmap: call the callee once per lane at [ALane i], stack the results. *)
Fixpoint vmap_prog (g : gf) (axes : list bool) (args : list value) (todo : nat) (i : nat)
         (acc : list value) : prog :=
  match todo with
  | O => Ret (VTup (rev acc))
  | S todo' =>
      Call (ALane i) g (VTup (lane_args axes args i))
           (fun r => vmap_prog g axes args todo' (S i) (r :: acc))
  end.

(** Scan: thread the carry, stack the outputs.  Arguments [(init, xs)], callee
    arguments [(carry, x)], callee result [(carry', out)]. *)
Fixpoint scan_prog (g : gf) (xs : value) (todo : nat) (i : nat) (carry : value)
         (acc : list value) : prog :=
  match todo with
  | O => Ret (VTup [carry; VTup (rev acc)])
  | S todo' =>
      Call (ALane i) g (VTup [carry; match xs with VTup l => vnth i l | _ => VNone end])
           (fun r => match r with
                     | VTup [c'; out] => scan_prog g xs todo' (S i) c' (out :: acc)
                     | _ => Fail EType
                     end)
  end.

Fixpoint compile (g : gast) : gf :=
  match g with
  | ADist kind => GDist (stub kind)
  | AFn body => GFn (fun args => compile_p body (args_list args))
  | ACond g1 g2 => GCond (compile g1) (compile g2)
  | AVmap n axes g1 =>
      let cg := compile g1 in
      GFn (fun args => vmap_prog cg axes (args_list args) n 0 [])
  | AScan len g1 =>
      let cg := compile g1 in
      GFn (fun args => match args with
                       | VTup [init; xs] => scan_prog cg xs len 0 init []
                       | _ => Fail EType
                       end)
  end
with compile_p (p : past) (env : list value) : prog :=
  match p with
  | PRet e => Ret (eval e env)
  | PCall a g args k =>
      Call (AName a) (compile g)
           (VTup ((fix go (l : list expr) := match l with [] => [] | x :: l' => eval x env :: go l' end) args))
           (fun r => compile_p k (env ++ [r]))
  end.

(** Resolve every draw by the tape component of its arguments. *)
Fixpoint run_echo {A} (m : samp A) : res A :=
  match m with
  | SRet a => Ok a
  | SErr e => Err e
  | SDraw d args k => run_echo (k (dsample d args))
  end.

Lemma run_echo_reach {A} (m : samp A) a : run_echo m = Ok a -> reach m a.
Proof.
  induction m as [x|d args k IH|e]; cbn; intros H.
  - inversion H; constructor.
  - econstructor; eauto.
  - discriminate.
Qed.
