(** CorrVmap.v — correspondence cases for modular_vmap's sample rule (C08). *)
From Coq Require Import List Arith Bool.
Import ListNotations.
From GV Require Import Model.Vmap.

(** row-major flat index *)
Fixpoint flat (s : shape) (idx : list nat) : nat :=
  match s, idx with
  | d :: s', i :: idx' => i * fold_right Nat.mul 1 s' + flat s' idx'
  | _, _ => 0
  end.

(** all index lists of a shape, row-major *)
Fixpoint indices (s : shape) : list (list nat) :=
  match s with
  | [] => [[]]
  | d :: s' => flat_map (fun i => map (cons i) (indices s')) (seq 0 d)
  end.

Inductive vcase :=
(* S, shapes of a and b after moving batch axes to the front, batched flags, axis_size,
   number of lanes, per-lane output shape (without S), and for every (lane, s, j) in
   row-major order the flat ids of the a and b elements the output element was drawn with *)
| CSample (SS sa sb : shape) (ba bb : bool) (axis_size : option nat) (n : nat) (pl : shape)
          (obs : list (nat * nat))
| CFlag (ok : bool).       (* comparisons made against jax.vmap of a reference function *)

Fixpoint pairs_eqb (a b : list (nat * nat)) : bool :=
  match a, b with
  | [], [] => true
  | (x1, y1) :: a', (x2, y2) :: b' => Nat.eqb x1 x2 && Nat.eqb y1 y2 && pairs_eqb a' b'
  | _, _ => false
  end.

Definition check_vcase (c : vcase) : bool * bool * bool :=
  match c with
  | CFlag ok => (ok, ok, ok)
  | CSample SS sa sb ba bb axs n pl obs =>
      let x := {| a_shape := sa; a_batched := ba |} in
      let y := {| a_shape := sb; a_batched := bb |} in
      let model :=
        flat_map (fun lane =>
          flat_map (fun s =>
            map (fun j => let e := batched_elem SS x y axs lane s j in
                          (flat sa (e_a e), flat sb (e_b e))) (indices pl)) (indices SS)) (seq 0 n) in
      let spec :=
        flat_map (fun lane =>
          flat_map (fun s =>
            map (fun j => let '(ia, ib) := lane_elem SS x y lane s j in (flat sa ia, flat sb ib)) (indices pl))
                   (indices SS)) (seq 0 n) in
      (pairs_eqb model obs, pairs_eqb spec obs, true)
  end.

Definition vreport (cs : list vcase) : list (nat * bool * bool * bool) :=
  (fix go (i : nat) (cs : list vcase) :=
     match cs with
     | [] => []
     | c :: cs' =>
         let '(a, s, r) := check_vcase c in
         if a && s then go (S i) cs' else (i, a, s, r) :: go (S i) cs'
     end) O cs.
