(** CorrResample.v — correspondence cases for C12. *)
From Coq Require Import ZArith List Lia Bool QArith Qabs.
Import ListNotations.
From GV Require Import Model.Resample.
Open Scope Z_scope.

Inductive rcase :=
(* systematic_resample on weights ws with scripted offset a/b: observed indices *)
| RSys (ws : list Z) (N : nat) (a b : Z) (idx : list nat)
(* resample(): per-field leaves before/after, observed weights reset flag, lml before/after
   as exact rationals of the float32 values, tolerance num/den *)
| RRes (fields_in fields_out : list (list Z)) (weights_zero : bool)
       (lml_before lml_after : Q) (diag_ok : bool)
       (ws : list Z) (sys : option (Z * Z)).   (* current weights; scripted offset when systematic *)

Fixpoint nats_eqb (a b : list nat) : bool :=
  match a, b with [] , [] => true | x :: a', y :: b' => Nat.eqb x y && nats_eqb a' b' | _, _ => false end.

Fixpoint find_index (v : Z) (l : list Z) (i : nat) : option nat :=
  match l with [] => None | x :: l' => if Z.eqb x v then Some i else find_index v l' (S i) end.

(** every output particle is a copy of ONE input particle on every field *)
Definition faithful (fin fout : list (list Z)) : bool :=
  match fin, fout with
  | f0 :: _, g0 :: _ =>
      forallb (fun j =>
                 match find_index (nth j g0 0) f0 0 with
                 | None => false
                 | Some i => forallb (fun fg => Z.eqb (nth j (snd fg) 0) (nth i (fst fg) 0)) (combine fin fout)
                 end) (seq 0 (length g0))
      && Nat.eqb (length g0) (length f0) && Nat.eqb (length fin) (length fout)
  | _, _ => false
  end.

Definition floor_ok (ws : list Z) (N : nat) (idx : list nat) : bool :=
  let T := sumz ws in
  forallb (fun i => let c := Z.of_nat (copies idx i) in
                    let w := nth i ws 0 in
                    let lo := (Z.of_nat N * w) / T in
                    let hi := (Z.of_nat N * w + T - 1) / T in
                    (lo <=? c) && (c <=? hi)) (seq 0 (length ws))
  && Nat.eqb (length idx) N
  && forallb (fun i => Nat.ltb i (length ws)) idx.     (* every index names an input particle *)

Definition qclose (x y : Q) : bool :=
  Qle_bool (Qabs (x - y)) (1 # 20000)%Q.

Definition check_rcase (c : rcase) : bool * bool * bool :=
  match c with
  | RSys ws N a b idx =>
      (nats_eqb (sys_indices ws N a b) idx, floor_ok ws N idx, floor_ok ws N idx)
  | RRes fin fout wz l0 l1 dok ws sys =>
      let src := match fin, fout with
                 | f0 :: _, g0 :: _ => map (fun v => match find_index v f0 0 with Some i => i | None => length f0 end) g0
                 | _, _ => []
                 end in
      let follows :=
        match sys with
        | Some (a, b) => nats_eqb src (sys_indices ws (length ws) a b)
        | None => forallb (fun i => 0 <? nth i ws 0) src     (* never copy a zero-weight particle *)
        end in
      let ok := faithful fin fout && wz && qclose l0 l1 && dok && follows in (ok, ok, ok)
  end.

Definition rreport (cs : list rcase) : list (nat * bool * bool * bool) :=
  (fix go (i : nat) (cs : list rcase) :=
     match cs with
     | [] => []
     | c :: cs' =>
         let '(a, s, r) := check_rcase c in
         if a && s then go (S i) cs' else (i, a, s, r) :: go (S i) cs'
     end) O cs.
