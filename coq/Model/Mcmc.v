(** Mcmc.v — model of genjax.inference.mcmc mh / mala / hmc over exact rationals.
    Targets are Gaussian programs: site i is normal(mu_i(env), sigma_i) with mu_i
    affine in the arguments and the earlier site values, so the log density is a
    quadratic polynomial and every quantity the kernels compute is rational
    (the Gaussian normalising constants cancel in every difference the kernels
    form).  Gradients are computed with dual numbers. *)
From Coq Require Import QArith List Bool.
Import ListNotations.
Open Scope Q_scope.

Inductive qexpr :=
| QK (q : Q) | QV (i : nat)
| QAdd (a b : qexpr) | QSub (a b : qexpr) | QMulK (k : Q) (a : qexpr).

Record nsite := { n_mu : qexpr; n_sig : Q }.
Definition gmodel := list nsite.      (* env = arguments ++ values of the earlier sites *)

(** dual numbers *)
Definition dual := (Q * Q)%type.
(** results are kept in lowest terms ([Qred q == q]) so that evaluation stays small *)
Definition dadd (a b : dual) : dual := (Qred (fst a + fst b), Qred (snd a + snd b)).
Definition dsub (a b : dual) : dual := (Qred (fst a - fst b), Qred (snd a - snd b)).
Definition dmul (a b : dual) : dual := (Qred (fst a * fst b), Qred (fst a * snd b + snd a * fst b)).
Definition dk (q : Q) : dual := (q, 0).

Fixpoint deval (e : qexpr) (env : list dual) : dual :=
  match e with
  | QK q => dk q
  | QV i => nth i env (dk 0)
  | QAdd a b => dadd (deval a env) (deval b env)
  | QSub a b => dsub (deval a env) (deval b env)
  | QMulK k a => dmul (dk k) (deval a env)
  end.

(** unnormalised joint log density  sum_i -(x_i - mu_i)^2 / (2 sigma_i^2)  as a dual number *)
Fixpoint dlogp (m : gmodel) (env : list dual) (xs : list dual) : dual :=
  match m, xs with
  | s :: m', x :: xs' =>
      let d := dsub x (deval (n_mu s) env) in
      dadd (dmul (dk (- (1 # 2) / (n_sig s * n_sig s))) (dmul d d))
           (dlogp m' (env ++ [x]) xs')
  | _, _ => dk 0
  end.

Definition logp (m : gmodel) (args xs : list Q) : Q :=
  fst (dlogp m (map dk args) (map dk xs)).

(** d logp / d x_k *)
Definition seed_dir (xs : list Q) (k : nat) : list dual :=
  map (fun p => (snd p, if Nat.eqb (fst p) k then 1 else 0)) (combine (seq 0 (length xs)) xs).
Definition grad_k (m : gmodel) (args xs : list Q) (k : nat) : Q :=
  snd (dlogp m (map dk args) (seed_dir xs k)).
Definition grad (m : gmodel) (args xs : list Q) (sel : list nat) : list Q :=
  map (grad_k m args xs) sel.

(** write the selected coordinates *)
Fixpoint put (xs : list Q) (sel : list nat) (vs : list Q) : list Q :=
  match sel, vs with
  | k :: sel', v :: vs' =>
      put (map (fun p => if Nat.eqb (fst p) k then v else snd p) (combine (seq 0 (length xs)) xs)) sel' vs'
  | _, _ => xs
  end.
Definition get (xs : list Q) (sel : list nat) : list Q := map (fun k => nth k xs 0) sel.

Definition qsum (l : list Q) : Q := fold_right (fun a b => Qred (a + b)) 0 l.
Definition map2 (f : Q -> Q -> Q) (a b : list Q) : list Q := map (fun p => f (fst p) (snd p)) (combine a b).
Definition map3 (f : Q -> Q -> Q -> Q) (a b c : list Q) : list Q :=
  map (fun p => f (fst (fst p)) (snd (fst p)) (snd p)) (combine (combine a b) c).

Definition qmin0 (x : Q) : Q := if Qle_bool x 0 then x else 0.

(** the Metropolis-Hastings accept rule used by all three kernels *)
Definition accepts (logu log_alpha : Q) : bool := negb (Qle_bool (qmin0 log_alpha) logu).

(** unnormalised Gaussian log density (the constant -ln(sigma sqrt(2 pi)) is dropped) *)
Definition nlp (x mean sig : Q) : Q := Qred (- (x - mean) * (x - mean) / (2 * sig * sig)).

Record mala_out := { m_prop : list Q; m_log_alpha : Q; m_accept : bool; m_final : list Q }.

Definition mala (m : gmodel) (args xs : list Q) (sel : list nat) (eps : Q) (noise : list Q) (logu : Q)
  : mala_out :=
  let cur := get xs sel in
  let g := grad m args xs sel in
  let prop := map3 (fun x gk xi => Qred (x + (eps * eps / 2) * gk + eps * xi)) cur g noise in
  let xs' := put xs sel prop in
  let fwd := qsum (map3 (fun x p gk => nlp p (x + (eps * eps / 2) * gk) eps) cur prop g) in
  let g' := grad m args xs' sel in
  let bwd := qsum (map3 (fun p x gk => nlp x (p + (eps * eps / 2) * gk) eps) prop cur g') in
  let la := Qred ((logp m args xs' - logp m args xs) + bwd - fwd) in
  let acc := accepts logu la in
  {| m_prop := prop; m_log_alpha := la; m_accept := acc; m_final := if acc then xs' else xs |}.

(** one leapfrog step on the selected coordinates *)
Definition leapfrog (m : gmodel) (args xs : list Q) (sel : list nat) (eps : Q)
           (st : list Q * list Q * list Q) : list Q * list Q * list Q :=
  let '(pos, mom, g) := st in
  let mom1 := map2 (fun p gk => Qred (p + (eps / 2) * gk)) mom g in
  let pos1 := map2 (fun x p => Qred (x + eps * p)) pos mom1 in
  let g1 := grad m args (put xs sel pos1) sel in
  let mom2 := map2 (fun p gk => Qred (p + (eps / 2) * gk)) mom1 g1 in
  (pos1, mom2, g1).

Fixpoint iter {A} (n : nat) (f : A -> A) (a : A) : A :=
  match n with O => a | S n' => iter n' f (f a) end.

Definition hmc (m : gmodel) (args xs : list Q) (sel : list nat) (eps : Q) (nsteps : nat)
           (mom0 : list Q) (logu : Q) : mala_out :=
  let cur := get xs sel in
  let g0 := grad m args xs sel in
  let '(pos, mom, _) := iter nsteps (leapfrog m args xs sel eps) (cur, mom0, g0) in
  let xs' := put xs sel pos in
  let kin (p : list Q) := qsum (map (fun v => nlp v 0 1) p) in
  let la := Qred ((logp m args xs' + kin (map Qopp mom)) - (logp m args xs + kin mom0)) in
  let acc := accepts logu la in
  {| m_prop := pos; m_log_alpha := la; m_accept := acc; m_final := if acc then xs' else xs |}.

(** mh: the regenerate weight is given; accept rule and select *)
Definition mh_select {A} (old new : A) (w logu : Q) : A * bool :=
  let acc := accepts logu w in (if acc then new else old, acc).
