(** CorrVi.v — correspondence cases for the ELBO objective and optimize_vi (C17). *)
From Coq Require Import QArith Qabs.
From GV Require Import Model.Corr Model.Vi.

Inductive vicase :=
| CElbo (target family : gast) (obs : cm) (targs qargs : value) (tape : list value) (o : Z)
| CVi (a b lr : Q) (n : nat) (init final : Q) (hist : list Q)
(* built-in reparameterised family: per-coordinate mean duals, Cholesky-factor duals, scripted
   noise; target x ~ N(0,I), y ~ N(w.x, 1); op = observed ELBO with the transcendental constants
   removed, ot = observed directional derivative *)
| CFam (m : list (Q * Q)) (C : list (list (Q * Q))) (eps w : list Q) (y : Q) (op ot : Q)
| CFlagV (ok : bool).

Definition dq := (Q * Q)%type.
Local Open Scope Q_scope.
Definition dqadd (a b : dq) : dq := (Qred (fst a + fst b), Qred (snd a + snd b)).
Definition dqmul (a b : dq) : dq := (Qred (fst a * fst b), Qred (fst a * snd b + snd a * fst b)).
Definition dqc (x : Q) : dq := (x, 0).
Definition dqsum (l : list dq) : dq := fold_right dqadd (dqc 0) l.
(** the reparameterised draw  x = m + C eps  as dual numbers *)
Definition fam_draw (m : list dq) (C : list (list dq)) (eps : list Q) : list dq :=
  map (fun mr : dq * list dq =>
         dqadd (fst mr) (dqsum (map (fun ce : dq * Q => dqmul (fst ce) (dqc (snd ce))) (combine (snd mr) eps))))
      (combine m C).
Fixpoint diag {A} (C : list (list A)) (i : nat) : list A :=
  match C with [] => [] | r :: C' => match nth_error r i with Some x => [x] | None => [] end ++ diag C' (S i) end.
Definition fam_elbo (m : list dq) (C : list (list dq)) (eps w : list Q) (y : Q) : dq :=
  let xs := fam_draw m C eps in
  let s1 := dqsum (map (fun x => dqmul x x) xs) in
  let lin := dqsum (map (fun wx : Q * dq => dqmul (dqc (fst wx)) (snd wx)) (combine w xs)) in
  let r := dqadd (dqc y) (dqmul (dqc (-1)) lin) in
  let e2 := fold_right (fun e acc => e * e + acc) 0 eps in
  let rat := dqadd (dqadd (dqmul (dqc (-1 # 2)) s1) (dqmul (dqc (-1 # 2)) (dqmul r r))) (dqc ((1 # 2) * e2)) in
  (* d/dt sum_i ln C_ii *)
  let dlog := fold_right (fun c acc => snd c / fst c + acc) 0 (diag C 0) in
  (fst rat, Qred (snd rat + dlog)).
Definition qclose3 (x y : Q) : bool := Qle_bool (Qabs (x - y)) ((1 # 1000) + (1 # 1000) * Qabs y).
Local Close Scope Q_scope.

Definition qclose5 (x y : Q) : bool := Qle_bool (Qabs (x - y)) ((1 # 10000) + (1 # 10000) * Qabs y).
Fixpoint qs_close5 (a b : list Q) : bool :=
  match a, b with [], [] => true | x :: a', y :: b' => qclose5 x y && qs_close5 a' b' | _, _ => false end.

Definition check_vicase (c : vicase) : bool * bool * bool :=
  match c with
  | CElbo tg fam obs targs qargs tape o =>
      let ctg := compile tg in let cf := compile fam in
      let m := match run_tape (elbo ctg cf obs targs qargs) tape with
               | Ok (v, _) => Z.eqb v o | Err _ => false end in
      (* specification: log p(merged) - log q(z) from the spec densities *)
      let s := match run_tape (gf_simulate cf qargs) tape with
               | Ok (tq, _) =>
                   match den ctg (cm_merge obs (choices tq)) targs, den cf (choices tq) qargs with
                   | Ok (lp, _), Ok (lq, _) => Z.eqb o (lp - lq)
                   | _, _ => false
                   end
               | Err _ => false
               end in
      (m, s, s)
  | CVi a b lr n init final hist =>
      let grad := fun (_ : nat) (p : Q) => Qred (- (2 # 1) * a * (p - b)) in
      let '(fin, h) := ascent grad lr n 0 init in
      let ok := qclose5 final fin && qs_close5 hist h in (ok, ok, ok)
  | CFam m C eps w y op ot =>
      let r := fam_elbo m C eps w y in
      let ok := qclose3 op (fst r) && qclose3 ot (snd r) in (ok, ok, ok)
  | CFlagV ok => (ok, ok, ok)
  end.

Definition vireport (cs : list vicase) : list (nat * bool * bool * bool) :=
  (fix go (i : nat) (cs : list vicase) :=
     match cs with
     | [] => []
     | c :: cs' =>
         let '(a, s, r) := check_vicase c in
         if a && s then go (S i) cs' else (i, a, s, r) :: go (S i) cs'
     end) O cs.
