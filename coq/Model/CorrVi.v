(** CorrVi.v — correspondence cases for the ELBO objective and optimize_vi (C17). *)
From Coq Require Import QArith Qabs.
From GV Require Import Model.Corr Model.Vi.

Inductive vicase :=
| CElbo (target family : gast) (obs : cm) (targs qargs : value) (tape : list value) (o : Z)
| CVi (a b lr : Q) (n : nat) (init final : Q) (hist : list Q)
| CFlagV (ok : bool).

Definition qclose5 (x y : Q) : bool := Qle_bool (Qabs (x - y)) ((1 # 10000) + (1 # 10000) * Qabs y).
Fixpoint qs_close5 (a b : list Q) : bool :=
  match a, b with [], [] => true | x :: a', y :: b' => qclose5 x y && qs_close5 a' b' | _, _ => false end.

Definition check_vicase (c : vicase) : bool * bool * bool :=
  match c with
  | CElbo tg fam obs targs qargs tape o =>
      let ctg := compile tg in let cf := compile fam in
      let m := match run_tape (elbo ctg cf obs targs qargs) tape with
               | Ok (v, _) => Z.eqb v o | Err _ => false end in
      (* specification: log p(merged) - log q(z) from the spec densities *)
      let s := match run_tape (gf_simulate cf qargs) tape with
               | Ok (tq, _) =>
                   match den ctg (cm_merge obs (choices tq)) targs, den cf (choices tq) qargs with
                   | Ok (lp, _), Ok (lq, _) => Z.eqb o (lp - lq)
                   | _, _ => false
                   end
               | Err _ => false
               end in
      (m, s, s)
  | CVi a b lr n init final hist =>
      let grad := fun (_ : nat) (p : Q) => Qred (- (2 # 1) * a * (p - b)) in
      let '(fin, h) := ascent grad lr n 0 init in
      let ok := qclose5 final fin && qs_close5 hist h in (ok, ok, ok)
  | CFlagV ok => (ok, ok, ok)
  end.

Definition vireport (cs : list vicase) : list (nat * bool * bool * bool) :=
  (fix go (i : nat) (cs : list vicase) :=
     match cs with
     | [] => []
     | c :: cs' =>
         let '(a, s, r) := check_vicase c in
         if a && s then go (S i) cs' else (i, a, s, r) :: go (S i) cs'
     end) O cs.
