(** Dists.v — the documented parameterisation of the 24 exported distributions (C13).

    The log density / log mass of every family is written as a *reflected* real
    expression ([rx], denoted in R by [den]) computed from rational parameters and
    values; [None] is -infinity (value outside the support).  The correspondence
    (CorrDists.v + harness/worker_dists.py) evaluates the implementation's
    [logpdf] on the same rationals and checks |obs - den spec| <= tol inside the
    assistant with certified interval arithmetic; the theorems (Lemmas/DistLemmas.v,
    Properties/C13.v) are about [den] of these same expressions.

    Gamma-function families are specified on integer and half-integer shape
    parameters, where Gamma is a factorial expression. *)
From Coq Require Import Reals QArith List ZArith Bool Lia.
Import ListNotations.

Inductive rx :=
| RQ (q : Q) | RPi
| RAdd (a b : rx) | RSub (a b : rx) | RMul (a b : rx) | RDiv (a b : rx) | RNeg (a : rx)
| RLn (a : rx) | RExp (a : rx) | RSqrt (a : rx) | RAbs (a : rx).

Fixpoint den (e : rx) : R :=
  match e with
  | RQ q => (IZR (Qnum q) / IZR (Zpos (Qden q)))%R
  | RPi => PI
  | RAdd a b => (den a + den b)%R
  | RSub a b => (den a - den b)%R
  | RMul a b => (den a * den b)%R
  | RDiv a b => (den a / den b)%R
  | RNeg a => (- den a)%R
  | RLn a => ln (den a)
  | RExp a => exp (den a)
  | RSqrt a => sqrt (den a)
  | RAbs a => Rabs (den a)
  end.

Declare Scope rx_scope.
Delimit Scope rx_scope with rx.
Bind Scope rx_scope with rx.
Infix "+" := RAdd : rx_scope.
Infix "-" := RSub : rx_scope.
Infix "*" := RMul : rx_scope.
Infix "/" := RDiv : rx_scope.
Notation "- x" := (RNeg x) : rx_scope.

Definition rz (z : Z) : rx := RQ (z # 1).
Definition rn (n : nat) : rx := rz (Z.of_nat n).
Definition rsqr (a : rx) : rx := (a * a)%rx.
Definition rhalf : rx := RQ (1 # 2).
Definition rsum (l : list rx) : rx := fold_right RAdd (rz 0) l.

(** ln n!  (the factorial is computed in Z: [fact] is unary) *)
Fixpoint zfact (n : nat) : Z :=
  match n with O => 1%Z | S m => (Z.of_nat n * zfact m)%Z end.
Definition lnfact (n : nat) : rx := RLn (rz (zfact n)).
(** ln Gamma(m/2) for m >= 1: (m/2-1)! for even m; (2n)! sqrt(pi) / (4^n n!) for m = 2n+1 *)
Definition lngamma2 (m : nat) : rx :=
  if Nat.even m then lnfact (m / 2 - 1)
  else let n := ((m - 1) / 2)%nat in
       (lnfact (2 * n) + rhalf * RLn RPi - rn n * RLn (rz 4) - lnfact n)%rx.
(** ln C(n,k) *)
Definition lnchoose (n k : nat) : rx := (lnfact n - lnfact k - lnfact (n - k))%rx.

(** rational helpers *)
(** a natural number given as a reduced fraction *)
Definition qnat (q : Q) : option nat :=
  if (Zpos (Qden q) =? 1)%Z && (0 <=? Qnum q)%Z then Some (Z.to_nat (Qnum q)) else None.
(** twice q as a natural (integer and half-integer shapes) *)
Definition qnat2 (q : Q) : option nat := qnat (Qred (q * (2 # 1))).
Definition qlt (a b : Q) : bool := match Qcompare a b with Lt => true | _ => false end.
Definition qle (a b : Q) : bool := match Qcompare a b with Gt => false | _ => true end.
Definition qpos (a : Q) : bool := qlt 0 a.

(** the families, by the role of their parameters *)
Inductive dname :=
| BernoulliLogits | BernoulliProbs | FlipProb
| BetaD | CategoricalLogits
| GeometricLogits | GeometricProbs
| NormalD | UniformD
| ExponentialRate
| PoissonRate | PoissonLogRate
| MvNormalCov              (* params: loc (k) ++ covariance rows (k*k), k = 2 *)
| DirichletD
| BinomialProbs | BinomialLogits
| GammaRate                (* concentration, rate *)
| LogNormalD | StudentTD | LaplaceD | HalfNormalD
| InverseGammaScale        (* concentration, scale beta: beta^a/Gamma(a) x^(-a-1) exp(-beta/x) *)
| WeibullD | CauchyD | Chi2D
| MultinomialProbs         (* total_count :: probs *)
| NegBinomialProbs         (* total_count r, probs p: successes k before r failures *)
| ZipfD
(* user-wrapped TFP constructors exercised through tfp_distribution *)
| LogisticD | GumbelD.

Definition sigm (l : rx) : rx := (rz 1 / (rz 1 + RExp (- l)))%rx.
Definition ln2pi : rx := RLn (rz 2 * RPi).

(** log mass of Bernoulli with success probability expression [p] *)
Definition lp_bern_p (p : rx) (v : Q) : option rx :=
  if Qeq_bool v 1 then Some (RLn p)
  else if Qeq_bool v 0 then Some (RLn (rz 1 - p))
  else None.
Definition lp_bern_l (l : rx) (v : Q) : option rx :=
  if Qeq_bool v 1 then Some (- RLn (rz 1 + RExp (- l)))%rx
  else if Qeq_bool v 0 then Some (- RLn (rz 1 + RExp l))%rx
  else None.

Definition lp_geom_p (p : rx) (v : Q) : option rx :=
  match qnat v with
  | Some k => Some (rn k * RLn (rz 1 - p) + RLn p)%rx
  | None => None
  end.

Definition lp_binom (n : nat) (lnp ln1p : rx) (v : Q) : option rx :=
  match qnat v with
  | Some k => if (k <=? n)%nat then Some (lnchoose n k + rn k * lnp + rn (n - k) * ln1p)%rx else None
  | None => None
  end.

Definition dot2 (a b c d : rx) (x y : rx) : rx :=     (* (x y) [[a b][c d]] (x y)^T *)
  (x * (a * x + b * y) + y * (c * x + d * y))%rx.

Definition spec (d : dname) (ps : list Q) (v : list Q) : option rx :=
  match d, ps, v with
  | BernoulliLogits, [l], [x] => lp_bern_l (RQ l) x
  | BernoulliProbs, [p], [x] => lp_bern_p (RQ p) x
  | FlipProb, [p], [x] => lp_bern_p (RQ p) x
  | BetaD, [a; b], [x] =>
      match qnat2 a, qnat2 b with
      | Some a2, Some b2 =>
          if qpos x && qlt x 1 then
            Some ((RQ a - rz 1) * RLn (RQ x) + (RQ b - rz 1) * RLn (rz 1 - RQ x)
                  - (lngamma2 a2 + lngamma2 b2 - lngamma2 (a2 + b2)))%rx
          else None
      | _, _ => None
      end
  | CategoricalLogits, ls, [x] =>
      match qnat x with
      | Some i => match nth_error ls i with
                  | Some li => Some (RQ li - RLn (rsum (map (fun l => RExp (RQ l)) ls)))%rx
                  | None => None
                  end
      | None => None
      end
  | GeometricProbs, [p], [x] => lp_geom_p (RQ p) x
  | GeometricLogits, [l], [x] => lp_geom_p (sigm (RQ l)) x
  | NormalD, [mu; sg], [x] =>
      Some (- (rsqr (RQ x - RQ mu) / (rz 2 * rsqr (RQ sg))) - RLn (RQ sg) - rhalf * ln2pi)%rx
  | UniformD, [a; b], [x] =>
      if qle a x && qle x b then Some (- RLn (RQ b - RQ a))%rx else None
  | ExponentialRate, [lam], [x] =>
      if qle 0 x then Some (RLn (RQ lam) - RQ lam * RQ x)%rx else None
  | PoissonRate, [lam], [x] =>
      match qnat x with
      | Some k => Some (rn k * RLn (RQ lam) - RQ lam - lnfact k)%rx
      | None => None
      end
  | PoissonLogRate, [ll], [x] =>
      match qnat x with
      | Some k => Some (rn k * RQ ll - RExp (RQ ll) - lnfact k)%rx
      | None => None
      end
  | MvNormalCov, [m1; m2; a; b; c; e], [x1; x2] =>
      (* Sigma = [[a b][c e]];  Sigma^-1 = 1/det [[e -b][-c a]] *)
      let det := (RQ a * RQ e - RQ b * RQ c)%rx in
      let d1 := (RQ x1 - RQ m1)%rx in let d2 := (RQ x2 - RQ m2)%rx in
      Some (- (rhalf * (dot2 (RQ e) (- RQ b) (- RQ c) (RQ a) d1 d2 / det)) - rhalf * RLn det - ln2pi)%rx
  | DirichletD, als, xs =>
      if (length als =? length xs)%nat && forallb qpos xs then
        match (fix go (l : list Q) : option (list nat) :=
                 match l with [] => Some [] | a :: l' =>
                   match qnat2 a, go l' with Some n, Some r => Some (n :: r) | _, _ => None end end) als with
        | Some a2s =>
            Some (rsum (map (fun ax : Q * Q => ((RQ (fst ax) - rz 1) * RLn (RQ (snd ax)))%rx) (combine als xs))
                  + lngamma2 (fold_right Nat.add 0%nat a2s) - rsum (map lngamma2 a2s))%rx
        | None => None
        end
      else None
  | BinomialProbs, [n; p], [x] =>
      match qnat n with Some n' => lp_binom n' (RLn (RQ p)) (RLn (rz 1 - RQ p)) x | None => None end
  | BinomialLogits, [n; l], [x] =>
      match qnat n with
      | Some n' => lp_binom n' (- RLn (rz 1 + RExp (- RQ l)))%rx (- RLn (rz 1 + RExp (RQ l)))%rx x
      | None => None end
  | GammaRate, [a; b], [x] =>
      match qnat2 a with
      | Some a2 => if qpos x then
                     Some (RQ a * RLn (RQ b) - lngamma2 a2 + (RQ a - rz 1) * RLn (RQ x) - RQ b * RQ x)%rx
                   else None
      | None => None
      end
  | LogNormalD, [mu; sg], [x] =>
      if qpos x then
        Some (- (rsqr (RLn (RQ x) - RQ mu) / (rz 2 * rsqr (RQ sg))) - RLn (RQ x) - RLn (RQ sg) - rhalf * ln2pi)%rx
      else None
  | StudentTD, [nu; mu; sg], [x] =>
      match qnat nu with
      | Some n =>
          let z := ((RQ x - RQ mu) / RQ sg)%rx in
          Some (lngamma2 (n + 1) - lngamma2 n - rhalf * RLn (RQ nu * RPi) - RLn (RQ sg)
                - (RQ nu + rz 1) / rz 2 * RLn (rz 1 + rsqr z / RQ nu))%rx
      | None => None
      end
  | LaplaceD, [mu; b], [x] => Some (- (RAbs (RQ x - RQ mu) / RQ b) - RLn (rz 2 * RQ b))%rx
  | HalfNormalD, [sg], [x] =>
      if qle 0 x then Some (rhalf * RLn (rz 2 / RPi) - RLn (RQ sg) - rsqr (RQ x) / (rz 2 * rsqr (RQ sg)))%rx
      else None
  | InverseGammaScale, [a; b], [x] =>
      match qnat2 a with
      | Some a2 => if qpos x then
                     Some (RQ a * RLn (RQ b) - lngamma2 a2 - (RQ a + rz 1) * RLn (RQ x) - RQ b / RQ x)%rx
                   else None
      | None => None
      end
  | WeibullD, [k; lam], [x] =>
      if qpos x then
        let lr := (RLn (RQ x) - RLn (RQ lam))%rx in
        Some (RLn (RQ k) - RLn (RQ lam) + (RQ k - rz 1) * lr - RExp (RQ k * lr))%rx
      else None
  | CauchyD, [x0; g], [x] =>
      Some (- RLn (RPi * RQ g) - RLn (rz 1 + rsqr ((RQ x - RQ x0) / RQ g)))%rx
  | Chi2D, [nu], [x] =>
      match qnat nu with
      | Some n => if qpos x then
                    Some (- (RQ nu / rz 2 * RLn (rz 2)) - lngamma2 n + (RQ nu / rz 2 - rz 1) * RLn (RQ x) - RQ x / rz 2)%rx
                  else None
      | None => None
      end
  | MultinomialProbs, n :: pr, ks =>
      match qnat n, (fix go (l : list Q) : option (list nat) :=
                       match l with [] => Some [] | a :: l' =>
                         match qnat a, go l' with Some k, Some r => Some (k :: r) | _, _ => None end end) ks with
      | Some n', Some kn =>
          if (length pr =? length kn)%nat && (fold_right Nat.add 0%nat kn =? n')%nat then
            Some (lnfact n' - rsum (map lnfact kn)
                  + rsum (map (fun kp : nat * Q => (rn (fst kp) * RLn (RQ (snd kp)))%rx) (combine kn pr)))%rx
          else None
      | _, _ => None
      end
  | NegBinomialProbs, [r; p], [x] =>
      match qnat r, qnat x with
      | Some r', Some k =>
          (* Gamma(k+r) / (k! Gamma(r)) p^k (1-p)^r *)
          Some (lnfact (k + r' - 1) - lnfact k - lnfact (r' - 1) + rn k * RLn (RQ p) + rn r' * RLn (rz 1 - RQ p))%rx
      | _, _ => None
      end
  | ZipfD, [s], [x] =>
      match qnat x with
      | Some k =>
          if (1 <=? k)%nat then
            (* zeta(2) = pi^2/6, zeta(4) = pi^4/90 *)
            if Qeq_bool s 2 then Some (- (RQ s * RLn (rn k)) - RLn (rsqr RPi / rz 6))%rx
            else if Qeq_bool s 4 then Some (- (RQ s * RLn (rn k)) - RLn (rsqr (rsqr RPi) / rz 90))%rx
            else None
          else None
      | None => None
      end
  | LogisticD, [mu; s], [x] =>
      let z := ((RQ x - RQ mu) / RQ s)%rx in
      Some (- z - RLn (RQ s) - rz 2 * RLn (rz 1 + RExp (- z)))%rx
  | GumbelD, [mu; b], [x] =>
      let z := ((RQ x - RQ mu) / RQ b)%rx in
      Some (- (z + RExp (- z)) - RLn (RQ b))%rx
  | _, _, _ => None
  end.

(** ** The documented call signatures: exported name, the keyword names the
    parameters are passed under ([] = positionally, in the documented order), and
    the family / parameter roles that call denotes. *)
Require Import String.
Open Scope string_scope.
Definition doc_table : list (string * list string * dname) :=
  [ ("bernoulli", [], BernoulliLogits); ("bernoulli", ["logits"], BernoulliLogits); ("bernoulli", ["probs"], BernoulliProbs);
    ("flip", [], FlipProb);
    ("beta", [], BetaD); ("beta", ["concentration1"; "concentration0"], BetaD);
    ("categorical", [], CategoricalLogits);
    ("geometric", [], GeometricLogits); ("geometric", ["logits"], GeometricLogits); ("geometric", ["probs"], GeometricProbs);
    ("normal", [], NormalD); ("normal", ["loc"; "scale"], NormalD);
    ("uniform", [], UniformD); ("uniform", ["low"; "high"], UniformD);
    ("exponential", [], ExponentialRate); ("exponential", ["rate"], ExponentialRate);
    ("poisson", [], PoissonRate); ("poisson", ["rate"], PoissonRate); ("poisson", ["log_rate"], PoissonLogRate);
    ("multivariate_normal", [], MvNormalCov); ("multivariate_normal", ["loc"; "covariance_matrix"], MvNormalCov);
    ("dirichlet", [], DirichletD); ("dirichlet", ["concentration"], DirichletD);
    ("binomial", ["total_count"; "probs"], BinomialProbs); ("binomial", ["total_count"; "logits"], BinomialLogits);
    ("binomial", [], BinomialLogits);
    ("gamma", [], GammaRate); ("gamma", ["concentration"; "rate"], GammaRate);
    ("log_normal", [], LogNormalD); ("log_normal", ["loc"; "scale"], LogNormalD);
    ("student_t", [], StudentTD); ("student_t", ["df"; "loc"; "scale"], StudentTD);
    ("laplace", [], LaplaceD); ("laplace", ["loc"; "scale"], LaplaceD);
    ("half_normal", [], HalfNormalD); ("half_normal", ["scale"], HalfNormalD);
    ("inverse_gamma", [], InverseGammaScale); ("inverse_gamma", ["concentration"; "scale"], InverseGammaScale);
    ("weibull", [], WeibullD); ("weibull", ["concentration"; "scale"], WeibullD);
    ("cauchy", [], CauchyD); ("cauchy", ["loc"; "scale"], CauchyD);
    ("chi2", [], Chi2D); ("chi2", ["df"], Chi2D);
    ("multinomial", ["total_count"; "probs"], MultinomialProbs);
    ("negative_binomial", ["total_count"; "probs"], NegBinomialProbs);
    ("zipf", [], ZipfD); ("zipf", ["power"], ZipfD);
    ("user_logistic", [], LogisticD); ("user_gumbel", [], GumbelD);
    ("user_custom_laplace", [], LaplaceD) ].

Definition lookup (name : string) (kws : list string) : option dname :=
  match find (fun r : string * list string * dname =>
                let '(n, k, _) := r in
                String.eqb n name && (if list_eq_dec string_dec k kws then true else false)) doc_table with
  | Some (_, _, d) => Some d
  | None => None
  end.

(** ** Result type and shape of a draw *)
Inductive dty := TBool | TInt | TFloat.
Definition doc_dtype (name : string) : dty :=
  if String.eqb name "flip" then TBool
  else if existsb (String.eqb name) ["bernoulli"; "categorical"; "zipf"] then TInt
  else TFloat.

(** numpy broadcasting of two shapes (right aligned); None when incompatible *)
Fixpoint bcast_rev (a b : list nat) : option (list nat) :=
  match a, b with
  | [], l | l, [] => Some l
  | x :: a', y :: b' =>
      match bcast_rev a' b' with
      | Some r => if (x =? y)%nat then Some (x :: r)
                  else if (x =? 1)%nat then Some (y :: r)
                  else if (y =? 1)%nat then Some (x :: r) else None
      | None => None
      end
  end.
Definition bcast (a b : list nat) : option (list nat) := option_map (@rev nat) (bcast_rev (rev a) (rev b)).
Fixpoint bcast_all (l : list (list nat)) : option (list nat) :=
  match l with
  | [] => Some []
  | s :: l' => match bcast_all l' with Some r => bcast s r | None => None end
  end.

(** shape of [d.sample(params..., sample_shape=ss)] run under [vmap] with axis sizes
    [lanes] (outermost first): lanes ++ sample_shape ++ batch ++ event, where batch is
    the broadcast of the parameters' batch shapes *)
Definition draw_shape (lanes ss : list nat) (batches : list (list nat)) (event : list nat) : option (list nat) :=
  match bcast_all batches with
  | Some b => Some (lanes ++ ss ++ b ++ event)%list
  | None => None
  end.
