(** AdevDet.v — the deterministic part of the ADEV interpreter (C15): per
    primitive it unzips the dual inputs, canonicalises float0 tangents to
    symbolic zeros, skips the JVP rule when every tangent is a symbolic zero,
    otherwise calls the primitive's JVP rule and instantiates zeros; cond
    transforms both branches and compensates lax.cond's argument order. *)
From Coq Require Import QArith List Bool.
Import ListNotations.
Open Scope Q_scope.

Inductive tangent := TZero | TFloat0 | TV (v : Q).

Definition canonicalize (t : tangent) : tangent :=
  match t with TFloat0 => TZero | _ => t end.
Definition is_zero (t : tangent) : bool := match t with TZero => true | _ => false end.
Definition instantiate (t : tangent) : Q := match t with TV v => v | _ => 0 end.

(** a primitive: its value and its JVP rule (which accepts symbolic zeros) *)
Record prim := { p_val : list Q -> Q; p_jvp : list Q -> list tangent -> Q * tangent }.

(** the contract of JAX's primitive JVP rules this code relies on *)
Definition jvp_ok (p : prim) : Prop :=
  (forall ps ts, fst (p_jvp p ps ts) = p_val p ps) /\
  (forall ps ts, instantiate (snd (p_jvp p ps ts))
                 == instantiate (snd (p_jvp p ps (map (fun t => TV (instantiate t)) ts)))) /\
  (forall ps ts, Forall (fun t => instantiate t == 0) ts -> instantiate (snd (p_jvp p ps ts)) == 0).

(** the interpreter's default branch *)
Definition adev_default (p : prim) (ps : list Q) (ts : list tangent) : Q * Q :=
  let cts := map canonicalize ts in
  if forallb is_zero cts then (p_val p ps, 0)
  else let '(v, t) := p_jvp p ps cts in (v, instantiate t).

(** reference forward mode: jax.jvp with fully instantiated tangents *)
Definition reference_jvp (p : prim) (ps : list Q) (ts : list tangent) : Q * Q :=
  let '(v, t) := p_jvp p ps (map (fun t => TV (instantiate t)) ts) in (v, instantiate t).

(** cond: params["branches"] is indexed by the integer condition (false, true);
    jax.lax.cond takes (pred, true_fun, false_fun): the code passes the reversed list *)
Definition cond_p_semantics {A} (branches : list A) (pred : bool) (d : A) : A :=
  nth (if pred then 1%nat else 0%nat) branches d.
Definition lax_cond {A} (pred : bool) (true_fun false_fun : A) : A := if pred then true_fun else false_fun.
Definition adev_cond {A} (branches : list A) (pred : bool) (d : A) : A :=
  match rev branches with
  | t :: f :: _ => lax_cond pred t f
  | _ => d
  end.

(** estimate(): scalar Python 0.0 tangents for every argument leaf *)
Definition estimate_tangents (args : list Q) : list tangent := map (fun _ => TV 0) args.
