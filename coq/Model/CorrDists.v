(** CorrDists.v — correspondence cases for the distributions (C13).
    Log-density cases are decided inside the assistant by certified interval
    arithmetic on the denotation of the reflected specification. *)
From Coq Require Import Reals QArith List ZArith Bool String.
From Interval Require Import Tactic.
From GV Require Import Model.Dists.
Import ListNotations.

Definition lp_of (name : string) (kws : list string) (ps v : list Q) : option rx :=
  match lookup name kws with Some d => spec d ps v | None => None end.

Definition q2r (q : Q) : R := (IZR (Qnum q) / IZR (Zpos (Qden q)))%R.

(** prints one line per case: OK (|obs - spec| <= tol proved), BAD (|obs - spec| > tol
    proved: a concrete failing input), UNDECIDED, NOSPEC (no table entry / outside the
    specified parameter grid: a harness error, independent of the implementation) *)
Ltac lp_case i name kws ps v obs tol :=
  let e := eval vm_compute in (lp_of name kws ps v) in
  lazymatch e with
  | Some ?x =>
      tryif assert_succeeds
              (assert (Rabs (q2r obs - den x) <= q2r tol)%R
                by (cbv [den q2r Qnum Qden]; interval with (i_prec 60)))
      then idtac "CASE" i "OK"
      else tryif assert_succeeds
                   (assert (q2r tol < Rabs (q2r obs - den x))%R
                     by (cbv [den q2r Qnum Qden]; interval with (i_prec 60)))
           then idtac "CASE" i "BAD"
           else idtac "CASE" i "UNDECIDED"
  | None => idtac "CASE" i "NOSPEC"
  end.

(** shape / dtype cases, decided by computation *)
Inductive shcase :=
| CShape (name : string) (lanes ss : list nat) (batches : list (list nat)) (event : list nat)
         (oshape : list nat) (odt : nat)
| CFlagD (ok : bool).

Definition dt_code (d : dty) : nat := match d with TBool => 0 | TInt => 1 | TFloat => 2 end.

Definition check_shcase (c : shcase) : bool * bool * bool :=
  match c with
  | CShape name lanes ss batches event oshape odt =>
      let ok := match draw_shape lanes ss batches event with
                | Some s => if list_eq_dec Nat.eq_dec s oshape then true else false
                | None => false
                end && Nat.eqb (dt_code (doc_dtype name)) odt in
      (ok, ok, ok)
  | CFlagD ok => (ok, ok, ok)
  end.

Definition shreport (cs : list shcase) : list (nat * bool * bool * bool) :=
  (fix go (i : nat) (cs : list shcase) :=
     match cs with
     | [] => []
     | c :: cs' =>
         let '(a, s, r) := check_shcase c in
         if a && s then go (S i) cs' else (i, a, s, r) :: go (S i) cs'
     end) O cs.
