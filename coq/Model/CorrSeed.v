(** CorrSeed.v — correspondence cases for the Seed interpreter and lowering (C06/C07/C14). *)
From Coq Require Import List Arith Bool.
Import ListNotations.
From GV Require Import Model.Seed.

Inductive lctx :=
| LJit | LScan | LWhile | LFori | LCond | LNestedJit | LGrad | LValueAndGrad | LVmap
| LSeedWhile | LSeedJit | LSeedFori | LSeedOk | LSeedScanWhile | LJitDet
(* seed over a higher-order primitive whose eager evaluation runs its body without compiling it
   (jax.checkpoint, custom_jvp, custom_vjp): Seed does not interpret it either *)
| LSeedEagerHO
(* the same, two such primitives deep (checkpoint of custom_jvp of a site, checkpoint of checkpoint ...) *)
| LSeedEagerHO2
(* seed applied to a function that differentiates a site (seed(grad(f))) *)
| LSeedGrad.

Inductive outcome := ONone | OLowering | ONotImpl | OOtherErr.

Inductive scase :=
| CSeed (p : jx) (cs : list bool) (runs : list (list (option key)))     (* None = key data not derivable from the root *)
| CSeedErr
| CLower (c : lctx) (depth : nat) (o : outcome).

Fixpoint key_eqb (a b : key) : bool :=
  match a, b with [], [] => true | x :: a', y :: b' => Nat.eqb x y && key_eqb a' b' | _, _ => false end.
Fixpoint okeys_eqb (a : list (option key)) (b : list key) : bool :=
  match a, b with
  | [], [] => true
  | Some x :: a', y :: b' => key_eqb x y && okeys_eqb a' b'
  | _, _ => false
  end.

(** nest a site [d-1] times inside scans *)
Fixpoint nest (d : nat) : jx :=
  match d with O => JSample JNil | S d' => JScan 2 (nest d') JNil end.

Definition model_ctx (c : lctx) (d : nat) : jx * bool :=   (* program, is it seeded first? *)
  let b := nest (d - 1) in
  match c with
  | LJit | LNestedJit => (b, false)
  | LScan => (JScan 2 b JNil, false)
  | LWhile | LFori => (JOther b JNil, false)
  | LCond => (JCond b JNil JNil, false)
  | LGrad | LValueAndGrad => (JGrad b JNil, false)
  | LVmap => (b, false)
  | LSeedWhile | LSeedJit | LSeedEagerHO => (JOther b JNil, true)
  | LSeedEagerHO2 => (JOther (JOther b JNil) JNil, true)
  | LSeedGrad => (JGrad b JNil, true)
  | LSeedFori => (JScan 2 b JNil, true)     (* fori_loop with static bounds is a scan *)
  | LSeedScanWhile => (JScan 2 (JOther b JNil) JNil, true)
  | LSeedOk => (b, true)
  | LJitDet => (JDet JNil, false)
  end.

Definition check_scase (c : scase) : bool * bool * bool :=
  match c with
  | CSeed p cs runs =>
      let want := fst (seed_run p [] cs) in
      let ok := forallb (fun r => okeys_eqb r want) runs && negb (Nat.eqb (length runs) 0) in
      (ok, ok, ok)
  | CSeedErr => (false, false, false)
  | CLower ctx d o =>
      let '(p, seeded) := model_ctx ctx d in
      (* what the model of the code predicts *)
      let predicted_raise := lower_raises (if seeded then residual p else p) in
      (* what the property demands: any source site that is not given a key must raise *)
      let demanded_raise := if seeded then unseeded p else contains_site p in
      match ctx with
      | LVmap =>
          let ok := match o with ONotImpl | OLowering => true | _ => false end in (ok, ok, ok)
      | _ =>
          let obs := match o with OLowering => true | _ => false end in
          let clean := match o with ONone | OLowering => true | _ => false end in
          (Bool.eqb obs predicted_raise && clean, Bool.eqb obs demanded_raise && clean, clean)
      end
  end.

Definition sreport (cs : list scase) : list (nat * bool * bool * bool) :=
  (fix go (i : nat) (cs : list scase) :=
     match cs with
     | [] => []
     | c :: cs' =>
         let '(a, s, r) := check_scase c in
         if a && s then go (S i) cs' else (i, a, s, r) :: go (S i) cs'
     end) O cs.
