(** Vmap.v — model of the sample batching rule of modular_vmap
    (pjax.VmapBatchHandler._handle_modular_vmap) on top of a model of numpy/TFP
    parameter broadcasting.  A sampler with two parameters a, b and sample_shape
    S returns a tensor of shape S ++ broadcast(shape a, shape b) whose element
    at index s ++ j is an independent draw from the distribution with parameters
    a[opidx j], b[opidx j] (TFP's contract); a draw is identified by its output
    index. *)
From Coq Require Import List Arith Bool Lia ZArith.
Import ListNotations.

Definition shape := list nat.

Definition lastn {A} (k : nat) (l : list A) : list A := skipn (length l - k) l.

Fixpoint map2 {A B C} (f : A -> B -> C) (a : list A) (b : list B) : list C :=
  match a, b with x :: a', y :: b' => f x y :: map2 f a' b' | _, _ => [] end.

(** index into a (right-aligned, size-1-broadcast) operand of shape [s] for the
    output index [idx] *)
Definition opidx (s : shape) (idx : list nat) : list nat :=
  map2 (fun d i => if Nat.eqb d 1 then 0 else i) s (lastn (length s) idx).

(** what one output element of the sampler is made of: the parameter elements
    it was drawn with, and the identity of the draw *)
Record elem := { e_a : list nat; e_b : list nat; e_draw : list nat }.

(** the sampler called with sample_shape S on parameters of shapes sa, sb:
    the element at output index [idx] (|idx| = |S| + rank of the broadcast) *)
Definition sampler (S sa sb : shape) (idx : list nat) : elem :=
  let j := skipn (length S) idx in
  {| e_a := opidx sa j; e_b := opidx sb j; e_draw := idx |}.

(** ** the batching rule (after moving batch axes to the front) *)
Record arg := { a_shape : shape; a_batched : bool }.   (* shape includes the lane axis when batched *)

Definition lanes (x y : arg) : option nat :=
  if a_batched x then Some (hd 0 (a_shape x))
  else if a_batched y then Some (hd 0 (a_shape y)) else None.

(** new sample shape and the output axis that carries the lanes *)
Definition batch_rule (S : shape) (x y : arg) (axis_size : option nat) : shape * option nat :=
  match lanes x y with
  | Some _ => (S, Some (length S))
  | None => match axis_size with
            | Some n => (n :: S, Some 0)
            | None => (S, None)
            end
  end.

(** element [lane, s ++ j] of the batched site: where it sits in the sampler's output *)
Definition batched_elem (S : shape) (x y : arg) (axis_size : option nat) (lane : nat) (s j : list nat) : elem :=
  let '(S', ax) := batch_rule S x y axis_size in
  match lanes x y with
  | Some _ => sampler S' (a_shape x) (a_shape y) (s ++ lane :: j)      (* lane axis after S *)
  | None => match axis_size with
            | Some _ => sampler S' (a_shape x) (a_shape y) (lane :: s ++ j)   (* lane axis first *)
            | None => sampler S' (a_shape x) (a_shape y) (s ++ j)
            end
  end.

(** what a per-lane run of the site produces at index s ++ j, in terms of the
    ORIGINAL (stacked) parameters: lane i of a batched parameter is the slice i *)
Definition lane_elem (S : shape) (x y : arg) (lane : nat) (s j : list nat) : list nat * list nat :=
  let per (z : arg) :=
    if a_batched z then lane :: opidx (tl (a_shape z)) j else opidx (a_shape z) j in
  (per x, per y).
