(** CorrChain.v — correspondence cases for chain (C18). *)
From Coq Require Import ZArith List Arith Bool.
Import ListNotations.
From GV Require Import Model.Chain.

(** Scripted kernels (the same ones harness/worker_chain.py installs). *)
Definition kstep (kind : nat) (x : Z) (_ : unit) : Z * bool :=
  match kind with
  | O => let acc := Z.eqb (x mod 3) 0 in ((if acc then (2 * x + 1) mod 17 else x)%Z, acc)
  | 1%nat => let acc := Z.eqb (x mod 2) 0 in ((if acc then (x + 3) mod 11 else x)%Z, acc)
  | _ =>
      (* a backward sweep: lax.scan(reverse=True) over the digits 1,2,3 with the carry h <- (2h + d) mod 13 *)
      let acc := negb (Z.eqb (x mod 3) 1) in
      let h := fold_left (fun h d => ((2 * h + d) mod 13)%Z) (rev [1; 2; 3]%Z) x in
      ((if acc then h else x)%Z, acc)
  end.

Inductive ccase :=
| CChain (kind n burn thin : nat) (init : Z)
         (states : list (list Z)) (accepts : list (list bool)) (accepted : list nat) (nsteps : nat)
| CSlice (n burn thin : nat) (full : list Z) (fullacc : list bool) (thinned : list Z) (thinacc : list bool)
         (nsteps : nat).

Fixpoint zs_eqb (a b : list Z) : bool :=
  match a, b with [], [] => true | x :: a', y :: b' => Z.eqb x y && zs_eqb a' b' | _, _ => false end.
Fixpoint bs_eqb (a b : list bool) : bool :=
  match a, b with [], [] => true | x :: a', y :: b' => Bool.eqb x y && bs_eqb a' b' | _, _ => false end.

Definition check_ccase (c : ccase) : bool * bool * bool :=
  match c with
  | CChain kind n burn thin init states accepts accepted nsteps =>
      let r := chain (kstep kind) 0%Z init (repeat tt n) burn thin in
      let ok :=
        forallb (fun s => zs_eqb s (r_states r)) states &&
        forallb (fun a => bs_eqb a (r_accepts r)) accepts &&
        forallb (fun k => Nat.eqb k (r_accepted r)) accepted &&
        Nat.eqb nsteps (r_n r) && negb (Nat.eqb (length states) 0) &&
        Nat.eqb (length states) (length accepts) in
      (ok, ok, ok)
  | CSlice n burn thin full fullacc thinned thinacc nsteps =>
      let idx := arange burn n thin in
      let ok := zs_eqb thinned (select 0%Z full idx) && bs_eqb thinacc (select false fullacc idx)
                && Nat.eqb nsteps (length idx) && Nat.eqb (length full) n in
      (ok, ok, ok)
  end.

Definition creport (cs : list ccase) : list (nat * bool * bool * bool) :=
  (fix go (i : nat) (cs : list ccase) :=
     match cs with
     | [] => []
     | c :: cs' =>
         let '(a, s, r) := check_ccase c in
         if a && s then go (S i) cs' else (i, a, s, r) :: go (S i) cs'
     end) O cs.
