(** CorrSsm.v — correspondence / specification judgement for the exact
    state-space baselines (C20). *)
From Coq Require Import QArith Qcanon Qabs Qround List Arith Bool.
Import ListNotations.
From GV Require Import Model.Mat Model.Kalman Model.Hmm.
Open Scope Q_scope.

Definition qclose (tol : Q) (x y : Q) : bool := Qle_bool (Qabs (x - y)) (tol + tol * Qabs y).
Fixpoint vclose (tol : Q) (a b : vec) : bool :=
  match a, b with [], [] => true | x :: a', y :: b' => qclose tol x y && vclose tol a' b' | _, _ => false end.
Fixpoint mclose (tol : Q) (a b : mat) : bool :=
  match a, b with [], [] => true | x :: a', y :: b' => vclose tol x y && mclose tol a' b' | _, _ => false end.

(** ** rational enclosure of exp (validation only) *)
Definition P60 : positive := 1152921504606846976.   (* 2^60 *)
Definition rdown (x : Q) : Q := Qmake (Qfloor (x * inject_Z (Zpos P60))) P60.
Definition rup (x : Q) : Q := Qmake (Qceiling (x * inject_Z (Zpos P60))) P60.

Fixpoint taylor (t : Q) (n : nat) (i : nat) (term acc : Q) : Q :=
  match n with
  | O => acc
  | S n' => let term' := Qred (term * t / inject_Z (Z.of_nat (S i))) in
            taylor t n' (S i) term' (Qred (acc + term'))
  end.

Fixpoint halvings (x : Q) (fuel : nat) : nat :=
  match fuel with
  | O => O
  | S f => if Qle_bool (Qabs x) (1 # 2) then O else S (halvings (x / 2) f)
  end.

Fixpoint sq_times (k : nat) (lo hi : Q) : Q * Q :=
  match k with O => (lo, hi) | S k' => sq_times k' (rdown (lo * lo)) (rup (hi * hi)) end.

Definition qexp_bounds (x : Q) : Q * Q :=
  let k := halvings x 40 in
  let t := Qred (x / inject_Z (2 ^ Z.of_nat k)) in
  let s := taylor t 14 0 1 1 in
  let r := 1 # 100000000000000 in
  sq_times k (rdown (s - r)) (rup (s + r)).

(** ln(2 pi) to 1e-10 *)
Definition LN2PI_LO : Q := 18378770664 # 10000000000.
Definition LN2PI_HI : Q := 18378770665 # 10000000000.

(** ln 10 to 1e-12 (unit changes of the Kalman cases; the error is far below the tolerance) *)
Definition LN10 : Q := 2302585092994 # 1000000000000.

(** |lml - (-(quad + ln det + n ln 2pi)/2)| <= tol, decided through exp enclosures:
    det in [exp(-2 lml - quad - n ln2pi - 2 tol), exp(-2 lml - quad - n ln2pi + 2 tol)] *)
Definition lml_ok (tol : Q) (lml quadv detv : Q) (n : nat) : bool :=
  let nn := inject_Z (Z.of_nat n) in
  let lo_arg := - (2 # 1) * lml - quadv - nn * LN2PI_HI - (2 # 1) * tol in
  let hi_arg := - (2 # 1) * lml - quadv - nn * LN2PI_LO + (2 # 1) * tol in
  Qle_bool (fst (qexp_bounds lo_arg)) detv && Qle_bool detv (snd (qexp_bounds hi_arg)).

Inductive ssmcase :=
(* HMM: K, initial, transition, emission (rows), observations; observed filtering distributions (probabilities),
   exp(log marginal), a state path with exp(its sequence log prob), and the probability backward sampling assigns to it *)
| CHmm (K : nat) (pi0 : list Q) (A : list (list Q)) (E : list (list Q)) (ys : list nat)
       (filt : list (list Q)) (marg : Q) (path : list nat) (seqp : Q) (ffbsp : Q)
(* Kalman: the model [s] and observations [ys] in O(1) units; the implementation was run on the same problem expressed
   in units of 10^-k (means and observations times 10^-k, covariances times 10^-2k, A and C unchanged) and returned
   fm fc sm sc lml in those units *)
| CKal (k : nat) (s : lgssm) (ys : list vec) (fm : list vec) (fc : list mat) (sm : list vec) (sc : list mat) (lml : Q)
(* the step models iterated over time through assess: discrete_hmm on a state path / observations (exp of the
   summed log densities), linear_gaussian on a state sequence / observations (summed log density) *)
| CHmmStep (K : nat) (pi0 : list Q) (A : list (list Q)) (E : list (list Q)) (ys path : list nat) (stepp : Q)
| CLgStep (s : lgssm) (xs ys : list vec) (lp : Q)
| CFlagS (ok : bool).

Definition tab1 (l : list Q) (i : nat) : Qc := Q2Qc (nth i l 0).
Definition tab2 (l : list (list Q)) (i j : nat) : Qc := Q2Qc (nth j (nth i l []) 0).

Definition TOL : Q := 1 # 5000.

Definition check_ssm (c : ssmcase) : bool * bool * bool :=
  match c with
  | CHmm K pi0 A E ys filt marg path seqp ffbsp =>
      let p := tab1 pi0 in let a := tab2 A in let e := tab2 E in
      let T := length ys in
      (* model of the code: forward recursion *)
      let model_ok :=
        forallb (fun t =>
                   let rys := rev (firstn (S t) ys) in
                   vclose TOL (nth t filt []) (map (fun x => this (filtering K p a e rys x)) (seq 0 K)))
                (seq 0 T)
        && qclose TOL marg (this (marginal K p a e (rev ys)))
        && qclose TOL seqp (this (seq_prob p a e path ys))
        && qclose TOL ffbsp (this (ffbs_prob K p a e (rev path) (rev ys))) in
      (* specification: brute force over all state sequences *)
      let bf := sumL (map (fun q => joint p a e q (rev ys)) (paths K T)) in
      let post := this (joint p a e (rev path) (rev ys)) / this bf in
      let spec_ok :=
        qclose TOL marg (this bf) && qclose TOL seqp (this (joint p a e (rev path) (rev ys)))
        && qclose TOL ffbsp post
        && forallb (fun t =>
                      let rys := rev (firstn (S t) ys) in
                      let z := sumL (map (fun q => joint p a e q rys) (paths K (S t))) in
                      vclose TOL (nth t filt [])
                             (map (fun x => this (sumL (map (fun q => joint p a e (x :: q) rys) (paths K t))) / this z)
                                  (seq 0 K)))
                   (seq 0 T) in
      (model_ok, spec_ok, spec_ok)
  | CKal k s ys fm0 fc0 sm0 sc0 lml0 =>
      let ks := kfilter s ys in
      let T := length ys in
      let d_obs := length (hd [] ys) in
      (* back to the units of [s]: x = 10^k x', Sigma = 10^2k Sigma', log p(y) = log p'(y') - n k ln 10 *)
      let u := inject_Z (10 ^ Z.of_nat k) in
      let fm := map (map (Qmult u)) fm0 in let sm := map (map (Qmult u)) sm0 in
      let fc := map (map (map (Qmult (u * u)))) fc0 in let sc := map (map (map (Qmult (u * u)))) sc0 in
      let lml := lml0 - inject_Z (Z.of_nat (T * d_obs * k)) * LN10 in
      let model_ok :=
        Nat.eqb (length fm) T &&
        forallb (fun t => vclose TOL (nth t fm []) (f_mean (nth t ks {| f_mean := []; f_cov := []; quad := 0; sdet := 1 |}))
                          && mclose TOL (nth t fc []) (f_cov (nth t ks {| f_mean := []; f_cov := []; quad := 0; sdet := 1 |})))
                (seq 0 T)
        && (let sms := ksmooth s ys in
            forallb (fun t => vclose TOL (nth t sm []) (fst (nth t sms ([], []))) && mclose TOL (nth t sc []) (snd (nth t sms ([], []))))
                    (seq 0 T))
        && lml_ok (1 # 2000) lml (fold_right (fun st acc => st.(quad) + acc) 0 ks)
                  (fold_right (fun st acc => st.(sdet) * acc) 1 ks) (T * d_obs) in
      let spec_ok :=
        forallb (fun t => let '(m, c) := condition s ys (S t) t in vclose TOL (nth t fm []) m && mclose TOL (nth t fc []) c) (seq 0 T)
        && forallb (fun t => let '(m, c) := condition s ys T t in vclose TOL (nth t sm []) m && mclose TOL (nth t sc []) c) (seq 0 T)
        && (let '(qd, dt) := evidence_parts s ys in lml_ok (1 # 2000) lml qd dt (T * d_obs)) in
      (model_ok, spec_ok, spec_ok)
  | CHmmStep K pi0 A E ys path stepp =>
      let p := tab1 pi0 in let a := tab2 A in let e := tab2 E in
      let want := this (joint p a e (rev path) (rev ys)) in
      let rel := Qle_bool (Qabs (stepp - want)) ((1 # 2000) * Qabs want) in
      (rel && qclose TOL stepp (this (seq_prob p a e path ys)), rel, rel)
  | CLgStep s xs ys lp =>
      let quadf := fun (sigma : mat) (d : vec) => dot d (mvec (minv sigma) d) in
      let T := length xs in
      let trans :=
        (fix go (prev : vec) (l : list vec) : Q :=
           match l with
           | [] => 0
           | x :: l' => quadf (Q_ s) (vsub x (mvec (A_ s) prev)) + go x l'
           end) in
      let q_state := match xs with
                     | [] => 0
                     | x0 :: rest => quadf (P0 s) (vsub x0 (m0 s)) + trans x0 rest
                     end in
      let q_obs := fold_right (fun (xy : vec * vec) acc => quadf (R_ s) (vsub (snd xy) (mvec (C_ s) (fst xy))) + acc) 0 (combine xs ys) in
      let detpow := fix go (d : Q) (n : nat) : Q := match n with O => 1 | S n' => d * go d n' end in
      let dt := mdet (P0 s) * detpow (mdet (Q_ s)) (T - 1)%nat * detpow (mdet (R_ s)) T in
      let nn := (T * length (m0 s) + T * length (hd [] ys))%nat in
      let ok := Nat.eqb (length ys) T && negb (Nat.eqb T 0) && lml_ok (1 # 1000) lp (q_state + q_obs) dt nn in
      (ok, ok, ok)
  | CFlagS ok => (ok, ok, ok)
  end.

Definition ssmreport (cs : list ssmcase) : list (nat * bool * bool * bool) :=
  (fix go (i : nat) (cs : list ssmcase) :=
     match cs with
     | [] => []
     | c :: cs' =>
         let '(a, s, r) := check_ssm c in
         if a && s then go (S i) cs' else (i, a, s, r) :: go (S i) cs'
     end) O cs.
