(** Chain.v — model of genjax.inference.mcmc.chain (single-chain branch and the
    per-lane reading of the multi-chain branch): scan the kernel, then select
    indices arange(burn_in, n_steps, thinning). *)
From Coq Require Import List Arith Lia Bool.
Import ListNotations.

Section Chain.
  Variable S R : Type.                      (* chain state; per-step randomness *)
  Variable kernel : S -> R -> S * bool.     (* new state, accept flag *)
  Variable dS : S.

  (** jax.lax.scan(scan_fn, init, arange(n)) stacking the new state; the state
      interpreter stacks the saved accept flags. *)
  Fixpoint run (s : S) (rs : list R) : list (S * bool) :=
    match rs with
    | [] => []
    | r :: rs' => let '(s', a) := kernel s r in (s', a) :: run s' rs'
    end.

  (** jnp.arange(start, stop, step), step >= 1. *)
  Fixpoint arange_aux (fuel start stop step : nat) : list nat :=
    match fuel with
    | O => []
    | Datatypes.S f => if start <? stop then start :: arange_aux f (start + step) stop step else []
    end.
  Definition arange (start stop step : nat) : list nat := arange_aux stop start stop step.

  Definition select {A} (d : A) (l : list A) (idx : list nat) : list A := map (fun i => nth i l d) idx.

  Definition count_true (l : list bool) : nat := length (filter (fun b => b) l).

  Record result := { r_states : list S; r_accepts : list bool; r_accepted : nat; r_n : nat }.

  Definition chain (init : S) (rs : list R) (burn thin : nat) : result :=
    let all := run init rs in
    let idx := arange burn (length rs) thin in
    let acc := select false (map snd all) idx in
    {| r_states := select dS (map fst all) idx; r_accepts := acc;
       r_accepted := count_true acc; r_n := length idx |}.

  (** n_chains > 1: the same computation mapped over the chains, each with its own per-step
      randomness (jax.vmap over keys); the results carry a leading chain axis. *)
  Definition chains (init : S) (rss : list (list R)) (burn thin : nat) : list result :=
    map (fun rs => chain init rs burn thin) rss.

  (** The state after [k] kernel steps. *)
  Fixpoint iterate (s : S) (rs : list R) (k : nat) : S :=
    match k, rs with
    | Datatypes.S k', r :: rs' => iterate (fst (kernel s r)) rs' k'
    | _, _ => s
    end.
End Chain.
Arguments run {S R}. Arguments chain {S R}. Arguments chains {S R}. Arguments iterate {S R}. Arguments select {A}.
Arguments r_states {S}. Arguments r_accepts {S}. Arguments r_accepted {S}. Arguments r_n {S}.
