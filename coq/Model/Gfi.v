(** Gfi.v — executable model of genjax's generative-function interface
    (src/genjax/core.py: Distribution, Fn + handlers, Cond; Vmap and Scan by
    lane-wise desugaring), selections, filter/merge.  Definitions only: proofs
    live in Lemmas/ so that the model still runs when a proof breaks. *)
From GV Require Export Prelude.Data.

(* ------------------------------------------------------------------ *)
(** * Selections (core.py: AllSel … OrSel, Selection, sel) *)

Inductive sel :=
| SAll | SNone
| SStr (n : nat)
| STup (p : list nat)
| SDict (d : list (nat * sel))
| SCompl (s : sel)
| SIn (s1 s2 : sel)
| SOr (s1 s2 : sel).

Fixpoint dict_get (n : nat) (d : list (nat * sel)) : option sel :=
  match d with
  | [] => None
  | (m, s) :: d' => if Nat.eqb n m then Some s else dict_get n d'
  end.

(** [match] on a string address. *)
Fixpoint sel_match_name (s : sel) (n : nat) : bool * sel :=
  match s with
  | SAll => (true, SAll)
  | SNone => (false, SNone)
  | SStr m => if Nat.eqb n m then (true, SAll) else (false, SNone)
  | STup p =>
      match p with
      | [] => (false, SNone)
      | [m] => if Nat.eqb n m then (true, SAll) else (false, SNone)
      | m :: rest => if Nat.eqb n m then (true, STup rest) else (false, SNone)
      end
  | SDict d => match dict_get n d with Some s' => (true, s') | None => (false, SNone) end
  | SCompl s1 => let '(c, r) := sel_match_name s1 n in (negb c, SCompl r)
  | SIn s1 s2 => let '(c1, r1) := sel_match_name s1 n in
                 let '(c2, r2) := sel_match_name s2 n in (c1 && c2, SIn r1 r2)
  | SOr s1 s2 => let '(c1, r1) := sel_match_name s1 n in
                 let '(c2, r2) := sel_match_name s2 n in (c1 || c2, SOr r1 r2)
  end.

(** [() in s]: the leaf probe used by Distribution.regenerate / Distribution.filter.
    [() == "a"], [() == path[0]] and [() in dict] are all False. *)
Fixpoint sel_unit (s : sel) : bool :=
  match s with
  | SAll => true
  | SNone | SStr _ | STup _ | SDict _ => false
  | SCompl s1 => negb (sel_unit s1)
  | SIn s1 s2 => sel_unit s1 && sel_unit s2
  | SOr s1 s2 => sel_unit s1 || sel_unit s2
  end.

(** Lanes are transparent to selections (Vmap.regenerate / Scan.regenerate pass
    the selection unchanged to every lane / step). *)
Definition sel_match (s : sel) (a : addr) : bool * sel :=
  match a with
  | AName n => sel_match_name s n
  | ALane _ => (false, s)
  end.

(* ------------------------------------------------------------------ *)
(** * Programs *)

Inductive gf :=
| GDist (d : dist)
| GFn (body : value -> prog)
| GCond (g1 g2 : gf)
with prog :=
| Ret (v : value)
| Call (a : addr) (g : gf) (args : value) (k : value -> prog)
| Fail (e : err).

Scheme gf_mind := Induction for gf Sort Prop
  with prog_mind := Induction for prog Sort Prop.

(** * Traces (Tr for distributions, Tr for @gen functions, CondTr) *)
Inductive tr :=
| TrD (args x : value) (score : Z)
| TrFn (args : value) (m : list (addr * tr)) (ret : value) (score : Z)
| TrCond (check : bool) (t1 t2 : tr).

Fixpoint get_score (t : tr) : Z :=
  match t with
  | TrD _ _ s => s
  | TrFn _ _ _ s => s
  | TrCond c t1 t2 => if c then get_score t1 else get_score t2
  end.

Fixpoint get_retval (t : tr) : value :=
  match t with
  | TrD _ x _ => x
  | TrFn _ _ r _ => r
  | TrCond c t1 t2 => if c then get_retval t1 else get_retval t2
  end.

Fixpoint get_args (t : tr) : value :=
  match t with
  | TrD a _ _ => a
  | TrFn a _ _ _ => a
  | TrCond c t1 _ =>
      match get_args t1 with
      | VTup rest => VTup (VB c :: rest)
      | other => VTup [VB c; other]
      end
  end.

(** ** Merging choice maps (Fn.merge / Distribution.merge) *)

(** With a check: [jnp.where(check, v1, v2)] on leaves present in both, union
    of keys otherwise.  Structure mismatches (leaf vs dict), which the
    implementation rejects, are totalised by taking the [check] side. *)
Fixpoint cm_merge_chk (c : bool) (x y : cm) {struct x} : cm :=
  match x, y with
  | CNode lx, CNode ly =>
      let fix go (lx : list (addr * cm)) : list (addr * cm) :=
        match lx with
        | [] => []
        | (a, vx) :: lx' =>
            (a, match lookup a ly with
                | Some vy => cm_merge_chk c vx vy
                | None => vx
                end) :: go lx'
        end in
      CNode (go lx ++ filter (fun p => negb (mem (fst p) lx)) ly)
  | _, _ => if c then x else y
  end.

(** Discards merged with the *old* check (Cond.update / Cond.regenerate). *)
Fixpoint dm_merge_chk (c : bool) (x y : dm) {struct x} : dm :=
  match x, y with
  | DNode lx, DNode ly =>
      let fix go (lx : list (addr * dm)) : list (addr * dm) :=
        match lx with
        | [] => []
        | (a, vx) :: lx' =>
            (a, match lookup a ly with
                | Some vy => dm_merge_chk c vx vy
                | None => vx
                end) :: go lx'
        end in
      DNode (go lx ++ filter (fun p => negb (mem (fst p) lx)) ly)
  | _, _ => if c then x else y
  end.

(** ** Choices of a trace *)
Fixpoint choices (t : tr) : cm :=
  match t with
  | TrD _ x _ => CLeaf x
  | TrFn _ m _ _ =>
      CNode ((fix go (m : list (addr * tr)) : list (addr * cm) :=
                match m with
                | [] => []
                | (a, t') :: m' => (a, choices t') :: go m'
                end) m)
  | TrCond c t1 t2 => cm_merge_chk c (choices t1) (choices t2)
  end.

Fixpoint cmap (m : list (addr * tr)) : list (addr * cm) :=
  match m with
  | [] => []
  | (a, t') :: m' => (a, choices t') :: cmap m'
  end.

Fixpoint dm_of_cm (x : cm) : dm :=
  match x with
  | CLeaf v => DLeaf v
  | CNode l => DNode ((fix go (l : list (addr * cm)) :=
                         match l with
                         | [] => []
                         | (a, y) :: l' => (a, dm_of_cm y) :: go l'
                         end) l)
  end.

(** A discard used as a constraint: [None] entries behave as absent. *)
Fixpoint cm_of_dm (d : dm) : option cm :=
  match d with
  | DNone => None
  | DLeaf v => Some (CLeaf v)
  | DNode l => Some (CNode ((fix go (l : list (addr * dm)) : list (addr * cm) :=
                               match l with
                               | [] => []
                               | (a, y) :: l' =>
                                   match cm_of_dm y with
                                   | Some c => (a, c) :: go l'
                                   | None => go l'
                                   end
                               end) l))
  end.

(** Split the arguments of a Cond: [(check, *rest)]. *)
Definition cond_args (args : value) : res (bool * value) :=
  match args with
  | VTup (VB c :: rest) => Ok (c, VTup rest)
  | _ => Err EType
  end.

(* ------------------------------------------------------------------ *)
(** * simulate *)

Record SimSt := { s_score : Z; s_map : list (addr * tr) }.

Definition Distribution_simulate (d : dist) (args : value) : samp tr :=
  SDraw d args (fun x => SRet (TrD args x (- logpdf d x args))).

Definition Simulate_call (callee : value -> samp tr) (st : SimSt) (a : addr) (args : value)
  : samp (value * SimSt) :=
  if mem a (s_map st) then SErr ECollision else
  t <- callee args ;;
  SRet (get_retval t, {| s_score := s_score st + get_score t; s_map := (a, t) :: s_map st |}).

Fixpoint gf_simulate (g : gf) (args : value) {struct g} : samp tr :=
  match g with
  | GDist d => Distribution_simulate d args
  | GFn body =>
      '(r, st) <- run_simulate (body args) {| s_score := 0; s_map := [] |} ;;
      SRet (TrFn args (s_map st) r (s_score st))
  | GCond g1 g2 =>
      '(c, rest) <- lift (cond_args args) ;;
      t1 <- gf_simulate g1 rest ;;
      t2 <- gf_simulate g2 rest ;;
      SRet (TrCond c t1 t2)
  end
with run_simulate (p : prog) (st : SimSt) {struct p} : samp (value * SimSt) :=
  match p with
  | Ret v => SRet (v, st)
  | Fail e => SErr e
  | Call a g args k =>
      '(r, st') <- Simulate_call (gf_simulate g) st a args ;;
      run_simulate (k r) st'
  end.

(* ------------------------------------------------------------------ *)
(** * assess *)

Record AssSt := { a_logp : Z; a_visited : list addr }.

Definition Distribution_assess (d : dist) (x : cm) (args : value) : res (Z * value) :=
  match x with
  | CLeaf v => Ok (logpdf d v args, v)
  | CNode _ => Err EType
  end.

Definition Assess_call (callee : cm -> value -> res (Z * value)) (X : cm) (st : AssSt)
           (a : addr) (args : value) : res (value * AssSt) :=
  if existsb (addr_eqb a) (a_visited st) then Err ECollision else
  match cm_get a X with
  | None => Err EKey
  | Some x =>
      '(lp, r) <-r callee x args ;;
      Ok (r, {| a_logp := a_logp st + lp; a_visited := a :: a_visited st |})
  end.

Fixpoint gf_assess (g : gf) (x : cm) (args : value) {struct g} : res (Z * value) :=
  match g with
  | GDist d => Distribution_assess d x args
  | GFn body =>
      '(r, st) <-r run_assess (body args) x {| a_logp := 0; a_visited := [] |} ;;
      Ok (a_logp st, r)
  | GCond g1 g2 =>
      '(c, rest) <-r cond_args args ;;
      '(lp1, r1) <-r gf_assess g1 x rest ;;
      '(lp2, r2) <-r gf_assess g2 x rest ;;
      Ok (if c then lp1 else lp2, if c then r1 else r2)
  end
with run_assess (p : prog) (X : cm) (st : AssSt) {struct p} : res (value * AssSt) :=
  match p with
  | Ret v => Ok (v, st)
  | Fail e => Err e
  | Call a g args k =>
      '(r, st') <-r Assess_call (gf_assess g) X st a args ;;
      run_assess (k r) X st'
  end.

(* ------------------------------------------------------------------ *)
(** * generate *)

Record GenSt := { g_score : Z; g_weight : Z; g_map : list (addr * tr) }.

Definition Distribution_generate (d : dist) (x : option cm) (args : value) : samp (tr * Z) :=
  match x with
  | None => t <- Distribution_simulate d args ;; SRet (t, 0)
  | Some x =>
      '(lp, r) <- lift (Distribution_assess d x args) ;;
      SRet (TrD args r (- lp), lp)
  end.

Definition Generate_call (callee : option cm -> value -> samp (tr * Z)) (X : cm) (st : GenSt)
           (a : addr) (args : value) : samp (value * GenSt) :=
  if mem a (g_map st) then SErr ECollision else
  match X with
  | CLeaf _ => SErr EType
  | CNode _ =>
      '(t, w) <- callee (cm_get a X) args ;;
      SRet (get_retval t,
            {| g_score := g_score st + get_score t;
               g_weight := g_weight st + w;
               g_map := (a, t) :: g_map st |})
  end.

Fixpoint gf_generate (g : gf) (x : option cm) (args : value) {struct g} : samp (tr * Z) :=
  match g with
  | GDist d => Distribution_generate d x args
  | GFn body =>
      match x with
      | None => t <- gf_simulate (GFn body) args ;; SRet (t, 0)
      | Some X =>
          '(r, st) <- run_generate (body args) X {| g_score := 0; g_weight := 0; g_map := [] |} ;;
          SRet (TrFn args (g_map st) r (g_score st), g_weight st)
      end
  | GCond g1 g2 =>
      '(c, rest) <- lift (cond_args args) ;;
      match x with
      | None =>
          t1 <- gf_simulate g1 rest ;;
          t2 <- gf_simulate g2 rest ;;
          SRet (TrCond c t1 t2, 0)
      | Some _ =>
          '(t1, w1) <- gf_generate g1 x rest ;;
          '(t2, w2) <- gf_generate g2 x rest ;;
          SRet (TrCond c t1 t2, if c then w1 else w2)
      end
  end
with run_generate (p : prog) (X : cm) (st : GenSt) {struct p} : samp (value * GenSt) :=
  match p with
  | Ret v => SRet (v, st)
  | Fail e => SErr e
  | Call a g args k =>
      '(r, st') <- Generate_call (gf_generate g) X st a args ;;
      run_generate (k r) X st'
  end.

(* ------------------------------------------------------------------ *)
(** * update *)

Record UpdSt := { u_score : Z; u_weight : Z; u_map : list (addr * tr);
                  u_discard : list (addr * dm) }.

Definition Distribution_update (d : dist) (t : tr) (x : option cm) (args : value)
  : res (tr * Z * dm) :=
  let x' := match x with None => choices t | Some x' => x' end in
  match x' with
  | CLeaf v =>
      let lp := logpdf d v args in
      Ok (TrD args v (- lp), lp + get_score t, DLeaf (get_retval t))
  | CNode _ => Err EType
  end.

Definition Update_call (callee : tr -> option cm -> value -> res (tr * Z * dm))
           (old : list (addr * tr)) (oldc : cm) (X : cm) (st : UpdSt) (a : addr) (args : value)
  : res (value * UpdSt) :=
  if mem a (u_map st) then Err ECollision else
  match lookup a old with
  | None => Err EKey
  | Some sub =>
      match (match cm_get a X with Some x => Some x | None => cm_get a oldc end) with
      | None => Err EKey
      | Some x =>
          '(t, w, d) <-r callee sub (Some x) args ;;
          Ok (get_retval t,
              {| u_score := u_score st + get_score t;
                 u_weight := u_weight st + w;
                 u_map := (a, t) :: u_map st;
                 u_discard := (a, d) :: u_discard st |})
      end
  end.

Fixpoint gf_update (g : gf) (t : tr) (x : option cm) (args : value) {struct g}
  : res (tr * Z * dm) :=
  match g with
  | GDist d => Distribution_update d t x args
  | GFn body =>
      match t with
      | TrFn _ old _ _ =>
          let X := match x with None => CNode [] | Some X => X end in
          match X with
          | CLeaf _ => Err EType
          | CNode _ =>
              '(r, st) <-r run_update (body args) old (choices t) X
                            {| u_score := 0; u_weight := 0; u_map := []; u_discard := [] |} ;;
              Ok (TrFn args (u_map st) r (u_score st), u_weight st, DNode (u_discard st))
          end
      | _ => Err EType
      end
  | GCond g1 g2 =>
      '(c, rest) <-r cond_args args ;;
      match t with
      | TrCond c0 t1 t2 =>
          '(t1', w1, d1) <-r gf_update g1 t1 x rest ;;
          '(t2', w2, d2) <-r gf_update g2 t2 x rest ;;
          let t' := TrCond c t1' t2' in
          Ok (t', get_score t - get_score t', dm_merge_chk c0 d1 d2)
      | _ => Err EType
      end
  end
with run_update (p : prog) (old : list (addr * tr)) (oldc : cm) (X : cm) (st : UpdSt) {struct p}
  : res (value * UpdSt) :=
  match p with
  | Ret v => Ok (v, st)
  | Fail e => Err e
  | Call a g args k =>
      '(r, st') <-r Update_call (gf_update g) old oldc X st a args ;;
      run_update (k r) old oldc X st'
  end.

(* ------------------------------------------------------------------ *)
(** * regenerate *)

Definition Distribution_regenerate (d : dist) (t : tr) (s : sel) (args : value)
  : samp (tr * Z * dm) :=
  if sel_unit s then
    t' <- Distribution_simulate d args ;;
    SRet (t', 0, dm_of_cm (choices t))
  else
    match choices t with
    | CLeaf v =>
        let lp := logpdf d v args in
        SRet (TrD args v (- lp), lp + get_score t, DNone)
    | CNode _ => SErr EType
    end.

Definition Regenerate_call (callee : tr -> sel -> value -> samp (tr * Z * dm))
           (old : list (addr * tr)) (s : sel) (st : UpdSt) (a : addr) (args : value)
  : samp (value * UpdSt) :=
  if mem a (u_map st) then SErr ECollision else
  match lookup a old with
  | None => SErr EKey
  | Some sub =>
      '(t, w, d) <- callee sub (snd (sel_match s a)) args ;;
      SRet (get_retval t,
            {| u_score := u_score st + get_score t;
               u_weight := u_weight st + w;
               u_map := (a, t) :: u_map st;
               u_discard := (a, d) :: u_discard st |})
  end.

Fixpoint gf_regenerate (g : gf) (t : tr) (s : sel) (args : value) {struct g}
  : samp (tr * Z * dm) :=
  match g with
  | GDist d => Distribution_regenerate d t s args
  | GFn body =>
      match t with
      | TrFn _ old _ _ =>
          '(r, st) <- run_regenerate (body args) old s
                        {| u_score := 0; u_weight := 0; u_map := []; u_discard := [] |} ;;
          SRet (TrFn args (u_map st) r (u_score st), u_weight st, DNode (u_discard st))
      | _ => SErr EType
      end
  | GCond g1 g2 =>
      '(c, rest) <- lift (cond_args args) ;;
      match t with
      | TrCond c0 t1 t2 =>
          '(t1', w1, d1) <- gf_regenerate g1 t1 s rest ;;
          '(t2', w2, d2) <- gf_regenerate g2 t2 s rest ;;
          let d := match d1, d2 with
                   | DNone, _ => d2
                   | _, DNone => d1
                   | _, _ => dm_merge_chk c0 d1 d2
                   end in
          (* when the condition switches, the previously visible branch's score is accounted for *)
          let corr := get_score t - (if c then get_score t1 else get_score t2) in
          SRet (TrCond c t1' t2', (if c then w1 else w2) + corr, d)
      | _ => SErr EType
      end
  end
with run_regenerate (p : prog) (old : list (addr * tr)) (s : sel) (st : UpdSt) {struct p}
  : samp (value * UpdSt) :=
  match p with
  | Ret v => SRet (v, st)
  | Fail e => SErr e
  | Call a g args k =>
      '(r, st') <- Regenerate_call (gf_regenerate g) old s st a args ;;
      run_regenerate (k r) old s st'
  end.

(* ------------------------------------------------------------------ *)
(** * filter (Fn.filter / Distribution.filter) *)

Fixpoint cm_filter (x : cm) (s : sel) {struct x} : option cm * option cm :=
  match x with
  | CLeaf v => if sel_unit s then (Some x, None) else (None, Some x)
  | CNode l =>
      let fix go (l : list (addr * cm)) : list (addr * cm) * list (addr * cm) :=
        match l with
        | [] => ([], [])
        | (a, v) :: l' =>
            let '(sl, ul) := go l' in
            let sub := snd (sel_match s a) in
            match v with
            | CNode _ =>
                let '(sv, uv) := cm_filter v sub in
                (match sv with Some y => (a, y) :: sl | None => sl end,
                 match uv with Some y => (a, y) :: ul | None => ul end)
            | CLeaf _ =>
                if sel_unit sub then ((a, v) :: sl, ul) else (sl, (a, v) :: ul)
            end
        end in
      match l with
      | [] => (None, None)
      | _ =>
          let '(sl, ul) := go l in
          (match sl with [] => None | _ => Some (CNode sl) end,
           match ul with [] => None | _ => Some (CNode ul) end)
      end
  end.

(** Fn.merge without a check: union of keys, recursing into sub-maps present on
    both sides, the second argument winning on leaves present in both. *)
Fixpoint cm_merge (x y : cm) {struct x} : cm :=
  match x, y with
  | CNode lx, CNode ly =>
      let fix go (lx : list (addr * cm)) : list (addr * cm) :=
        match lx with
        | [] => []
        | (a, vx) :: lx' =>
            (a, match lookup a ly with
                | Some vy => match vx, vy with CNode _, CNode _ => cm_merge vx vy | _, _ => vy end
                | None => vx
                end) :: go lx'
        end in
      CNode (go lx ++ filter (fun p => negb (mem (fst p) lx)) ly)
  | _, _ => y
  end.
