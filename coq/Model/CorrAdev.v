(** CorrAdev.v — correspondence cases for ADEV (C11, C15). *)
From Coq Require Import QArith Qcanon Qabs List Bool.
Import ListNotations.
From GV Require Import Model.Adev Model.AdevDet.

Definition qc (a : Z) (b : positive) : Qc := Q2Qc (Qmake a b).

Definition close (x y : Q) : bool :=
  Qle_bool (Qabs (x - y)) ((1 # 20000) + (1 # 20000) * Qabs y).

(** one scripted run: the outcomes fed to the non-enumerated sites, observed primal and tangent *)
Definition runobs := (list bool * Q * Q)%type.

Inductive acase :=
| CAdev (e : eprog) (runs : list runobs)
(* a reparameterised site with L lanes: per-lane location / scale duals, scripted noise, then the
   deterministic continuation  sum_i w_i x_i + x_0 * x_last *)
| CReparam (uniform : bool) (mus sigs : list D) (eps ws : list Qc) (op ot : Q)
| CCanon (kin kout : nat)          (* 0 = symbolic zero, 1 = float0, 2 = value *)
| CFlagA (ok : bool).

Fixpoint bools_eq (a b : list bool) : bool :=
  match a, b with [], [] => true | x :: a', y :: b' => Bool.eqb x y && bools_eq a' b' | _, _ => false end.

Fixpoint lookup_run (bs : list bool) (runs : list runobs) : option (Q * Q) :=
  match runs with
  | [] => None
  | (bs', p, t) :: r => if bools_eq bs bs' then Some (p, t) else lookup_run bs r
  end.

(** expectation of the OBSERVED table under the model's outcome probabilities *)
Fixpoint ex_table (m : rnd D) (prefix : list bool) (runs : list runobs) : option (Q * Q) :=
  match m with
  | RRet _ => lookup_run prefix runs
  | RFlip p k =>
      match ex_table (k true) (prefix ++ [true]) runs, ex_table (k false) (prefix ++ [false]) runs with
      | Some (a1, b1), Some (a2, b2) =>
          Some ((this p * a1 + (1 - this p) * a2)%Q, (this p * b1 + (1 - this p) * b2)%Q)
      | _, _ => None
      end
  end.

Definition check_acase (c : acase) : bool * bool * bool :=
  match c with
  | CAdev e runs =>
      let agree :=
        forallb (fun r : runobs =>
                   let '(bs, p, t) := r in
                   match run_script (adev e) bs with
                   | Some (d, []) => close p (this (fst d)) && close t (this (snd d))
                   | _ => false
                   end) runs && negb (Nat.eqb (length runs) 0) in
      let spec :=
        match ex_table (adev e) [] runs with
        | Some (p, t) => close p (this (fst (dualE e))) && close t (this (snd (dualE e)))
        | None => false
        end in
      (agree, spec, spec)
  | CReparam uni mus sigs eps ws op ot =>
      let xs := map (fun t : D * D * Qc => let '(m, sg, e) := t in
                                          if uni then reparam_uniform m sg e else reparam_normal m sg e)
                    (combine (combine mus sigs) eps) in
      let lin := fold_right (fun (t : Qc * D) acc => dadd (dmul (dconst (fst t)) (snd t)) acc) (dconst 0) (combine ws xs) in
      let r := dadd lin (dmul (hd (dconst 0) xs) (last xs (dconst 0))) in
      let ok := close op (this (fst r)) && close ot (this (snd r)) in (ok, ok, ok)
  | CCanon kin kout =>
      let t := match kin with O => TZero | S O => TFloat0 | _ => TV 1 end in
      let want := match canonicalize t with TZero => 0%nat | TFloat0 => 1%nat | TV _ => 2%nat end in
      let ok := Nat.eqb want kout in (ok, ok, ok)
  | CFlagA ok => (ok, ok, ok)
  end.

Definition areport (cs : list acase) : list (nat * bool * bool * bool) :=
  (fix go (i : nat) (cs : list acase) :=
     match cs with
     | [] => []
     | c :: cs' =>
         let '(a, s, r) := check_acase c in
         if a && s then go (S i) cs' else (i, a, s, r) :: go (S i) cs'
     end) O cs.
