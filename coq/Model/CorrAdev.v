(** CorrAdev.v — correspondence cases for ADEV (C11, C15). *)
From Coq Require Import QArith Qcanon Qabs List Bool.
Import ListNotations.
From GV Require Import Model.Adev Model.AdevDet.

Definition qc (a : Z) (b : positive) : Qc := Q2Qc (Qmake a b).

Definition close (x y : Q) : bool :=
  Qle_bool (Qabs (x - y)) ((1 # 20000) + (1 # 20000) * Qabs y).

(** one scripted run: the outcomes fed to the non-enumerated sites, observed primal and tangent *)
Definition runobs := (list bool * Q * Q)%type.

Inductive acase :=
| CAdev (e : eprog) (runs : list runobs)
(* a reparameterised site with L lanes: per-lane location / scale duals, scripted noise, then the
   deterministic continuation  sum_i w_i x_i + x_0 * x_last *)
| CReparam (uniform : bool) (mus sigs : list D) (eps ws : list Qc) (op ot : Q)
(* categorical_enum_parallel over weights w_i (duals; masses w_i / sum w) and values v_i, optionally followed
   by a flip_enum site with probability p adding fw*(1+theta) when true: op/ot observed primal and tangent,
   oe/og the observed estimate and grad_estimate *)
| CCatEnum (ws vs : list D) (flip : option (D * D)) (op ot oe og : Q)
(* batched flip_mvd: per-lane probability duals, the table of f on every outcome vector (value, d/dtheta),
   and per scripted outcome the observed (primal, tangent) *)
| CMvdVec (ps : list D) (table : list (list bool * D)) (runs : list (list bool * Q * Q))
| CCanon (kin kout : nat)          (* 0 = symbolic zero, 1 = float0, 2 = value *)
| CFlagA (ok : bool).

Fixpoint bools_eq (a b : list bool) : bool :=
  match a, b with [], [] => true | x :: a', y :: b' => Bool.eqb x y && bools_eq a' b' | _, _ => false end.

Fixpoint lookup_run (bs : list bool) (runs : list runobs) : option (Q * Q) :=
  match runs with
  | [] => None
  | (bs', p, t) :: r => if bools_eq bs bs' then Some (p, t) else lookup_run bs r
  end.

(** expectation of the OBSERVED table under the model's outcome probabilities *)
Fixpoint ex_table (m : rnd D) (prefix : list bool) (runs : list runobs) : option (Q * Q) :=
  match m with
  | RRet _ => lookup_run prefix runs
  | RFlip p k =>
      match ex_table (k true) (prefix ++ [true]) runs, ex_table (k false) (prefix ++ [false]) runs with
      | Some (a1, b1), Some (a2, b2) =>
          Some ((this p * a1 + (1 - this p) * a2)%Q, (this p * b1 + (1 - this p) * b2)%Q)
      | _, _ => None
      end
  end.

Definition check_acase (c : acase) : bool * bool * bool :=
  match c with
  | CAdev e runs =>
      let agree :=
        forallb (fun r : runobs =>
                   let '(bs, p, t) := r in
                   match run_script (adev e) bs with
                   | Some (d, []) => close p (this (fst d)) && close t (this (snd d))
                   | _ => false
                   end) runs && negb (Nat.eqb (length runs) 0) in
      let spec :=
        match ex_table (adev e) [] runs with
        | Some (p, t) => close p (this (fst (dualE e))) && close t (this (snd (dualE e)))
        | None => false
        end in
      (agree, spec, spec)
  | CReparam uni mus sigs eps ws op ot =>
      let xs := map (fun t : D * D * Qc => let '(m, sg, e) := t in
                                          if uni then reparam_uniform m sg e else reparam_normal m sg e)
                    (combine (combine mus sigs) eps) in
      let lin := fold_right (fun (t : Qc * D) acc => dadd (dmul (dconst (fst t)) (snd t)) acc) (dconst 0) (combine ws xs) in
      let r := dadd lin (dmul (hd (dconst 0) xs) (last xs (dconst 0))) in
      let ok := close op (this (fst r)) && close ot (this (snd r)) in (ok, ok, ok)
  | CCatEnum ws vs fl op ot oe og =>
      let ddiv := fun a b : D => ((fst a / fst b)%Qc, ((snd a * fst b - fst a * snd b) / (fst b * fst b))%Qc) : D in
      let W := fold_right dadd (dconst 0) ws in
      let ev := fold_right (fun (t : D * D) acc => dadd (dmul (ddiv (fst t) W) (snd t)) acc) (dconst 0) (combine ws vs) in
      let r := match fl with
               | None => ev
               | Some (p, g) => dadd ev (dmul p g)
               end in
      let ok := close op (this (fst r)) && close ot (this (snd r)) && close oe (this (fst r)) && close og (this (snd r)) in
      (ok, ok, ok)
  | CMvdVec ps table runs =>
      let bits_eqb := fix go (a b : list bool) : bool :=
          match a, b with [], [] => true | x :: a', y :: b' => Bool.eqb x y && go a' b' | _, _ => false end in
      let F := fun b => match find (fun e : list bool * D => bits_eqb (fst e) b) table with
                        | Some e => snd e | None => dconst (Q2Qc 0) end in
      let flip_at := fix go (i : nat) (b : list bool) : list bool :=
          match b, i with
          | [], _ => []
          | x :: b', O => negb x :: b'
          | x :: b', S i' => x :: go i' b'
          end in
      (* lane-wise measure-valued estimator: f'(b) + sum_i (+-1) (f(flip_i b) - f(b)) p_i' *)
      let est := fun b =>
        let fb := F b in
        let corr := fold_right (fun (t : nat * (bool * D)) (acc : Qc) =>
                                  let '(i, (bi, p)) := t in
                                  (acc + (if bi then - Q2Qc 1 else Q2Qc 1) * (fst (F (flip_at i b)) - fst fb) * snd p)%Qc)
                               (Q2Qc 0) (combine (seq 0 (length b)) (combine b ps)) in
        (fst fb, (snd fb + corr)%Qc) in
      let agree := forallb (fun r : list bool * Q * Q =>
                              let '(b, op, ot) := r in
                              let e := est b in close op (this (fst e)) && close ot (this (snd e))) runs in
      (* the estimator's mean over the outcome law is the exact derivative of the expectation *)
      let prob := fun b => fold_right (fun (t : bool * D) acc =>
                                         dmul (if fst t then snd t else dadd (dconst (Q2Qc 1)) (dmul (dconst (- Q2Qc 1)%Qc) (snd t))) acc)
                                      (dconst (Q2Qc 1)) (combine b ps) in
      let outcomes := map fst table in
      let exact := fold_right (fun b acc => dadd (dmul (prob b) (F b)) acc) (dconst (Q2Qc 0)) outcomes in
      let mean_t := fold_right (fun b (acc : Qc) => (acc + fst (prob b) * snd (est b))%Qc) (Q2Qc 0) outcomes in
      let unbiased := Qc_eq_bool mean_t (snd exact) in
      (agree && Nat.eqb (length runs) (length table), unbiased && agree, unbiased)
  | CCanon kin kout =>
      let t := match kin with O => TZero | S O => TFloat0 | _ => TV 1 end in
      let want := match canonicalize t with TZero => 0%nat | TFloat0 => 1%nat | TV _ => 2%nat end in
      let ok := Nat.eqb want kout in (ok, ok, ok)
  | CFlagA ok => (ok, ok, ok)
  end.

Definition areport (cs : list acase) : list (nat * bool * bool * bool) :=
  (fix go (i : nat) (cs : list acase) :=
     match cs with
     | [] => []
     | c :: cs' =>
         let '(a, s, r) := check_acase c in
         if a && s then go (S i) cs' else (i, a, s, r) :: go (S i) cs'
     end) O cs.
