(** StateM.v — model of genjax.state: the State interpreter (a flat list of
    equations with a namespace stack, scan bodies re-interpreted by a fresh
    interpreter and stacked) and the specification (a structured program whose
    saves are collected under their enclosing namespaces). *)
From Coq Require Import List Arith Bool Lia.
Import ListNotations.

(** Saved values are symbolic: which save site, at which dynamic instance
    (scan iteration / lane indices), stacked along scan and vmap axes. *)
Inductive arr := ASite (site : nat) (idx : list nat) | AStack (l : list arr).

Inductive tree := TLeaf (a : arr) | TNode (l : list (nat * tree)).

(** value expressions after tracing: a site's value, possibly batched by vmaps *)
Inductive vexp := VSite (site : nat) | VBatch (n : nat) (v : vexp).

Fixpoint inst (v : vexp) (idx : list nat) : arr :=
  match v with
  | VSite s => ASite s idx
  | VBatch n v' => AStack (map (fun lane => inst v' (idx ++ [lane])) (seq 0 n))
  end.

(** dict update keeping insertion order: replace in place, else append *)
Fixpoint aset (k : nat) (v : tree) (l : list (nat * tree)) : list (nat * tree) :=
  match l with
  | [] => [(k, v)]
  | (k', v') :: l' => if Nat.eqb k k' then (k, v) :: l' else (k', v') :: aset k v l'
  end.
Fixpoint aget (k : nat) (l : list (nat * tree)) : option tree :=
  match l with
  | [] => None
  | (k', v') :: l' => if Nat.eqb k k' then Some v' else aget k l'
  end.

Definition entries (t : tree) : list (nat * tree) := match t with TNode l => l | TLeaf _ => [] end.

(** _nested_dict_set(d, path, name, value): create missing namespaces on the way *)
Fixpoint tset (path : list nat) (name : nat) (v : tree) (t : tree) : tree :=
  match path with
  | [] => TNode (aset name v (entries t))
  | ns :: path' =>
      let sub := match aget ns (entries t) with Some s => s | None => TNode [] end in
      TNode (aset ns (tset path' name v sub) (entries t))
  end.

(** leaf-mode save: the value becomes the entry of the innermost namespace *)
Definition tset_leaf (path : list nat) (v : tree) (t : tree) : tree :=
  match rev path with
  | [] => t                       (* raises in the implementation *)
  | last :: rinit => tset (rev rinit) last v t
  end.

(** _nested_dict_merge: sub-dicts merged, other entries replaced *)
Fixpoint tmerge (new : tree) (target : tree) {struct new} : tree :=
  match new with
  | TLeaf _ => new
  | TNode ln =>
      TNode ((fix go (ln : list (nat * tree)) (acc : list (nat * tree)) : list (nat * tree) :=
                match ln with
                | [] => acc
                | (k, v) :: ln' =>
                    let v' := match v, aget k acc with
                              | TNode _, Some (TNode lt) => tmerge v (TNode lt)
                              | _, _ => v
                              end in
                    go ln' (aset k v' acc)
                end) ln (entries target))
  end.

Fixpoint tmerge_at (path : list nat) (new : tree) (t : tree) : tree :=
  match path with
  | [] => tmerge new t
  | ns :: path' =>
      let sub := match aget ns (entries t) with Some s => s | None => TNode [] end in
      TNode (aset ns (tmerge_at path' new sub) (entries t))
  end.

(** stack per-iteration states leafwise (structure taken from [shape]) *)
Definition leaf_of (t : tree) : arr := match t with TLeaf a => a | TNode _ => AStack [] end.
Definition child (k : nat) (t : tree) : tree :=
  match aget k (entries t) with Some s => s | None => TNode [] end.

Fixpoint tstack (shape : tree) (ts : list tree) : tree :=
  match shape with
  | TLeaf _ => TLeaf (AStack (map leaf_of ts))
  | TNode l =>
      TNode ((fix go (l : list (nat * tree)) : list (nat * tree) :=
                match l with
                | [] => []
                | (k, s) :: l' => (k, tstack s (map (child k) ts)) :: go l'
                end) l)
  end.

(** * the interpreter (code model): equations of the staged Jaxpr *)
Inductive eqn :=
| ETag (name : nat) (v : vexp)
| ELeafTag (v : vexp)
| EPush (ns : nat)
| EPop
| EScan (len : nat) (rv : bool) (body : list eqn)
| EDet.

(** lax.scan(..., reverse=rv): the dynamic instance [k] is the execution step (what a carried
    quantity sees); a forward scan puts step k at stack position k, a reverse scan runs from the
    last position down, so that position i holds step len-1-i. *)
Definition scan_order (len : nat) (rv : bool) : list nat :=
  if rv then rev (seq 0 len) else seq 0 len.

Record ist := { coll : tree; nstack : list nat }.

Fixpoint interp1 (e : eqn) (idx : list nat) (st : ist) {struct e} : ist :=
  match e with
  | ETag name v => {| coll := tset (nstack st) name (TLeaf (inst v idx)) (coll st); nstack := nstack st |}
  | ELeafTag v => {| coll := tset_leaf (nstack st) (TLeaf (inst v idx)) (coll st); nstack := nstack st |}
  | EPush ns => {| coll := coll st; nstack := nstack st ++ [ns] |}
  | EPop => {| coll := coll st; nstack := removelast (nstack st) |}
  | EDet => st
  | EScan len rv body =>
      let run := fun i =>
        coll ((fix go (es : list eqn) (st : ist) : ist :=
                 match es with [] => st | e' :: es' => go es' (interp1 e' (idx ++ [i]) st) end)
                body {| coll := TNode []; nstack := [] |}) in
      let states := map run (scan_order len rv) in
      {| coll := tmerge_at (nstack st) (tstack (run 0) states) (coll st); nstack := nstack st |}
  end.

Fixpoint interp (es : list eqn) (idx : list nat) (st : ist) : ist :=
  match es with [] => st | e :: es' => interp es' idx (interp1 e idx st) end.

(** * the structured program (what the user wrote) *)
Inductive sprog :=
| PSave (name : nat) (site : nat)
| PSaveLeaf (site : nat)
| PDet
| PNs (ns : nat) (body : list sprog)
| PScan (len : nat) (rv : bool) (body : list sprog)
| PVmap (n : nat) (body : list sprog).

Fixpoint wrap (bs : list nat) (v : vexp) : vexp :=
  match bs with [] => v | n :: bs' => VBatch n (wrap bs' v) end.

(** tracing: namespaces become push/pop pairs, vmap batches the saved values *)
Fixpoint flatten1 (p : sprog) (bs : list nat) {struct p} : list eqn :=
  match p with
  | PSave name site => [ETag name (wrap bs (VSite site))]
  | PSaveLeaf site => [ELeafTag (wrap bs (VSite site))]
  | PDet => [EDet]
  | PNs ns body =>
      EPush ns :: (fix go (l : list sprog) := match l with [] => [] | q :: l' => flatten1 q bs ++ go l' end) body ++ [EPop]
  | PScan len rv body =>
      [EScan len rv ((fix go (l : list sprog) := match l with [] => [] | q :: l' => flatten1 q bs ++ go l' end) body)]
  | PVmap n body =>
      (fix go (l : list sprog) := match l with [] => [] | q :: l' => flatten1 q (bs ++ [n]) ++ go l' end) body
  end.
Fixpoint flatten (ps : list sprog) (bs : list nat) : list eqn :=
  match ps with [] => [] | p :: ps' => flatten1 p bs ++ flatten ps' bs end.

(** * the specification: collected state of a structured program *)
Fixpoint spec1 (p : sprog) (idx path bs : list nat) (acc : tree) {struct p} : tree :=
  match p with
  | PSave name site => tset path name (TLeaf (inst (wrap bs (VSite site)) idx)) acc
  | PSaveLeaf site => tset_leaf path (TLeaf (inst (wrap bs (VSite site)) idx)) acc
  | PDet => acc
  | PNs ns body =>
      (fix go (l : list sprog) (acc : tree) : tree :=
         match l with [] => acc | q :: l' => go l' (spec1 q idx (path ++ [ns]) bs acc) end) body acc
  | PScan len rv body =>
      let per := fun i =>
        (fix go (l : list sprog) (acc : tree) : tree :=
           match l with [] => acc | q :: l' => go l' (spec1 q (idx ++ [i]) [] bs acc) end) body (TNode []) in
      tmerge_at path (tstack (per 0) (map per (scan_order len rv))) acc
  | PVmap n body =>
      (fix go (l : list sprog) (acc : tree) : tree :=
         match l with [] => acc | q :: l' => go l' (spec1 q idx path (bs ++ [n]) acc) end) body acc
  end.
Fixpoint spec (ps : list sprog) (idx path bs : list nat) (acc : tree) : tree :=
  match ps with [] => acc | p :: ps' => spec ps' idx path bs (spec1 p idx path bs acc) end.
