(** Hmm.v — model of genjax.extras.state_space: forward_filter,
    compute_sequence_log_prob, backward_sample, in probability space over the
    canonical rationals (log -> identity, + -> *, logsumexp -> sum).
    States are 0..K-1, symbols arbitrary naturals. *)
From Coq Require Import QArith Qcanon List Arith.
Import ListNotations.
Open Scope Qc_scope.

Section Hmm.
  Variable K : nat.
  Variable pi0 : nat -> Qc.            (* initial_probs *)
  Variable A : nat -> nat -> Qc.       (* transition_matrix[x, x'] *)
  Variable E : nat -> nat -> Qc.       (* emission_matrix[x, y] *)

  Definition sumK (f : nat -> Qc) : Qc := fold_right (fun x acc => f x + acc) 0 (seq 0 K).

  (** forward recursion; observations are given newest first (the scan consumes
      them oldest first: alpha_t from alpha_{t-1}) *)
  Fixpoint alpha (rys : list nat) (x' : nat) : Qc :=
    match rys with
    | [] => 0
    | [y] => E x' y * pi0 x'
    | y :: rest => E x' y * sumK (fun x => alpha rest x * A x x')
    end.

  Definition marginal (rys : list nat) : Qc := sumK (alpha rys).

  (** the same recursion as the code runs it: one vector per step, oldest
      observation first (linear in the sequence length) *)
  Definition step_vec (prev : list Qc) (y : nat) : list Qc :=
    map (fun x' => E x' y * sumK (fun x => nth x prev 0 * A x x')) (seq 0 K).
  Definition alpha_vec (ys : list nat) : list Qc :=
    match ys with
    | [] => map (fun _ => 0) (seq 0 K)
    | y0 :: ys' => fold_left step_vec ys' (map (fun x => E x y0 * pi0 x) (seq 0 K))
    end.
  Definition marginal_vec (ys : list nat) : Qc := fold_right Qcplus 0 (alpha_vec ys).
  Definition filtering (rys : list nat) (x : nat) : Qc := alpha rys x / marginal rys.

  (** joint probability of a state path and the observations (both newest first) *)
  Fixpoint joint (rxs rys : list nat) : Qc :=
    match rxs, rys with
    | [x], [y] => pi0 x * E x y
    | x' :: ((x :: _) as rest), y :: rys' => joint rest rys' * A x x' * E x' y
    | _, _ => 0
    end.

  (** compute_sequence_log_prob, oldest first as in the code: the running product *)
  Fixpoint seq_prob_from (acc : Qc) (prev : nat) (xs ys : list nat) : Qc :=
    match xs, ys with
    | x :: xs', y :: ys' => seq_prob_from (acc * A prev x * E x y) x xs' ys'
    | _, _ => acc
    end.
  Definition seq_prob (xs ys : list nat) : Qc :=
    match xs, ys with
    | x0 :: xs', y0 :: ys' => seq_prob_from (pi0 x0 * E x0 y0) x0 xs' ys'
    | _, _ => 0
    end.

  (** all state paths of a given length *)
  Fixpoint paths (n : nat) : list (list nat) :=
    match n with
    | O => [[]]
    | S n' => flat_map (fun x => map (cons x) (paths n')) (seq 0 K)
    end.

  Definition sumL (l : list Qc) : Qc := fold_right Qcplus 0 l.

  (** backward sampling: the probability it assigns to a path (newest first):
      the last state from the final filtering distribution, then each earlier
      state with weight alpha_t(x) * A(x, next) *)
  Fixpoint backward_prob (rxs rys : list nat) : Qc :=
    match rxs, rys with
    | [x], [y] => 1
    | x' :: ((x :: _) as rest), y :: rys' =>
        (alpha rys' x * A x x' / sumK (fun z => alpha rys' z * A z x')) * backward_prob rest rys'
    | _, _ => 0
    end.
  Definition ffbs_prob (rxs rys : list nat) : Qc :=
    match rxs with
    | x :: _ => alpha rys x / marginal rys * backward_prob rxs rys
    | [] => 0
    end.
End Hmm.
