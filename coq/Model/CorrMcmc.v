(** CorrMcmc.v — correspondence cases for mh / mala / hmc (C09). *)
From Coq Require Import QArith Qabs List Bool.
Import ListNotations.
From GV Require Import Model.Mcmc.
From GV Require Model.Gfi Model.Spec.

Definition qclose4 (x y : Q) : bool :=
  Qle_bool (Qabs (x - y)) ((1 # 5000) + (1 # 5000) * Qabs y).

Fixpoint qs_close (a b : list Q) : bool :=
  match a, b with
  | [], [] => true
  | x :: a', y :: b' => qclose4 x y && qs_close a' b'
  | _, _ => false
  end.

Record kobs := { o_log_alpha : Q; o_accept : bool; o_final : list Q }.

Inductive mcase :=
| CMala (m : gmodel) (args xs : list Q) (paths : list (list nat)) (s : Gfi.sel) (order : list nat)
        (eps : Q) (noise : list Q) (logu : Q) (o : kobs)
| CHmc (m : gmodel) (args xs : list Q) (paths : list (list nat)) (s : Gfi.sel) (order : list nat)
       (eps : Q) (nsteps : nat) (mom : list Q) (logu : Q) (o : kobs)
| CMh (w logu : Q) (accept : bool) (final_is_new final_is_old new_eq_old : bool).

(** [order] lists exactly the sites whose path the selection selects *)
Definition order_ok (paths : list (list nat)) (s : Gfi.sel) (order : list nat) : bool :=
  let want := filter (fun i => Spec.selected s (map Data.AName (nth i paths []))) (seq 0 (length paths)) in
  Nat.eqb (length order) (length want) &&
  forallb (fun i => existsb (Nat.eqb i) order) want &&
  forallb (fun i => existsb (Nat.eqb i) want) order.

(** decisions too close to the threshold are not judged *)
Definition far (logu la : Q) : bool :=
  negb (Qle_bool (Qabs (logu - qmin0 la)) (1 # 1000)).

Definition kcheck (r : mala_out) (logu : Q) (o : kobs) : bool :=
  qclose4 (o_log_alpha o) (m_log_alpha r) &&
  (negb (far logu (m_log_alpha r)) || Bool.eqb (o_accept o) (m_accept r)) &&
  (negb (far logu (m_log_alpha r)) || qs_close (o_final o) (m_final r)).

Definition check_mcase (c : mcase) : bool * bool * bool :=
  match c with
  | CMala m args xs paths s order eps noise logu o =>
      let ok := order_ok paths s order && kcheck (mala m args xs order eps noise logu) logu o in (ok, ok, ok)
  | CHmc m args xs paths s order eps n mom logu o =>
      let ok := order_ok paths s order && kcheck (hmc m args xs order eps n mom logu) logu o in (ok, ok, ok)
  | CMh w logu acc isnew isold same =>
      let ok := (negb (far logu w) || Bool.eqb acc (accepts logu w)) &&
                (if acc then isnew else isold) in (ok, ok, ok)
  end.

Definition mreport (cs : list mcase) : list (nat * bool * bool * bool) :=
  (fix go (i : nat) (cs : list mcase) :=
     match cs with
     | [] => []
     | c :: cs' =>
         let '(a, s, r) := check_mcase c in
         if a && s then go (S i) cs' else (i, a, s, r) :: go (S i) cs'
     end) O cs.
