"""C08: modular_vmap.  Model: coq/Model/Vmap.v (sample batching rule over a broadcasting model); theorems:
coq/Properties/C08.v; correspondence: worker_vmap.py + coq/Model/CorrVmap.v.  The Vmap combinator itself is
exercised by the GFI checks (C01-C05) on AVmap programs."""
from __future__ import annotations

import json
import os
import subprocess
from collections import Counter

import common
import overlay
from coqgen import n

SRC = ["src/genjax/pjax.py", "src/genjax/core.py"]


def bshape(a, b):
    out = []
    a, b = list(a)[::-1], list(b)[::-1]
    for i in range(max(len(a), len(b))):
        x = a[i] if i < len(a) else 1
        y = b[i] if i < len(b) else 1
        out.append(max(x, y))
    return out[::-1]


def nl(l):
    return "[" + "; ".join(n(v) for v in l) + "]"


def real_mismatch(c):
    r = max(len(c["a"]["per"]), len(c["b"]["per"]))
    return any(x["batched"] and len(x["per"]) < r for x in (c["a"], c["b"]))


def vcase(c):
    if c["kind"] == "flag":
        return f"CFlag {'true' if c.get('ok') else 'false'}"
    if "err" in c:
        # a rank mismatch may make the sampler's broadcasting fail outright
        return "CFlag false"
    pl = bshape(c["a"]["per"], c["b"]["per"])
    axs = f"(Some {n(c['axis_size'])})" if c["axis_size"] is not None else "None"
    # the model's axis_size only matters when no parameter is batched
    obs = "[" + "; ".join(f"({n(max(a, 0))}, {n(max(b, 0))})" for a, b in c["obs"]) + "]"
    b = lambda x: "true" if x else "false"  # noqa: E731
    return (f"CSample {nl(c['S'])} {nl(c['sa'])} {nl(c['sb'])} {b(c['a']['batched'])} {b(c['b']['batched'])} "
            f"{axs} {n(c['n'])} {nl(pl)} {obs}")


def run(ctx):
    nn = 120 if ctx.tier == "quick" else 1200
    shards = 4 if ctx.tier == "quick" else 12
    root = ctx.ensure_overlay()
    env = overlay.env_for(root)
    env["PYTHONPATH"] = root + os.pathsep + common.HARNESS
    procs = []
    for k in range(shards):
        out = os.path.join(ctx.scratch, f"vm_{k}.json")
        procs.append((out, subprocess.Popen([common.PY, os.path.join(common.HARNESS, "worker_vmap.py"), out,
                                             str(ctx.seed * 100 + k), str((nn + shards - 1) // shards)],
                                            env=env, stdout=subprocess.PIPE, stderr=subprocess.PIPE, text=True,
                                            cwd=ctx.scratch)))
    cases, worker_errs = [], []
    for out, pr in procs:
        so, se = pr.communicate(timeout=3000)
        if pr.returncode != 0 or not os.path.exists(out):
            worker_errs.append(se[-1500:])
            continue
        cases.extend(json.load(open(out)))
    vf = os.path.join(ctx.scratch, "cases_vmap.v")
    open(vf, "w").write("From Coq Require Import List. Import ListNotations.\nFrom GV Require Import Model.Vmap Model.CorrVmap.\n"
                        "Definition cases : list vcase := [\n" + ";\n".join("  " + vcase(c) for c in cases)
                        + "].\nDefinition result := Eval vm_compute in vreport cases.\nPrint result.\n")
    res = common.eval_cases_files([vf])[vf]
    bad = res.get("bad", [])
    # the Vmap combinator and repeat: vmap-heavy GFI programs (Vmap of dist / fn / repeat / Scan, nested in
    # @gen functions) through simulate / assess / generate / update / regenerate, judged by Model/Corr.v
    import p_gfi
    gcases, gbad, gerrs, gcoq = p_gfi.extra_stream(ctx, "vgfi", "sim,assess,gen,hist", 60 if ctx.tier == "quick" else 600,
                                                   ["depth=2", "collide=0", "allow=dist,fn,vmap,vmap,scan", "ops=upd,regen,back", "maxops=3", "jit=0.2"])
    for gc in gcases:
        gc["gkind"], gc["kind"] = gc["kind"], "vmap-gfi"
    off = len(cases)
    cases = cases + gcases
    bad = bad + [(off + i, a, s_, x) for (i, a, s_, x) in gbad]
    worker_errs = worker_errs + gerrs
    nt = len({json.dumps([c["g"], c["args"], c.get("x"), c.get("ops")], sort_keys=True) for c in gcases if p_gfi.nsites(c["g"]) >= 2}) + len({json.dumps({k: v for k, v in c.items() if k not in ("obs",)}, sort_keys=True) for c in cases
              if (c["kind"] == "flag") or (c["kind"] == "sample" and c["n"] >= 2 and (c["a"]["batched"] or c["b"]["batched"]))})
    return {"cases": cases, "bad": bad, "worker_errs": worker_errs, "coq_errs": ([res["error"]] if "error" in res else []) + gcoq,
            "coverage": {"evaluations": len(cases), "distinct_nontrivial": nt,
                         "rule": "sample: a two-parameter parameter-echo sampler under seed(modular_vmap(...)) with 1-3 lanes, per-lane output rank 0-2, size-1 broadcast dims, "
                                 "batch axes at any position of either parameter or absent, axis_size given or inferred, site sample_shape of rank 0-2, and (15%) per-lane ranks "
                                 "that differ; the parameter elements behind every output element are decoded and compared in Coq with the model of the batching rule and with the "
                                 "lane-wise specification.  flag: deterministic functions (affine, reductions, matvec, indexing, scan, cond, pytree outputs) with in_axes in "
                                 "{0,1,-1,None}, density sites, echo sites inside nested modular_vmap / scan / cond, compared with jax.vmap of a reference; real normal sites: lanes distinct. "
                                 "vmap-gfi: random GFI programs built from Vmap (of a distribution, an @gen function, a repeat, a Scan), Scan and @gen functions, run through simulate / assess / "
                                 "generate / update / regenerate on the implementation and judged by the GFI model (Model/Corr.v): scalar score = sum of per-lane sums, stacked choices and return values.  "
                                 "non-trivial = distinct flag case, sample case with >=2 lanes and a batched parameter, or vmap-gfi program with >=2 sites",
                         "histogram": {"kinds": Counter(c["kind"] for c in cases),
                                       "vmap_gfi_ops": Counter(c["gkind"] for c in gcases),
                                       "flag_kinds": Counter(c.get("what", "").split(":")[0] for c in cases if c["kind"] == "flag"),
                                       "rank_mismatch": sum(1 for c in cases if c["kind"] == "sample" and real_mismatch(c)),
                                       "errors": Counter(c.get("err", "")[:60] for c in cases if "err" in c)},
                         "samples": [{k: v for k, v in c.items() if k not in ("obs", "feat")} for c in cases[:3]]}}


def signature(case, agree, strict, relaxed):
    # K3 is identified by its input class: batched parameters whose per-lane shapes differ in rank.  On
    # such inputs the rule either fails to broadcast, pairs lanes wrongly (the model reproduces this) or
    # returns an extra dimension (outside the model's shape family); all are the same recorded defect.
    if case["kind"] == "sample" and real_mismatch(case) and (("err" in case) or not strict):
        return "K3-rank-mismatch"
    return None
