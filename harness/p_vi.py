"""C17: ELBO objective and optimize_vi.  Model: coq/Model/Vi.v; theorems: coq/Properties/C17.v;
correspondence: worker_vi.py + coq/Model/CorrVi.v."""
from __future__ import annotations

import json
import os
import subprocess
from collections import Counter
from fractions import Fraction

import common
import coqgen
import overlay

SRC = ["src/genjax/inference/vi.py", "src/genjax/adev/__init__.py", "src/genjax/core.py"]


def q(x):
    if isinstance(x, list):
        return f"({x[0]} # {x[1]})%Q"
    f = Fraction(x)
    return f"({f.numerator} # {f.denominator})%Q"


def vicase(c):
    if "err" in c:
        return "CFlagV false"
    if c["kind"] == "elbo":
        tape = "[" + "; ".join(coqgen.val(v) for v in c["tape"]) + "]"
        return (f"CElbo {coqgen.gast(c['target'])} {coqgen.gast(c['family'])} {coqgen.cm(c['cons'])} "
                f"{coqgen.args(c['targs'])} {coqgen.args(c['qargs'])} {tape} {coqgen.z(c['value'])}")
    if c["kind"] == "fam":
        m = "[" + "; ".join(f"({q(a)}, {q(b)})" for a, b in zip(c["m"], c["dm"])) + "]"
        C = "[" + "; ".join("[" + "; ".join(f"({q(a)}, {q(b)})" for a, b in zip(r, dr)) + "]"
                            for r, dr in zip(c["C"], c["dC"])) + "]"
        ql = lambda l: "[" + "; ".join(q(x) for x in l) + "]"  # noqa: E731
        return f"CFam {m} {C} {ql(c['eps'])} {ql(c['w'])} {q(c['y'])} {q(c['p'])} {q(c['t'])}"
    if not c["shape_ok"]:
        return "CFlagV false"
    hist = "[" + "; ".join(q(h) for h in c["hist"]) + "]"
    return f"CVi {q(c['a'])} {q(c['b'])} {q(c['lr'])} {coqgen.n(c['n'])} {q(c['init'])} {q(c['final'])} {hist}"


def run(ctx):
    nn = 90 if ctx.tier == "quick" else 900
    shards = 4 if ctx.tier == "quick" else 12
    root = ctx.ensure_overlay()
    env = overlay.env_for(root)
    env["PYTHONPATH"] = root + os.pathsep + common.HARNESS
    procs = []
    for k in range(shards):
        out = os.path.join(ctx.scratch, f"vi_{k}.json")
        procs.append((out, subprocess.Popen([common.PY, os.path.join(common.HARNESS, "worker_vi.py"), out,
                                             str(ctx.seed * 100 + k), str((nn + shards - 1) // shards)],
                                            env=env, stdout=subprocess.PIPE, stderr=subprocess.PIPE, text=True,
                                            cwd=ctx.scratch)))
    cases, worker_errs = [], []
    for out, pr in procs:
        so, se = pr.communicate(timeout=3000)
        if pr.returncode != 0 or not os.path.exists(out):
            worker_errs.append(se[-1500:])
            continue
        cases.extend(json.load(open(out)))
    vf = os.path.join(ctx.scratch, "cases_vi.v")
    open(vf, "w").write("From Coq Require Import QArith.\nFrom GV Require Import Model.Corr Model.CorrVi.\n"
                        "Definition cases : list vicase := [\n" + ";\n".join("  " + vicase(c) for c in cases)
                        + "].\nDefinition result := Eval vm_compute in vireport cases.\nPrint result.\n")
    res = common.eval_cases_files([vf])[vf]
    bad = res.get("bad", [])
    # the gradient optimize_vi ascends is an ADEV estimate of the objective: composed flip programs (a REINFORCE /
    # MVD / enumeration site followed by further parameter-dependent sites) judged by Model/CorrAdev.v as in C11
    import p_adev
    aout = os.path.join(ctx.scratch, "vi_adev.json")
    pr = subprocess.run([common.PY, os.path.join(common.HARNESS, "worker_adev.py"), aout, str(ctx.seed * 100 + 55),
                         str(18 if ctx.tier == "quick" else 180), "c11"], env=env, capture_output=True, text=True, cwd=ctx.scratch)
    if pr.returncode != 0 or not os.path.exists(aout):
        worker_errs.append(pr.stderr[-1500:])
    else:
        acs = [c for c in json.load(open(aout)) if c["kind"] in ("adev", "reparam")]
        avf = os.path.join(ctx.scratch, "cases_vi_adev.v")
        open(avf, "w").write("From Coq Require Import QArith Qcanon List Bool. Import ListNotations.\n"
                             "From GV Require Import Model.Adev Model.CorrAdev.\nOpen Scope Qc_scope.\n"
                             "Definition cases : list acase := [\n" + ";\n".join("  " + p_adev.acase(c) for c in acs)
                             + "].\nDefinition result := Eval vm_compute in areport cases.\nPrint result.\n")
        ar = common.eval_cases_files([avf])[avf]
        off = len(cases)
        for c in acs:
            c["kind"] = "gradient-" + c["kind"]
        cases.extend(acs)
        if "error" in ar:
            res = dict(res)
            res["error"] = ar["error"]
        else:
            bad = list(bad) + [(off + i, a, s_, x) for (i, a, s_, x) in ar["bad"]]
    nt = len({json.dumps({k: v for k, v in c.items() if k not in ("value", "hist", "final")}, sort_keys=True) for c in cases
              if "err" not in c and (c["kind"] == "fam" or c["kind"].startswith("gradient-") or c["kind"] == "vi" and c["n"] >= 2 or c["kind"] == "elbo" and c["nlatent"] >= 1)})
    return {"cases": cases, "bad": bad, "worker_errs": worker_errs, "coq_errs": [res["error"]] if "error" in res else [],
            "coverage": {"evaluations": len(cases), "distinct_nontrivial": nt,
                         "rule": "elbo: random @gen targets with 2-4 dyadic categorical sites (parent-dependent), random observed subsets, a variational family over the "
                                 "latent addresses (20%: also over an observed address, to exercise merge precedence) built from a REINFORCE primitive with scripted outcomes; "
                                 "elbo_factory(...).estimate(params) in units of ln 2 compared exactly with the model and with log p(merged) - log q(z) from the spec densities; also structured families "
                                 "(random nested @gen functions and Cond with shared / hierarchical addresses over tape-stub distributions bound to a score-function primitive; the target is the same "
                                 "sub-program at other arguments followed by an observed site depending on its return value). "
                                 "fam: mean_field_normal_family / full_covariance_normal_family (reparam) in 2-3 dimensions with scripted noise on a conjugate linear-Gaussian target: "
                                 "ELBO value and directional derivative w.r.t. mean and (off-diagonal) Cholesky factor compared with x = mean + chol @ eps in exact rationals (tolerance 1e-3). "
                                 "gradient: composed flip programs with REINFORCE / MVD / enumeration sites and scripted outcomes, and batched reparameterised sites, judged as in C11 (the estimator optimize_vi ascends). "
                                 "vi: optimize_vi on -a*sum((p-b)^2) for scalar and vector parameters, learning rates {0,1/8,1/4,1/2}, 1-8 iterations: history, final parameters "
                                 "and shapes compared with the exact recurrence (tolerance 1e-4); non-trivial = distinct elbo case with a latent site / vi case with >=2 iterations",
                         "histogram": {"kinds": Counter(c["kind"] for c in cases),
                                       "full_cov_offdiag": sum(1 for c in cases if c.get("kind") == "fam" and c.get("full") and "C" in c
                                                               and any(c["C"][i][j] for i in range(c["nd"]) for j in range(i))),
                                       "overlap": sum(1 for c in cases if c.get("overlap")),
                                       "structured_family": sum(1 for c in cases if c.get("nested")),
                                       "structured_family_with_cond": sum(1 for c in cases if c.get("nested") and c.get("has_cond")),
                                       "errors": Counter(c.get("err", "")[:70] for c in cases if "err" in c)},
                         "samples": cases[:1] + [c for c in cases if c["kind"] == "vi"][:1]}}
