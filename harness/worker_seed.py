"""C06 / C07 / C14 cases: key-echo census of seeded runs; lowering behaviour of unseeded sites.
usage: worker_seed.py OUT.json SEED N"""
from __future__ import annotations

import json
import random
import sys

import jax
import jax.numpy as jnp
import numpy as np

from genjax import seed
from genjax.pjax import wrap_sampler, LoweringSamplePrimitiveToMLIRException as LowerErr
import genjax.pjax as pjax


def _echo(key, x, sample_shape=()):
    kd = jax.random.key_data(key).astype(jnp.uint32)
    return jnp.broadcast_to(kd, tuple(sample_shape) + kd.shape)


echo = wrap_sampler(_echo, name="echo")


def aecho(x):
    """the same key-echo sampler bound to the ADEV sample primitive (adev_sample_p)"""
    from genjax.pjax import sample_binder, adev_sample_p
    return sample_binder(_echo, name="aecho", primitive=adev_sample_p, primitive_params={"adev_prim": None})(x)


# a persistent sampler object called with different keyword parameterisations
def _kwecho(key, a=None, b=None, sample_shape=()):
    kd = jax.random.key_data(key).astype(jnp.uint32)
    tag = jnp.uint32(1) * (jnp.asarray(0.0 if a is None else a) * 10).astype(jnp.uint32) \
        + jnp.uint32(1000) * (jnp.asarray(0.0 if b is None else b) * 10).astype(jnp.uint32)
    return jnp.concatenate([kd, tag[None]])


kwecho = pjax.sample_binder(_kwecho, name="kwecho")
ZK = jnp.zeros((2,), dtype=jnp.uint32)

# ---- program generator -------------------------------------------------------


def gen_block(rng, depth, straight=False, maxlen=3):
    n = rng.randint(1, maxlen)
    out = []
    for _ in range(n):
        r = rng.random()
        if straight or depth <= 0 or r < 0.5:
            out.append((["sample"] if rng.random() < 0.7 else ["asample"]) if rng.random() < 0.7 else ["det"])
        elif r < 0.7:
            out.append(["cond", gen_block(rng, 0, True, 2), gen_block(rng, 0, True, 2)])
        elif r < 0.92:
            out.append(["scan", rng.choice([0, 1, 2, 3]), gen_block(rng, depth - 1, False, 2)])
        else:
            out.append(["det"])
    return out


def nsites_straight(block):
    return sum(1 for s in block if s[0] in ("sample", "asample"))


def count_conds(block):
    """number of cond choices consumed by one execution of the block"""
    n = 0
    for s in block:
        if s[0] == "cond":
            n += 1
        elif s[0] == "scan":
            n += s[1] * count_conds(s[2])
    return n


# ---- AST -> JAX function -----------------------------------------------------
# state threaded: (x, ci) ; cs passed as an array argument


def block_fn(block):
    def f(x, ci, cs):
        outs = []
        for s in block:
            t = s[0]
            if t in ("sample", "asample"):
                outs.append(echo(x) if t == "sample" else aecho(x))
                x = x + 1.0
            elif t == "det":
                x = x * 2.0 + 1.0
            elif t == "cond":
                n0, n1 = nsites_straight(s[1]), nsites_straight(s[2])
                m = max(n0, n1)

                def mk(b, nb):
                    fb = block_fn(b)

                    def g(x):
                        x2, _, o = fb(x, 0, cs)
                        o = list(o) + [ZK] * (m - nb)
                        return x2, tuple(o)
                    return g
                pred = cs[ci]
                x, o = jax.lax.cond(pred, mk(s[2], n1), mk(s[1], n0), x)
                ci = ci + 1
                outs.append(o)
            elif t == "scan":
                fb = block_fn(s[2])

                def body(carry, _):
                    xx, cc = carry
                    x2, c2, o = fb(xx, cc, cs)
                    return (x2, c2), o
                (x, ci), o = jax.lax.scan(body, (x, ci), jnp.arange(s[1]))
                outs.append(o)
            elif t == "other":
                kind, inner = s[1], block_fn(s[2])
                if kind == "jit":
                    x = jax.jit(lambda v: inner(v, 0, cs)[0])(x)
                elif kind == "while":
                    x = jax.lax.while_loop(lambda c: c[0] < 2, lambda c: (c[0] + 1, inner(c[1], 0, cs)[0]), (0, x))[1]
                else:
                    x = jax.lax.fori_loop(0, 2, lambda i, v: inner(v, 0, cs)[0], x)
            elif t == "grad":
                inner = block_fn(s[1])
                x = x + jax.grad(lambda v: inner(v, 0, cs)[0])(x)
        return x, ci, tuple(outs)
    return f


def flatten_outs(block, outs, cs, ci):
    """site outputs in execution order (list of uint32[2]); returns (list, ci)"""
    res = []
    it = iter(outs)
    for s in block:
        t = s[0]
        if t in ("sample", "asample"):
            res.append(np.asarray(next(it)))
        elif t == "cond":
            o = next(it)
            c = cs[ci]
            ci += 1
            nb = nsites_straight(s[2] if c else s[1])
            res.extend(np.asarray(v) for v in o[:nb])
        elif t == "scan":
            o = next(it)
            for i in range(s[1]):
                oi = jax.tree_util.tree_map(lambda a: a[i], o)
                r, ci = flatten_outs(s[2], oi, cs, ci)
                res.extend(r)
    return res, ci


# ---- key data -> term --------------------------------------------------------


class TermTable:
    """key data -> term (list of child indices).  With JAX's partitionable threefry
    split(k)[i] == fold_in(k, i) (checked below), so one child function suffices."""

    def __init__(self, root, nchild=3, depth=11):
        k = jax.random.key(12345)
        sp = jax.random.key_data(jax.random.split(k))
        self.split_is_fold = all(
            bool((sp[i] == jax.random.key_data(jax.random.fold_in(k, i))).all()) for i in range(2))
        self.tab = {}
        keys = jnp.stack([root])
        terms = [[]]
        self._add(keys, terms)
        for _ in range(depth):
            newk, newt = [], []
            if not self.split_is_fold:
                sp = jax.vmap(jax.random.split)(keys)
                for j in range(2):
                    newk.append(sp[:, j])
                    newt += [t + [j] for t in terms]
            for i in range(nchild):
                newk.append(jax.vmap(lambda kk, i=i: jax.random.fold_in(kk, i))(keys))
                newt += [t + [i] for t in terms]
            keys = jnp.concatenate(newk)
            terms = newt
            self._add(keys, terms)

    def _add(self, keys, terms):
        kd = np.asarray(jax.random.key_data(keys))
        for row, t in zip(kd, terms):
            self.tab.setdefault((int(row[0]), int(row[1])), t)

    def lookup(self, kd):
        return self.tab.get((int(kd[0]), int(kd[1])))


def has_site(block):
    for s in block:
        if s[0] in ("sample", "asample"):
            return True
        if s[0] == "cond" and (has_site(s[1]) or has_site(s[2])):
            return True
        if s[0] in ("scan",) and has_site(s[2]):
            return True
        if s[0] == "other" and has_site(s[2]):
            return True
        if s[0] == "grad" and has_site(s[1]):
            return True
    return False


def main():
    out, sd, n = sys.argv[1], int(sys.argv[2]), int(sys.argv[3])
    rng = random.Random(sd)
    root = jax.random.key(rng.randrange(10 ** 6))
    table = TermTable(root)
    root2 = jax.random.key(rng.randrange(10 ** 6) + 7)
    cases = []
    for it in range(n):
        block = gen_block(rng, 2)
        ncs = count_conds(block)
        cs = [rng.random() < 0.5 for _ in range(ncs)]
        cs_arr = jnp.asarray(cs + [False], dtype=jnp.bool_)
        f = block_fn(block)

        def prog(x):
            return f(x, 0, cs_arr)
        c = {"kind": "seed", "block": block, "cs": cs, "runs": [], "modes": []}
        try:
            modes = ["eager", "noise", "eager", "jit", "noise2", "eager", "vmapkeys"]
            for m in modes:
                if m == "noise":
                    # unseeded sampling and an unrelated seeded run in between (moves the global counter / caches)
                    for _ in range(rng.randint(1, 3)):
                        echo(jnp.float32(0.0))
                    seed(lambda: echo(jnp.float32(1.0)))(root2)
                    continue
                if m == "noise2":
                    pjax.global_counter.count += rng.randint(1, 50)
                    seed(prog)(root2, jnp.float32(3.0))
                    continue
                if m == "eager":
                    _, _, o = seed(prog)(root, jnp.float32(0.5))
                elif m == "jit":
                    _, _, o = jax.jit(seed(prog))(root, jnp.float32(0.5))
                else:
                    ks = jnp.stack([root2, root])
                    _, _, ob = jax.vmap(seed(prog), in_axes=(0, None))(ks, jnp.float32(0.5))
                    o = jax.tree_util.tree_map(lambda a: a[1], ob)
                flat, _ = flatten_outs(block, o, cs, 0)
                terms = [table.lookup(kd) for kd in flat]
                c["runs"].append(terms)
                c["modes"].append(m)
        except Exception as e:  # noqa: BLE001
            c["err"] = type(e).__name__ + ": " + str(e)[:200]
        cases.append(c)
    # ---- persistent sampler with keyword parameterisations across staging-cache states (C06) ----
    for it in range(max(3, n // 8)):
        av, bv = rng.randint(1, 9) / 10.0, rng.randint(1, 9) / 10.0
        c = {"kind": "seed", "block": [["sample"]], "cs": [], "runs": [], "modes": [], "kw": True}
        try:
            fa = lambda v: kwecho(a=v)  # noqa: E731
            fb = lambda v: kwecho(b=v)  # noqa: E731
            outs = []
            outs.append(np.asarray(seed(fa)(root, jnp.float32(av))))
            seed(lambda v: kwecho(v))(root2, jnp.float32(av))
            outs.append(np.asarray(seed(fb)(root, jnp.float32(bv))))
            kwecho(b=jnp.float32(bv))
            jax.clear_caches()
            outs.append(np.asarray(seed(lambda v: kwecho(a=v))(root, jnp.float32(av))))
            outs.append(np.asarray(jax.jit(seed(lambda v: kwecho(b=v)))(root, jnp.float32(bv))))
            want_tags = [int(av * 10), 1000 * int(bv * 10), int(av * 10), 1000 * int(bv * 10)]
            for o, w in zip(outs, want_tags):
                t = table.lookup(o[:2])
                # a wrong parameter binding is reported as an underivable key
                c["runs"].append([t if int(o[2]) == w else None])
                c["modes"].append("kw")
        except Exception as e:  # noqa: BLE001
            c["err"] = type(e).__name__ + ": " + str(e)[:200]
        cases.append(c)
    # ---- persistent sampler object called with parameters of different shapes (C06) ----
    def _echo_shape(key, x, sample_shape=()):
        kd = jax.random.key_data(key).astype(jnp.uint32)
        return jnp.broadcast_to(kd, tuple(sample_shape) + jnp.shape(x) + kd.shape)
    for it in range(2):
        pecho = pjax.sample_binder(_echo_shape, name="pecho")
        shapes = [(), (3,), (), (2, 2), (3,)] if it == 0 else [(2,), (), (2,), (4,)]
        c = {"kind": "seed", "block": [["sample"]], "cs": [], "runs": [], "modes": [], "shapes": [list(x) for x in shapes]}
        try:
            for sh in shapes:
                o = np.asarray(seed(lambda v: pecho(v))(root, jnp.zeros(sh, dtype=jnp.float32)))
                flat = o.reshape(-1, 2)
                ok = o.shape == tuple(sh) + (2,) and all((r == flat[0]).all() for r in flat)
                c["runs"].append([table.lookup(flat[0]) if ok else None])
                c["modes"].append("shape" + str(list(sh)))
        except Exception as e:  # noqa: BLE001
            c["err"] = type(e).__name__ + ": " + str(e)[:200]
        cases.append(c)
    # ---- a sampler that closes over an array constant, under seed (eager, jit, vmap over keys) (C06) ----
    cconst = jnp.asarray([1, 2, 3], dtype=jnp.uint32)

    def _cecho(key, x, sample_shape=()):
        kd = jax.random.key_data(key).astype(jnp.uint32)
        return jnp.concatenate([kd, jnp.sum(cconst)[None]])
    cecho = wrap_sampler(_cecho, name="cecho")
    c = {"kind": "seed", "block": [["sample"], ["sample"]], "cs": [], "runs": [], "modes": [], "closure": True}
    try:
        cprog = lambda v: (cecho(v), cecho(v + 1.0))  # noqa: E731
        for m in ("eager", "jit", "eager", "vmapkeys"):
            if m == "eager":
                o = seed(cprog)(root, jnp.float32(0.5))
            elif m == "jit":
                o = jax.jit(seed(cprog))(root, jnp.float32(0.5))
            else:
                o = jax.tree_util.tree_map(lambda a: a[1], jax.vmap(seed(cprog), in_axes=(0, None))(jnp.stack([root2, root]), jnp.float32(0.5)))
            c["runs"].append([table.lookup(np.asarray(a)[:2]) if int(np.asarray(a)[2]) == 6 else None for a in o])
            c["modes"].append(m)
    except Exception as e:  # noqa: BLE001
        c["err"] = type(e).__name__ + ": " + str(e)[:200]
    cases.append(c)
    # ---- vectorised calls whose site parameters are not batched, re-vectorised across staging-cache states (C06) ----
    from genjax import modular_vmap as mv

    def _echo_like(key, x, sample_shape=()):
        # key echo with the parameter's batch shape (one row per lane when the parameter is batched)
        kd = jax.random.key_data(key).astype(jnp.uint32)
        return jnp.broadcast_to(kd, tuple(sample_shape) + jnp.shape(x) + kd.shape)
    echo_like = wrap_sampler(_echo_like, name="echo_like")

    # distinct function objects (the staging cache is keyed by the callee): the site's parameter passed
    # positionally, or by keyword (the batching rule's keyword branch)
    def vlane_pos(shift):
        return echo(shift)

    def vlane_kw(shift):
        return echo(x=shift)

    def vlane2_pos(shift, w):
        return echo(shift), echo_like(w)

    def vlane2_kw(shift, w):
        return echo(x=shift), echo_like(x=w)

    def mkprog(nl, two, kws):
        vlane, vlane2 = (vlane_kw, vlane2_kw) if kws else (vlane_pos, vlane2_pos)
        if two:
            def prog(x, w):
                a, b = mv(vlane2, in_axes=(None, 0), axis_size=nl)(x, w)
                return a, b
        else:
            def prog(x):
                return (mv(vlane, in_axes=(None,), axis_size=nl)(x),)
        return prog

    for it in range(max(4, n // 6)):
        nl = rng.choice([2, 3, 4])
        two = it % 2 == 1
        kws = it % 4 >= 2
        vlane, vlane2 = (vlane_kw, vlane2_kw) if kws else (vlane_pos, vlane2_pos)
        xv = jnp.float32(rng.randint(1, 9) / 10.0)
        wv = jnp.arange(nl, dtype=jnp.float32)
        extra = (wv,) if two else ()
        nsite = 2 if two else 1
        c = {"kind": "seed", "block": [["sample"]] * nsite, "cs": [], "runs": [], "modes": [], "vec": nl, "kwsite": kws}
        try:
            prog = mkprog(nl, two, kws)

            def census(o):
                # every lane of a site vectorised by axis_size reports the site key: shape (lanes, 2), rows equal
                terms = []
                for a in o:
                    a = np.asarray(a)
                    ok = a.shape == (nl, 2) and all((a[i] == a[0]).all() for i in range(nl))
                    terms.append(table.lookup(a[0]) if ok else None)
                return terms
            order = ["eager", "noise", "eager", "kw", "redef", "jit", "noise", "vmapkeys", "eager"]
            for m in order:
                if m == "noise":
                    # unseeded and seeded vectorisations of the same lane function in between
                    mv(vlane, in_axes=(None,), axis_size=nl)(jnp.float32(1.25))
                    mv(vlane2, in_axes=(None, 0), axis_size=nl)(jnp.float32(1.25), wv)
                    seed(lambda a: mv(vlane, in_axes=(None,), axis_size=nl)(a) + echo(a))(root2, jnp.float32(2.0))
                    continue
                if m == "eager":
                    o = seed(prog)(root, xv, *extra)
                elif m == "kw":
                    o = seed(prog)(root, x=xv, **({"w": wv} if two else {}))
                elif m == "redef":
                    o = seed(mkprog(nl, two, kws))(root, xv, *extra)
                elif m == "jit":
                    o = jax.jit(seed(mkprog(nl, two, kws)))(root, xv, *extra)
                else:
                    ks = jnp.stack([root2, root])
                    ob = jax.vmap(seed(prog), in_axes=(0,) + (None,) * (1 + len(extra)))(ks, xv, *extra)
                    o = jax.tree_util.tree_map(lambda a: a[1], ob)
                c["runs"].append(census(o))
                c["modes"].append(m)
        except Exception as e:  # noqa: BLE001
            c["err"] = type(e).__name__ + ": " + str(e)[:200]
        cases.append(c)
    # ---- lowering cases (C14) ----
    kinds = ["jit", "scan", "while", "fori", "cond", "nested_jit", "grad", "value_and_grad", "vmap",
             "seed_while", "seed_jit", "seed_fori", "seed_ok", "seed_scan_while", "jit_det",
             "jit_adev", "seed_ok_adev", "seed_scan_adev", "seed_remat", "seed_custom_jvp", "seed_custom_vjp", "seed_remat_jit",
             "seed_remat_remat", "seed_remat_custom_jvp", "seed_custom_jvp_remat",
             "seed_grad", "jit_grad_of_seed", "scan_grad", "jit_jvp"]
    from genjax import modular_vmap
    for it in range(5 * len(kinds)):
        k = kinds[it % len(kinds)]
        rnd = it // len(kinds)
        depth = 1 + rnd % 2
        # site variants: a plain site, a site with its own sample_shape, a site vectorised by axis_size
        # (which the batching rule re-creates with a sample_shape); rounds 0/1 plain, 2 shaped, 3 vectorised
        variant = "plain" if rnd < 2 or k.endswith("adev") else ("shaped" if rnd == 2 else "vectorised" if rnd == 3 else "vectorised-kw")
        ech = aecho if k.endswith("adev") else echo
        if variant == "plain":
            site = lambda v: ech(v)[0].astype(jnp.float32) * 0.0 + v + 1.0  # noqa: E731
        elif variant == "shaped":
            site = lambda v: echo(v, sample_shape=(2,))[0][0].astype(jnp.float32) * 0.0 + v + 1.0  # noqa: E731
        elif variant == "vectorised":
            site = lambda v: modular_vmap(lambda: echo(v), axis_size=2)()[0][0].astype(jnp.float32) * 0.0 + v + 1.0  # noqa: E731
        else:
            # the site's parameter passed by keyword: the batching rule's keyword branch re-creates the site
            site = lambda v: modular_vmap(lambda: echo(x=v), axis_size=2)()[0][0].astype(jnp.float32) * 0.0 + v + 1.0  # noqa: E731
        c = {"kind": "lower", "ctx": k, "depth": depth, "variant": variant}

        def wrap(fn, d):
            for _ in range(d - 1):
                inner = fn
                fn = lambda v, inner=inner: jax.lax.scan(lambda cc, _: (inner(cc), None), v, jnp.arange(2))[0]  # noqa: E731
            return fn
        body = wrap(site, depth)
        try:
            if k == "jit":
                jax.jit(body)(0.5)
            elif k == "jit_det":
                jax.jit(lambda v: v * 2.0)(0.5)
            elif k == "scan":
                jax.lax.scan(lambda cc, _: (body(cc), None), 0.5, jnp.arange(2))
            elif k == "while":
                jax.lax.while_loop(lambda cc: cc < 3.0, body, 0.5)
            elif k == "fori":
                jax.lax.fori_loop(0, 2, lambda i, cc: body(cc), 0.5)
            elif k == "cond":
                jax.lax.cond(jnp.asarray(True), body, lambda v: v, 0.5)
            elif k == "nested_jit":
                jax.jit(lambda v: jax.jit(body)(v) + 1.0)(0.5)
            elif k == "grad":
                jax.jit(jax.grad(body))(0.5)
            elif k == "value_and_grad":
                jax.jit(jax.value_and_grad(body))(0.5)
            elif k == "vmap":
                jax.vmap(body)(jnp.zeros(3))
            elif k == "seed_while":
                seed(lambda v: jax.lax.while_loop(lambda cc: cc < 3.0, body, v))(root, 0.5)
            elif k == "seed_jit":
                seed(lambda v: jax.jit(body)(v))(root, 0.5)
            elif k == "seed_fori":
                seed(lambda v: jax.lax.fori_loop(0, 2, lambda i, cc: body(cc), v))(root, 0.5)
            elif k == "seed_scan_while":
                seed(lambda v: jax.lax.scan(lambda cc, _: (jax.lax.while_loop(lambda q: q < 1.0, body, cc), None), v, jnp.arange(2))[0])(root, 0.5)
            elif k == "seed_remat":
                seed(lambda v: jax.checkpoint(body)(v))(root, 0.5)
            elif k == "seed_remat_jit":
                jax.jit(seed(lambda v: jax.checkpoint(body)(v)))(root, 0.5)
            elif k == "seed_grad":
                seed(jax.grad(body))(root, 0.5)
            elif k == "jit_grad_of_seed":
                jax.jit(jax.grad(lambda v: seed(body)(root, v)))(0.5)
            elif k == "scan_grad":
                jax.lax.scan(lambda cc, _: (jax.grad(body)(cc), None), 0.5, jnp.arange(2))
            elif k == "jit_jvp":
                jax.jit(lambda v: jax.jvp(body, (v,), (1.0,))[1])(0.5)
            elif k == "seed_remat_remat":
                seed(lambda v: jax.checkpoint(lambda w: jax.checkpoint(body)(w * 1.0))(v))(root, 0.5)
            elif k == "seed_remat_custom_jvp":
                cj2 = jax.custom_jvp(lambda v: body(v))
                cj2.defjvp(lambda p, t: (cj2(p[0]), t[0]))
                seed(lambda v: jax.checkpoint(lambda w: cj2(w * 2.0))(v))(root, 0.5)
            elif k == "seed_custom_jvp_remat":
                cj3 = jax.custom_jvp(lambda v: jax.checkpoint(body)(v))
                cj3.defjvp(lambda p, t: (cj3(p[0]), t[0]))
                seed(lambda v: cj3(v))(root, 0.5)
            elif k == "seed_custom_jvp":
                cj = jax.custom_jvp(lambda v: body(v))      # (custom_* resolve default arguments: wrap)
                cj.defjvp(lambda p, t: (cj(p[0]), t[0]))
                seed(lambda v: cj(v))(root, 0.5)
            elif k == "seed_custom_vjp":
                cv = jax.custom_vjp(lambda v: body(v))
                cv.defvjp(lambda v: (cv(v), None), lambda r, g: (g,))
                seed(lambda v: cv(v))(root, 0.5)
            elif k == "seed_ok" or k == "seed_ok_adev":
                jax.jit(seed(body))(root, 0.5)
            elif k == "jit_adev":
                jax.jit(body)(0.5)
            elif k == "seed_scan_adev":
                jax.jit(seed(lambda v: jax.lax.scan(lambda cc, _: (body(cc), None), v, jnp.arange(2))[0]))(root, 0.5)
            c["raised"] = "none"
        except LowerErr:
            c["raised"] = "lowering"
        except NotImplementedError:
            c["raised"] = "notimplemented"
        except Exception as e:  # noqa: BLE001
            c["raised"] = "other:" + type(e).__name__ + ": " + str(e)[:120]
        cases.append(c)
    json.dump(cases, open(out, "w"))


if __name__ == "__main__":
    main()
