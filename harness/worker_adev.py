"""C11 / C15 cases.
C11: expectation programs of flip sites (enumeration / REINFORCE / measure-valued / parallel enumeration)
     with scripted site outcomes; per-outcome (primal, tangent) compared with the model, their
     probability-weighted mean with the exact dual expectation.
C15: deterministic JAX programs: jvp_estimate / grad_estimate / estimate vs jax.jvp / jax.grad / f.
usage: worker_adev.py OUT.json SEED N WHICH(c11|c15)"""
from __future__ import annotations

import itertools
import json
import random
import sys
import types
from fractions import Fraction

import jax
import jax.numpy as jnp
import numpy as np

import genjax.adev as adev
from genjax import Dual, expectation, flip, flip_enum, flip_enum_parallel, flip_mvd, modular_vmap, seed
from genjax.core import distribution


def fr(x):
    f = Fraction(float(x))
    return [f.numerator, f.denominator]


# ---------------------------------------------------------------- C11


def gen_prog(rng):
    """sites in program order; site i: estimator, probability a + b*theta possibly depending on the previous bit;
    leaf value: c0 + c1*theta + sum_i w_i * bit_i + cross term"""
    n = rng.choice([1, 2, 2, 3])
    sites = []
    for i in range(n):
        est = rng.choice(["enum", "reinforce", "enum", "reinforce", "penum"]) if i < n - 1 else \
            rng.choice(["enum", "reinforce", "mvd", "mvd", "penum"])
        if any(t["est"] == "penum" for t in sites):
            # a parallel-enumeration site runs its continuation vectorized: later sampled sites would draw
            # once per lane, which a trace-time script cannot control
            est = rng.choice(["enum", "penum"])
        pa = rng.choice([0.25, 0.5])
        pb = rng.choice([-0.5, 0.25, 0.5, 1.0])
        dep = rng.choice([0.0, 0.0, 0.25]) if i > 0 else 0.0     # shift when the previous bit is true
        if pa + max(pb, 0.0) * 0.25 + dep >= 1.0:
            dep = 0.0        # keep every site probability inside the open domain (0,1) for theta in [0,1]
        # the site may sit inside a lax.cond branch taken when the previous outcome is True (otherwise its
        # value is False): everything after the cond is then part of the site's continuation
        sites.append({"est": est, "a": pa, "b": pb, "dep": dep, "incond": False})
    # lax.cond traces both branches, so a scripted (sampled) site inside or after a cond would consume scripted
    # outcomes at trace time: only enumeration sites, with only enumeration sites after them, are put in a branch
    for i in range(1, n):
        if all(t["est"] == "enum" for t in sites[i:]) and not any(t["est"] == "penum" for t in sites[:i]) and rng.random() < 0.5:
            sites[i]["incond"] = True
    leaf = {"c0": rng.choice([0.0, 1.0, -2.0]), "c1": rng.choice([0.0, 1.0, 2.0]),
            "w": [rng.choice([1.0, -1.0, 3.0]) for _ in range(n)],
            "wt": [rng.choice([0.0, 1.0, 2.0]) for _ in range(n)],       # bit_i * theta terms
            "x": rng.choice([0.0, 2.0]) if n >= 2 else 0.0}               # bit_0 * bit_1 cross term
    prog = {"sites": sites, "leaf": leaf}
    if n >= 2 and rng.random() < 0.2:
        # two nested parallel enumerations followed by a sampled (score-function) site whose location follows the
        # OUTER outcome only and whose scale is negligible: the site is vectorised twice (once with unbatched,
        # once with batched parameters), and each lane's value must come from that lane's parameters
        for t in sites[:2]:
            t["est"], t["incond"] = "penum", False
        for t in sites[2:]:
            t["est"], t["incond"] = rng.choice(["enum", "penum"]), False
        prog["tail"] = {"m0": rng.choice([-3.0, 0.0, 1.0]), "m1": rng.choice([2.0, 5.0]), "sigma": 1e-6}
    return prog


def build(prog, script, used=None):
    pos = [0]

    def scripted(p):
        # forced prefix, then True; every consumed outcome is recorded
        b = script[pos[0]] if pos[0] < len(script) else True
        pos[0] += 1
        if used is not None:
            used.append(b)
        return jnp.asarray(b)
    my_reinforce = distribution(adev.reinforce(scripted, flip.logpdf, adev._bernoulli_keyful_sample), flip.logpdf)

    @expectation
    def f(theta):
        bits = []
        for i, s in enumerate(prog["sites"]):
            p = s["a"] + s["b"] * theta * 0.25
            if s["dep"] and bits:
                p = p + jnp.where(bits[-1], s["dep"], 0.0)
            draw = {"enum": flip_enum, "penum": flip_enum_parallel, "reinforce": my_reinforce, "mvd": flip_mvd}[s["est"]]
            if s.get("incond") and bits:
                b = jax.lax.cond(bits[-1], lambda p=p, draw=draw: draw(p), lambda: jnp.asarray(False))
            else:
                b = draw(p)
            bits.append(b)
        lf = prog["leaf"]
        v = lf["c0"] + lf["c1"] * theta
        for b, w, wt in zip(bits, lf["w"], lf["wt"]):
            v = v + jnp.where(b, w + wt * theta, 0.0)
        if lf["x"] and len(bits) >= 2:
            v = v + jnp.where(jnp.logical_and(bits[0], bits[1]), lf["x"], 0.0)
        if prog.get("tail"):
            tl = prog["tail"]
            v = v + adev.normal_reinforce(jnp.where(bits[0], tl["m1"], tl["m0"]), tl["sigma"])
        return v
    return f, scripted


def c11_case(rng):
    prog = gen_prog(rng)
    theta = rng.choice([0.0, 0.5, 1.0])
    nscript = sum(1 for s in prog["sites"] if s["est"] in ("reinforce", "mvd"))
    c = {"kind": "adev", "prog": prog, "theta": theta, "runs": []}
    saved = adev.flip
    try:
        # enumerate the decision tree of scripted outcomes (an enumeration site runs its
        # continuation twice, so the number of outcomes consumed varies along a run)
        todo, seen = [[]], set()
        while todo and len(c["runs"]) < 64:
            prefix = todo.pop()
            used = []
            f, scripted = build(prog, prefix, used)
            adev.flip = types.SimpleNamespace(sample=scripted, logpdf=saved.logpdf)
            d = f.jvp_estimate(Dual(jnp.float32(theta), jnp.float32(1.0)))
            key = tuple(used)
            if key in seen:
                continue
            seen.add(key)
            c["runs"].append({"bits": list(used), "p": fr(d.primal), "t": fr(d.tangent)})
            for i in range(len(prefix), len(used)):
                todo.append(list(used[:i]) + [False])
        adev.flip = saved
        nscript = max(len(r["bits"]) for r in c["runs"])
        if nscript == 0:
            # enumeration only: also under jit(seed(...)), via grad_estimate and estimate
            f, _ = build(prog, [])
            d2 = jax.jit(seed(lambda t: f.jvp_estimate(Dual(t, jnp.float32(1.0)))))(jax.random.key(1), jnp.float32(theta))
            g = f.grad_estimate(jnp.float32(theta))
            e = f.estimate(jnp.float32(theta))
            r0 = c["runs"][0]
            same = lambda a, b: abs(float(a) - b[0] / b[1]) < 1e-5  # noqa: E731
            c["modes_ok"] = bool(same(d2.primal, r0["p"]) and same(d2.tangent, r0["t"]) and same(g, r0["t"]) and same(e, r0["p"]))
    except Exception as e:  # noqa: BLE001
        c["err"] = type(e).__name__ + ": " + str(e)[:200]
    finally:
        adev.flip = saved
    return c


def reparam_case(rng):
    """a (possibly batched) normal_reparam / uniform_reparam site with scripted noise"""
    from genjax import normal_reparam, uniform_reparam
    uni = rng.random() < 0.3
    L = rng.choice([1, 2, 3])
    theta = rng.choice([0.0, 0.5, 1.0])
    mu_vec = rng.random() < 0.5 and L > 1
    sg_vec = rng.random() < 0.6 and L > 1
    if not (mu_vec or sg_vec):
        Leff = 1
    else:
        Leff = L
    ma = [rng.choice([-1.0, 0.0, 0.5, 2.0]) for _ in range(Leff if mu_vec else 1)]
    mb = [rng.choice([0.0, 1.0, -0.5]) for _ in range(Leff if mu_vec else 1)]
    sa = [rng.choice([0.5, 1.0, 2.0]) + (3.0 if uni else 0.0) for _ in range(Leff if sg_vec else 1)]
    sb = [rng.choice([0.0, 0.5, 1.0]) for _ in range(Leff if sg_vec else 1)]
    eps = [rng.choice([-1.5, -0.5, 0.25, 0.5, 1.0, 2.0]) if not uni else rng.choice([0.125, 0.25, 0.5, 0.75])
           for _ in range(Leff)]
    ws = [rng.choice([1.0, -2.0, 0.5]) for _ in range(Leff)]
    # variants: the plain site; normal_reparam vectorised by axis_size (so that it carries a sample_shape); the diagonal
    # multivariate primitive (vector location and scale)
    variant = "site"
    if not uni and Leff == 1 and rng.random() < 0.5:
        variant, Leff = "shaped", rng.choice([2, 3])
        eps = [rng.choice([-1.5, -0.5, 0.25, 0.5, 1.0, 2.0]) for _ in range(Leff)]
        ws = [rng.choice([1.0, -2.0, 0.5]) for _ in range(Leff)]
    elif not uni and mu_vec and sg_vec and rng.random() < 0.5:
        variant = "mvdiag"
    c = {"kind": "reparam", "uniform": uni, "theta": theta, "L": Leff, "ma": ma, "mb": mb, "sa": sa, "sb": sb,
         "eps": eps, "ws": ws, "mu_vec": mu_vec, "sg_vec": sg_vec, "variant": variant}
    saved = (adev.normal, adev.uniform)

    def scripted(a, b):
        shape = jnp.broadcast_shapes(jnp.shape(a), jnp.shape(b))
        cnt = int(np.prod(shape)) if shape else 1
        return jnp.asarray(eps[:cnt], dtype=jnp.float32).reshape(shape)
    try:
        adev.normal = types.SimpleNamespace(sample=scripted, logpdf=saved[0].logpdf)
        adev.uniform = types.SimpleNamespace(sample=scripted, logpdf=saved[1].logpdf)
        site = uniform_reparam if uni else normal_reparam

        @expectation
        def f(t):
            mu = jnp.asarray(ma) + jnp.asarray(mb) * t if mu_vec else ma[0] + mb[0] * t
            sg = jnp.asarray(sa) + jnp.asarray(sb) * t if sg_vec else sa[0] + sb[0] * t
            if variant == "shaped":
                # a site vectorised by axis_size: the batching rule re-creates it with sample_shape=(L,)
                x = modular_vmap(lambda: site(mu, sg), axis_size=Leff)()
            elif variant == "mvdiag":
                x = adev.multivariate_normal_diag_reparam(mu, sg)
            else:
                x = site(mu, sg)
            x = jnp.reshape(x, (-1,))
            return jnp.sum(jnp.asarray(ws) * x) + x[0] * x[-1]
        d = f.jvp_estimate(Dual(jnp.float32(theta), jnp.float32(1.0)))
        c["p"], c["t"] = fr(d.primal), fr(d.tangent)
    except Exception as e:  # noqa: BLE001
        c["err"] = type(e).__name__ + ": " + str(e)[:200]
    finally:
        adev.normal, adev.uniform = saved
    return c


def catenum_case(rng):
    """categorical_enum_parallel: logits = log(a_i + b_i theta) (so the masses are rational in theta), value
    table c_i + d_i theta, optionally followed by a flip_enum site: exact value and derivative"""
    from genjax import categorical_enum_parallel
    K = rng.choice([2, 3, 4])
    theta = rng.choice([0.0, 0.5, 1.0])
    a = [rng.choice([0.5, 1.0, 2.0]) for _ in range(K)]
    b = [rng.choice([0.0, 0.5, 1.0]) for _ in range(K)]
    cc = [rng.choice([-1.0, 0.0, 2.0, 3.0]) for _ in range(K)]
    d = [rng.choice([0.0, 1.0, -2.0]) for _ in range(K)]
    with_flip = rng.random() < 0.4
    pa, pb, fw = rng.choice([0.25, 0.5]), rng.choice([0.0, 0.125, 0.25]), rng.choice([1.0, -3.0])
    c = {"kind": "catenum", "K": K, "theta": theta, "a": a, "b": b, "c": cc, "d": d, "with_flip": with_flip,
         "pa": pa, "pb": pb, "fw": fw}
    try:
        @expectation
        def f(t):
            logits = jnp.log(jnp.asarray(a) + jnp.asarray(b) * t)
            i = categorical_enum_parallel(logits)
            v = jnp.asarray(cc)[i] + jnp.asarray(d)[i] * t
            if with_flip:
                z = flip_enum(pa + pb * t)
                v = v + jnp.where(z, fw * (1.0 + t), 0.0)
            return v
        dd = f.jvp_estimate(Dual(jnp.float32(theta), jnp.float32(1.0)))
        c["p"], c["t"] = fr(dd.primal), fr(dd.tangent)
        c["est"] = fr(f.estimate(jnp.float32(theta)))
        c["grad"] = fr(f.grad_estimate(jnp.float32(theta)))
    except Exception as e:  # noqa: BLE001
        c["err"] = type(e).__name__ + ": " + str(e)[:200]
    return c


def mvdvec_case(rng):
    """a batched flip_mvd site (vector of probabilities): the lane-wise measure-valued estimator, per scripted
    outcome vector; the harness tabulates f on all outcome vectors (value and d/dtheta) from the same formula"""
    L = rng.choice([2, 2, 3])
    theta = rng.choice([0.0, 0.5, 1.0])
    pa = [rng.choice([0.25, 0.5]) for _ in range(L)]
    pb = [rng.choice([-0.5, 0.25, 0.5, 1.0]) for _ in range(L)]
    w = [rng.choice([1.0, -1.0, 3.0]) for _ in range(L)]
    wt = [rng.choice([0.0, 1.0, 2.0]) for _ in range(L)]
    c0, c1, x = rng.choice([0.0, 1.0, -2.0]), rng.choice([0.0, 1.0, 2.0]), rng.choice([0.0, 2.0])
    c = {"kind": "mvdvec", "L": L, "theta": theta, "pa": pa, "pb": pb, "runs": []}

    def fval(bits):
        v = c0 + c1 * theta + sum((w[i] + wt[i] * theta) for i in range(L) if bits[i]) + (x if bits[0] and bits[1] else 0.0)
        dv = c1 + sum(wt[i] for i in range(L) if bits[i])
        return [v, dv]
    outcomes = list(itertools.product([False, True], repeat=L))
    c["table"] = [[list(b), fval(b)] for b in outcomes]
    saved = adev.flip
    try:
        for b in outcomes:
            adev.flip = types.SimpleNamespace(sample=lambda p, b=b: jnp.asarray(b), logpdf=saved.logpdf)

            @expectation
            def f(t):
                p = jnp.asarray(pa) + jnp.asarray(pb) * t * 0.25
                bits = flip_mvd(p)
                v = c0 + c1 * t + jnp.sum(jnp.where(bits, jnp.asarray(w) + jnp.asarray(wt) * t, 0.0))
                return v + jnp.where(jnp.logical_and(bits[0], bits[1]), x, 0.0)
            d = f.jvp_estimate(Dual(jnp.float32(theta), jnp.float32(1.0)))
            c["runs"].append({"bits": list(b), "p": fr(d.primal), "t": fr(d.tangent)})
    except Exception as e:  # noqa: BLE001
        c["err"] = type(e).__name__ + ": " + str(e)[:200]
    finally:
        adev.flip = saved
    return c


def unseeded_repeat_case(rng):
    """eager, unseeded, repeated calls: the phantom branch of a measure-valued site followed by a sampled site
    must see fresh draws on every call (mean of 400 gradient estimates against the exact derivative, 5 sigma)"""
    from genjax import flip_reinforce
    a, b = rng.choice([0.2, 0.3]), rng.choice([0.2, 0.3])
    th = rng.choice([0.3, 0.4, 0.5])
    c = {"kind": "unseeded_repeat", "theta": th, "a": a, "b": b}
    try:
        @expectation
        def f(theta):
            x = flip_mvd(theta)
            y = flip_reinforce(a + b * theta)
            return jnp.where(x, 2.0, 0.0) * jnp.where(y, 3.0, 1.0) + theta
        exact = lambda t: t * 2.0 * (1.0 + 2.0 * (a + b * t)) + t   # noqa: E731
        d_exact = (exact(th + 1e-6) - exact(th - 1e-6)) / 2e-6
        gs = np.asarray([float(f.grad_estimate(jnp.float32(th))) for _ in range(400)], dtype=np.float64)
        se = float(gs.std() / np.sqrt(len(gs)))
        c["mean"], c["se"], c["exact"] = float(gs.mean()), se, float(d_exact)
        c["ok"] = bool(abs(gs.mean() - d_exact) <= 5.0 * se + 1e-9 and se > 0)
    except Exception as e:  # noqa: BLE001
        c["err"] = type(e).__name__ + ": " + str(e)[:200]
        c["ok"] = False
    return c


def consistency_case(rng, k=None):
    """seeded draws of a sampled ADEV primitive follow the density the primitive is scored with
    (needed for the score-function estimators to be unbiased under seed): goodness of fit of 3000
    draws against exp(logpdf of the same primitive) (discrete) or the documented family (continuous)"""
    import math
    import scipy.stats as st
    import genjax
    N = 3000
    # (the enumeration primitives are sampled too: by the pure continuation of an upstream measure-valued site)
    prims = ["flip_reinforce", "geometric_reinforce", "normal_reinforce", "uniform_reinforce",
             "normal_reparam", "uniform_reparam", "flip_mvd", "multivariate_normal_reinforce",
             "multivariate_normal_reparam", "multivariate_normal_diag_reparam",
             "flip_enum", "flip_enum_parallel", "categorical_enum_parallel"]
    which = rng.choice(prims) if k is None else prims[k % len(prims)]
    c = {"kind": "consistency", "prim": which}
    try:
        prim = getattr(genjax, which, None) or getattr(adev, which)
        if which.startswith("categorical"):
            args = (jnp.asarray(rng.choice([[0.0, 1.0, -1.0], [0.5, -0.5], [1.0, 1.0, 0.0, -2.0]]), dtype=jnp.float32),)
        elif which.startswith("flip"):
            args = (jnp.float32(rng.choice([0.125, 0.3, 0.75])),)
        elif which.startswith("geometric"):
            args = (jnp.float32(rng.choice([-1.0, 0.3, 1.5])),)
        elif which.startswith("normal"):
            args = (jnp.float32(rng.choice([-1.0, 0.5])), jnp.float32(rng.choice([0.5, 2.0])))
        elif which.startswith("uniform"):
            a = rng.choice([-1.0, 0.5])
            args = (jnp.float32(a), jnp.float32(a + rng.choice([0.5, 2.0])))
        elif which == "multivariate_normal_diag_reparam":
            args = (jnp.asarray([0.5, -1.0], dtype=jnp.float32), jnp.asarray([0.5, 2.0], dtype=jnp.float32))
        else:
            L = np.array([[rng.choice([0.5, 2.0]), 0.0], [rng.choice([-1.0, 1.5]), rng.choice([0.5, 1.0])]])
            args = (jnp.asarray([0.5, -1.0], dtype=jnp.float32), jnp.asarray(L @ L.T, dtype=jnp.float32))
        c["args"] = [np.asarray(a).tolist() for a in args]
        draw = prim.sample if hasattr(prim, "logpdf") else prim
        xs = np.asarray(seed(modular_vmap(lambda: draw(*args), axis_size=N))(jax.random.key(rng.randrange(10 ** 6))))
        if which.startswith("categorical"):
            lg = np.asarray(args[0], dtype=np.float64)
            pm = np.exp(lg) / np.exp(lg).sum()
            obs = np.array([(xs.astype(np.int64) == k).sum() for k in range(len(pm))], dtype=np.float64)
            stat = float(((obs - pm * N) ** 2 / (pm * N)).sum())
            pv = float(st.chi2.sf(stat, len(pm) - 1))
        elif which.startswith("flip") or which.startswith("geometric"):
            ks = list(range(0, 2 if which.startswith("flip") else 80))
            scorer = prim if hasattr(prim, "logpdf") else flip     # flip_mvd is a bare primitive of flip's law
            pm = np.array([math.exp(float(scorer.logpdf(jnp.asarray(bool(k)) if which.startswith("flip") else jnp.float32(k), *args))) for k in ks])
            obs = np.array([(xs.astype(np.float64) == k).sum() for k in ks], dtype=np.float64)
            keep = pm * N >= 5
            o = list(obs[keep]) + [N - obs[keep].sum()]
            e = list(pm[keep] * N) + [N - (pm[keep] * N).sum()]
            if e[-1] < 1e-6:
                o, e = o[:-1], e[:-1]
            stat = sum((a - b) ** 2 / b for a, b in zip(o, e))
            pv = float(st.chi2.sf(stat, max(1, len(o) - 1)))
        elif which.startswith("normal"):
            pv = float(st.kstest(xs.astype(np.float64), st.norm(float(args[0]), float(args[1])).cdf).pvalue)
        elif which.startswith("uniform"):
            pv = float(st.kstest(xs.astype(np.float64), st.uniform(float(args[0]), float(args[1] - args[0])).cdf).pvalue)
        else:
            cov = np.diag(np.asarray(args[1], dtype=np.float64) ** 2) if which.endswith("diag_reparam") else np.asarray(args[1], dtype=np.float64)
            z = np.linalg.solve(np.linalg.cholesky(cov), (xs.astype(np.float64) - np.asarray(args[0])).T).T
            corr = abs(np.mean(z[:, 0] * z[:, 1])) * math.sqrt(N)
            pv = min(st.kstest(z[:, 0], "norm").pvalue, st.kstest(z[:, 1], "norm").pvalue, 2 * st.norm.sf(corr))
        c["pvalue"] = float(pv)
        c["ok"] = bool(pv > 1e-6)
    except Exception as e:  # noqa: BLE001
        c["err"] = type(e).__name__ + ": " + str(e)[:200]
    return c


# ---------------------------------------------------------------- C15


def det_programs():
    A = jnp.asarray([[1.0, 2.0], [3.0, -1.0]])
    SPD = jnp.asarray([[3.0, 1.0], [1.0, 2.0]])
    return {
        "poly": (lambda x: x * x * 3.0 + 2.0 * x - 1.0, "s"),
        "trig": (lambda x: jnp.sin(x) * jnp.exp(x * 0.5), "s"),
        "vec_sum": (lambda x: jnp.sum(x * x) + x[0], "v"),
        "index_slice": (lambda x: x[1] * x[-1] + jnp.sum(x[1:]), "v"),
        "matvec": (lambda x: jnp.sum(A @ x[:2]) + jnp.dot(x[:2], x[:2]), "v"),
        "transpose": (lambda x: jnp.sum((jnp.outer(x, x).T)[0]), "v"),
        "int_intermediate": (lambda x: x * jnp.asarray(jnp.floor(x * 0.0) + 2.0, dtype=jnp.int32).astype(jnp.float32), "s"),
        "bool_where": (lambda x: jnp.where(x > 0.5, x * 2.0, x * x), "s"),
        "cast": (lambda x: (x.astype(jnp.float32) * 2.0).astype(jnp.float32) + 1.0, "s"),
        "cond_true": (lambda x: jax.lax.cond(x > -100.0, lambda v: v * 3.0, lambda v: v * v, x), "s"),
        "cond_false": (lambda x: jax.lax.cond(x > 100.0, lambda v: v * 3.0, lambda v: v * v, x), "s"),
        "max_reduce": (lambda x: jnp.max(x) * jnp.min(x), "v"),
        "pytree": (lambda t: t["a"] * t["b"][0] + jnp.sum(t["b"][1]), "t"),
        "arange_int": (lambda x: jnp.sum(x * jnp.arange(3)), "v3"),
        "const_only": (lambda x: x * 0.0 + 4.0, "s"),
        # complex-valued intermediates of a real function
        "complex_exp": (lambda x: jnp.real(jnp.exp(1j * x) * (x + 2j)), "s"),
        "complex_abs": (lambda x: jnp.abs(x * (1.0 + 2.0j) + 1j) ** 2, "s"),
        "fft_power": (lambda x: jnp.sum(jnp.abs(jnp.fft.fft(x * x + 1.0)) ** 2) + jnp.sum(jnp.imag(jnp.fft.fft(x))), "v"),
        # further primitive families
        "half_precision": (lambda x: (x.astype(jnp.float16) * 2.0).astype(jnp.float32) * x, "s"),
        "scan_loop": (lambda x: jax.lax.scan(lambda c, a: (c * x + a, c), x, jnp.arange(3.0))[0], "s"),
        "fori_loop": (lambda x: jax.lax.fori_loop(0, 3, lambda i, c: c * x + i, x), "s"),
        "inner_vmap": (lambda x: jnp.sum(jax.vmap(lambda a: a * a * x[0])(x)), "v"),
        "cumsum_sort": (lambda x: jnp.sum(jnp.cumsum(jnp.sort(x)) * x), "v"),
        "argmax_index": (lambda x: x[jnp.argmax(x)] * x[jnp.argmin(x)] + x[jnp.argmax(x)], "v"),
        # symmetric positive definite for every x (A + diag(x^2) itself is singular at x = (-1, 2))
        "linalg_solve": (lambda x: jnp.sum(jnp.linalg.solve(SPD + jnp.diag(x[:2] * x[:2]), x[:2])), "v"),
        "linalg_det_inv": (lambda x: jnp.linalg.det(A * x[0]) + jnp.sum(jnp.linalg.inv(A + jnp.eye(2) * (4.0 + x[1] * x[1]))), "v"),
        "concat_reshape": (lambda x: jnp.sum(jnp.concatenate([x, x * 2.0]).reshape(2, 3) @ x), "v"),
        "dynamic_slice": (lambda x: jnp.sum(jax.lax.dynamic_slice(x * x, (jnp.argmax(x) % 2,), (2,))), "v"),
        "clip_abs": (lambda x: jnp.sum(jnp.clip(x, -0.75, 1.0) * jnp.abs(x)), "v"),
        "int_div_mod": (lambda x: x * ((jnp.asarray(7, jnp.int32) // 2) % 3).astype(jnp.float32) + jnp.float32(jnp.int32(3) * 2), "s"),
        "nested_cond": (lambda x: jax.lax.cond(x > 0.5, lambda v: jax.lax.cond(v > 1.0, lambda u: u * u, lambda u: -u, v), lambda v: v * 3.0, x), "s"),
        "switch3": (lambda x: jax.lax.switch(jnp.int32(2), [lambda v: v, lambda v: v * v, lambda v: v * v * v], x), "s"),
        "relu_custom_jvp": (lambda x: jax.nn.relu(x) * x, "s"),
        "logsumexp": (lambda x: jax.nn.logsumexp(x * x), "v"),
        # a zero-derivative primitive applied to a value with a live tangent as the LAST operation of the
        # program / of a cond branch (its JVP rule returns a symbolic zero)
        "floor_last": (lambda x: jnp.floor(x * 3.0), "s"),
        "sign_last": (lambda x: jnp.sign(x * x - 1.0), "s"),
        "round_last": (lambda x: jnp.round(x * 2.5), "s"),
        "stop_gradient_last": (lambda x: jax.lax.stop_gradient(x * x), "s"),
        "compare_cast_last": (lambda x: (x * x > 1.0).astype(jnp.float32), "s"),
        "argmax_cast_last": (lambda x: jnp.argmax(x * x).astype(jnp.float32), "v"),
        "cond_floor_branch": (lambda x: jax.lax.cond(x > 0.5, lambda v: jnp.floor(v * 3.0), lambda v: v * v, x), "s"),
        "cond_sign_branch_then_use": (lambda x: jax.lax.cond(x > 0.5, lambda v: jnp.sign(v), lambda v: jnp.ceil(v), x) * x, "s"),
        # a cond / switch branch (or the whole program) that returns a nonzero constant: its tangent is zero
        "cond_const_branch_taken": (lambda x: jax.lax.cond(x > 100.0, lambda v: v * v, lambda v: 1.5, x) * jnp.sin(x), "s"),
        "cond_const_branch_tail": (lambda x: jax.lax.cond(x > 100.0, lambda v: v * 3.0, lambda v: -7.0, x), "s"),
        "cond_const_branch_not_taken": (lambda x: jax.lax.cond(x > -100.0, lambda v: v * v, lambda v: 1.5, x) * jnp.sin(x), "s"),
        "switch_const_branch": (lambda x: jax.lax.switch(jnp.int32(1), [lambda v: v * v, lambda v: 2.5, lambda v: v], x) + x, "s"),
        "const_function": (lambda x: jnp.asarray(3.0), "s"),
        # primitives with several results (their JVP rules return tuples / lists)
        "sort_key_val": (lambda x: jnp.sum(jax.lax.sort_key_val(jnp.stack([x, x * x, -x]), jnp.stack([x, 2.0 * x, 3.0 * x]))[1] * jnp.arange(3.0)), "s"),
        "top_k": (lambda x: jnp.sum(jax.lax.top_k(jnp.stack([x, x * x, -x]), 2)[0] * jnp.asarray([1.0, 3.0])), "s"),
        "qr": (lambda x: jnp.sum(jnp.linalg.qr(jnp.asarray([[1.0, 2.0], [3.0, 4.0]]) * (2.0 + x * x))[1]), "s"),
        # cond / switch / scan returning several values
        "cond_two_outputs": (lambda x: (lambda ab: ab[0] * ab[1])(jax.lax.cond(x > 0.5, lambda v: (v * 2.0, v + 1.0), lambda v: (v, v * v), x)), "s"),
        "switch_two_outputs": (lambda x: (lambda ab: ab[0] - 2.0 * ab[1])(jax.lax.switch(jnp.int32(1), [lambda v: (v, v), lambda v: (v * v, 3.0 * v)], x)), "s"),
        "cond_pytree_output": (lambda x: (lambda d: d["a"] * jnp.sum(d["b"]))(jax.lax.cond(x > 0.5, lambda v: {"a": v, "b": jnp.stack([v, v * v])}, lambda v: {"a": v * 3.0, "b": jnp.stack([v, -v])}, x)), "s"),
        "scan_two_carries": (lambda x: (lambda c: c[0] + c[1])(jax.lax.scan(lambda c, a: ((c[0] * x + a, c[1] + x), c[0]), (x, x), jnp.arange(3.0))[0]), "s"),
        "while_loop": (lambda x: jax.lax.while_loop(lambda c: c[0] < 3, lambda c: (c[0] + 1, c[1] * 1.5), (0, x))[1], "s"),
    }


def tree_close(a, b, tol=1e-5):
    la, ta = jax.tree_util.tree_flatten(a)
    lb, tb = jax.tree_util.tree_flatten(b)
    return ta == tb and all(np.shape(x) == np.shape(y) and bool(np.allclose(np.asarray(x, dtype=np.float64), np.asarray(y, dtype=np.float64), atol=tol, rtol=tol))
                            for x, y in zip(la, lb))


def c15_case(rng, name=None):
    progs = det_programs()
    name = name or rng.choice(sorted(progs))
    f, kind = progs[name]
    c = {"kind": "det", "name": name}
    try:
        if kind == "s":
            x = jnp.float32(rng.choice([-1.5, 0.25, 0.75, 2.0]))
            tx = jnp.float32(rng.choice([1.0, -2.0, 0.5]))
        elif kind in ("v", "v3"):
            x = jnp.asarray([rng.choice([-1.0, 0.5, 2.0]) for _ in range(3)], dtype=jnp.float32)
            tx = jnp.asarray([rng.choice([1.0, 0.0, -1.0]) for _ in range(3)], dtype=jnp.float32)
        else:
            x = {"a": jnp.float32(1.5), "b": (jnp.float32(-2.0), jnp.asarray([1.0, 2.0], dtype=jnp.float32))}
            tx = {"a": jnp.float32(1.0), "b": (jnp.float32(0.5), jnp.asarray([0.0, 1.0], dtype=jnp.float32))}
        ef = expectation(f)
        d = ef.jvp_estimate(Dual.dual_tree(x, tx))
        wp, wt = jax.jvp(f, (x,), (tx,))
        ok_jvp = tree_close(d.primal, wp) and tree_close(d.tangent, wt)
        try:
            ref_grad = jax.grad(f)(x)
        except Exception:  # noqa: BLE001   jax.grad itself is undefined here (e.g. while_loop): forward mode only
            ref_grad = None
            c["no_reverse"] = True
        ok_grad = ref_grad is None or tree_close(ef.grad_estimate(x), ref_grad)
        ok_est = tree_close(ef.estimate(x), f(x))
        ok_jit = ref_grad is None or tree_close(jax.jit(lambda xx: ef.grad_estimate(xx))(x), ref_grad)
        c.update({"ok_jvp": ok_jvp, "ok_grad": ok_grad, "ok_est": ok_est, "ok_jit": ok_jit})
    except Exception as e:  # noqa: BLE001
        c["err"] = type(e).__name__ + ": " + str(e)[:200]
    return c


def canon_cases():
    out = []
    from jax.interpreters import ad
    prim = jnp.float32(2.0)
    iprim = jnp.int32(2)
    kinds = {0: (prim, ad.Zero(jax.typeof(prim).to_tangent_aval())),
             1: (iprim, np.zeros((), dtype=jax.dtypes.float0)),
             2: (prim, jnp.float32(1.0))}
    kinds[3] = (jnp.complex64(1.0 + 2.0j), jnp.complex64(0.5 - 1.0j))
    kinds[4] = (jnp.float16(1.0), jnp.float16(0.5))
    for k, (p, t) in kinds.items():
        c = {"kind": "canon", "kin": k}
        try:
            r = adev._canonicalize_tangent_for_primitive_jvp(p, t)
            c["kout"] = 0 if adev._is_ad_zero(r) else (1 if adev._is_float0_tangent(r) else 2)
        except Exception as e:  # noqa: BLE001
            c["err"] = type(e).__name__ + ": " + str(e)[:200]
        out.append(c)
    return out


def main():
    out, sd, n, which = sys.argv[1], int(sys.argv[2]), int(sys.argv[3]), sys.argv[4]
    rng = random.Random(sd)
    cases = []
    if which == "c11" and sd % 4 == 0:
        cases.append(unseeded_repeat_case(rng))
    if which == "c11":
        for i in range(n):
            cases.append((catenum_case(rng) if i % 12 == 4 else mvdvec_case(rng)) if i % 6 == 4
                         else c11_case(rng) if i % 3 != 2 else reparam_case(rng))
        # every sampled primitive's keyed sampler in every run: shard k takes primitives k, k+4, k+8, ...
        for j in range(4):
            if (sd % 4) + 4 * j < 13:
                cases.append(consistency_case(rng, (sd % 4) + 4 * j))
    else:
        cases.extend(canon_cases())
        names = sorted(det_programs())
        for i in range(n):
            # every template is visited: shard sd starts at a different offset
            cases.append(c15_case(rng, names[(sd * n + i) % len(names)]))
    json.dump(cases, open(out, "w"))


if __name__ == "__main__":
    main()
