"""C20 cases: forward_filter / compute_sequence_log_prob / backward_sample on random rational HMMs,
kalman_filter / kalman_smoother on random rational linear-Gaussian models.  Runs natively on /repo/src.
usage: worker_ssm.py OUT.json SEED N"""
from __future__ import annotations

import json
import random
import sys
import types
from fractions import Fraction

import jax
import jax.numpy as jnp
import numpy as np

import genjax.extras.state_space as ss


def fr(x):
    f = Fraction(float(x))
    return [f.numerator, f.denominator]


def rand_stoch(rng, n, sparse):
    """a probability vector with small rational entries (zeros allowed when sparse)"""
    while True:
        w = [rng.choice([0, 0, 1, 2, 3]) if sparse else rng.randint(1, 4) for _ in range(n)]
        if sum(w) > 0:
            s = sum(w)
            return [Fraction(x, s) for x in w]


def hmm_case(rng):
    K = rng.choice([1, 2, 3, 4])
    M = rng.choice([2, 3, 4])
    T = rng.choice([1, 2, 3, 4, 5])
    sparse = rng.random() < 0.4
    pi0 = rand_stoch(rng, K, False)
    A = [rand_stoch(rng, K, sparse) for _ in range(K)]
    E = [rand_stoch(rng, M, False) for _ in range(K)]
    ys = [rng.randrange(M) for _ in range(T)]
    c = {"kind": "hmm", "K": K, "pi0": [[p.numerator, p.denominator] for p in pi0],
         "A": [[[p.numerator, p.denominator] for p in r] for r in A],
         "E": [[[p.numerator, p.denominator] for p in r] for r in E], "ys": ys, "sparse": sparse}
    f32 = lambda t: jnp.asarray([[float(x) for x in r] for r in t], dtype=jnp.float32)  # noqa: E731
    try:
        obs = jnp.asarray(ys, dtype=jnp.int32)
        p0 = jnp.asarray([float(x) for x in pi0], dtype=jnp.float32)
        alpha, lm = ss.forward_filter(obs, p0, f32(A), f32(E))
        c["filt"] = [[fr(v) for v in np.exp(np.asarray(row, dtype=np.float64))] for row in np.asarray(alpha)]
        c["marg"] = fr(np.exp(np.float64(lm)))
        # a path with positive probability: follow argmax of the filter restricted to allowed transitions
        path = []
        for t in range(T):
            cand = [x for x in range(K) if (t == 0 and pi0[x] > 0) or (t > 0 and A[path[-1]][x] > 0)]
            cand = [x for x in cand if E[x][ys[t]] > 0] or cand
            path.append(rng.choice(cand))
        c["path"] = path
        sp = ss.compute_sequence_log_prob(jnp.asarray(path, dtype=jnp.int32), obs, p0, f32(A), f32(E))
        c["seqp"] = fr(np.exp(np.float64(sp)))
        # backward sampling with scripted categorical draws: record the logits it samples from
        rec = []
        script = list(reversed(path))
        it = iter(script)

        def scripted(logits=None, **kw):
            v = next(it)
            lg = np.asarray(logits, dtype=np.float64)
            pr = np.exp(lg - lg.max())
            rec.append(float(pr[v] / pr.sum()))
            return jnp.int32(v)
        saved = ss.categorical
        ss.categorical = types.SimpleNamespace(sample=scripted)
        try:
            # the scan body is traced once: run the recursion eagerly by disabling jit so that every step calls the stub
            with jax.disable_jit():
                states = ss.backward_sample(alpha, f32(A))
        finally:
            ss.categorical = saved
        c["bs_path_ok"] = [int(s) for s in np.asarray(states)] == path
        c["ffbsp"] = fr(float(np.prod(rec)))
    except Exception as e:  # noqa: BLE001
        c["err"] = type(e).__name__ + ": " + str(e)[:200]
    return c


def hmm_long_case(rng):
    """long observation sequences: the running log marginal leaves the float32 range of
    probabilities (exp underflows below about -87), so only a log-space recursion is exact"""
    K = rng.choice([2, 3])
    M = rng.choice([3, 4])
    # about -ln M per step: the log marginal ends near -100 (quick) or lower (thorough), well below the
    # float32 exp underflow; the exact rational forward pass in Coq is cubic in T, hence the bound
    T = (rng.randint(95, 110) if M == 3 else rng.randint(75, 90)) if not LONG_THOROUGH else rng.choice([120, 150, 180])
    pi0 = rand_stoch(rng, K, False)
    A = [rand_stoch(rng, K, rng.random() < 0.3) for _ in range(K)]
    E = [rand_stoch(rng, M, False) for _ in range(K)]
    ys = [rng.randrange(M) for _ in range(T)]
    # exact forward pass (rationals) to discard degenerate (zero-probability) sequences
    al = [E[x][ys[0]] * pi0[x] for x in range(K)]
    for y in ys[1:]:
        al = [E[x2][y] * sum(al[x] * A[x][x2] for x in range(K)) for x2 in range(K)]
    c = {"kind": "hmm_long", "K": K, "T": T, "pi0": [[p.numerator, p.denominator] for p in pi0],
         "A": [[[p.numerator, p.denominator] for p in r] for r in A],
         "E": [[[p.numerator, p.denominator] for p in r] for r in E], "ys": ys}
    if sum(al) == 0:
        c["skip"] = True
        return c
    f32 = lambda t: jnp.asarray([[float(x) for x in r] for r in t], dtype=jnp.float32)  # noqa: E731
    try:
        obs = jnp.asarray(ys, dtype=jnp.int32)
        p0 = jnp.asarray([float(x) for x in pi0], dtype=jnp.float32)
        alpha, lm = ss.forward_filter(obs, p0, f32(A), f32(E))
        lm = float(lm)
        last = np.asarray(alpha[-1], dtype=np.float64)
        c["finite"] = bool(np.isfinite(lm))
        if c["finite"]:
            c["lm"] = fr(lm)
            c["tol"] = fr(Fraction(1, 50) + Fraction(abs(lm)).limit_denominator(10 ** 6) / 20000)
            c["filt"] = [fr(v) for v in np.exp(last)]      # rows of alpha are normalised (log filtering distributions)
            c["log_marginal_float"] = lm
    except Exception as e:  # noqa: BLE001
        c["err"] = type(e).__name__ + ": " + str(e)[:200]
    return c


def rand_spd(rng, d):
    L = [[Fraction(rng.randint(-1, 2) if j < i else (rng.randint(1, 2) if j == i else 0)) for j in range(d)] for i in range(d)]
    return [[sum(L[i][k] * L[j][k] for k in range(d)) / 2 for j in range(d)] for i in range(d)]


def kal_case(rng):
    ds = rng.choice([1, 2, 3])
    do = rng.choice([1, 2, 3])
    if rng.random() < 0.7:
        while do == ds:
            do = rng.choice([1, 2, 3])
    T = rng.choice([1, 2, 3, 4])
    q = lambda: Fraction(rng.randint(-2, 2), rng.choice([1, 2]))  # noqa: E731
    m0 = [q() for _ in range(ds)]
    P0 = rand_spd(rng, ds)
    A = [[q() for _ in range(ds)] for _ in range(ds)]
    Q = rand_spd(rng, ds)
    C = [[q() for _ in range(ds)] for _ in range(do)]
    R = rand_spd(rng, do)
    ys = [[q() for _ in range(do)] for _ in range(T)]
    enc = lambda t: [[[x.numerator, x.denominator] for x in r] for r in t]  # noqa: E731
    c = {"kind": "kal", "ds": ds, "do": do, "m0": [[x.numerator, x.denominator] for x in m0], "P0": enc(P0), "A": enc(A),
         "Q": enc(Q), "C": enc(C), "R": enc(R), "ys": enc(ys)}
    # the same problem in units of 10^-k (a precise sensor / large units): means and observations scale by u,
    # covariances by u^2, the dynamics and observation matrices are unit-free; the exact model undoes the units
    k = rng.choice([0, 0, 0, 1, 2, 3, 4, 5])
    # observations given as an integer-dtype array (integer-valued readings): same exact answer
    intobs = rng.random() < 0.25
    if intobs:
        k = 0
        ys = [[Fraction(rng.randint(-3, 3)) for _ in range(do)] for _ in range(T)]
        c["ys"] = enc(ys)
    c["unit"] = k
    c["intobs"] = intobs
    u = Fraction(1, 10 ** k)
    f = lambda t, w=Fraction(1): jnp.asarray([[float(x * w) for x in r] for r in t], dtype=jnp.float32)  # noqa: E731
    try:
        jax.config.update("jax_enable_x64", False)
        obs = jnp.asarray([[int(x) for x in r] for r in ys], dtype=jnp.int32) if intobs else f(ys, u)
        m = jnp.asarray([float(x * u) for x in m0], dtype=jnp.float32)
        fm, fc, lml = ss.kalman_filter(obs, m, f(P0, u * u), f(A), f(Q, u * u), f(C), f(R, u * u))
        sm, sc = ss.kalman_smoother(obs, m, f(P0, u * u), f(A), f(Q, u * u), f(C), f(R, u * u))
        c["fm"] = [[fr(v) for v in r] for r in np.asarray(fm)]
        c["fc"] = [[[fr(v) for v in r] for r in mm] for mm in np.asarray(fc)]
        c["sm"] = [[fr(v) for v in r] for r in np.asarray(sm)]
        c["sc"] = [[[fr(v) for v in r] for r in mm] for mm in np.asarray(sc)]
        c["lml"] = fr(lml)
        c["finite"] = bool(np.all(np.isfinite(np.asarray(fm))) and np.isfinite(float(lml)))
    except Exception as e:  # noqa: BLE001
        c["err"] = type(e).__name__ + ": " + str(e)[:200]
    return c


LONG_THOROUGH = False


def main():
    global LONG_THOROUGH
    out, sd, n = sys.argv[1], int(sys.argv[2]), int(sys.argv[3])
    LONG_THOROUGH = len(sys.argv) > 4 and sys.argv[4] == "thorough"
    rng = random.Random(sd)
    cases = [hmm_long_case(rng) if i % 6 == 4 else hmm_case(rng) if i % 2 == 0 else kal_case(rng) for i in range(n)]
    json.dump(cases, open(out, "w"))


if __name__ == "__main__":
    main()
