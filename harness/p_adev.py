"""C11 / C15: ADEV.  Models: coq/Model/Adev.v (estimators over dual rationals), coq/Model/AdevDet.v;
theorems: coq/Properties/C11.v, C15.v; correspondence: worker_adev.py + coq/Model/CorrAdev.v."""
from __future__ import annotations

import json
import os
import subprocess
from collections import Counter
from fractions import Fraction

import common
import overlay
from coqgen import n

SRC = ["src/genjax/adev/__init__.py", "src/genjax/pjax.py"]


def qc(x):
    f = Fraction(x).limit_denominator(10 ** 9)
    return f"(qc ({f.numerator}) {f.denominator})"


def qq(fr):
    return f"({fr[0]} # {fr[1]})%Q"


def eprog(prog, theta):
    """nested EFlip term; probabilities and leaf values are duals in theta (tangent d/dtheta)"""
    sites, lf = prog["sites"], prog["leaf"]

    def go(i, bits):
        if i == len(sites):
            c0 = f"{qc(lf['c0'])} + {qc(lf['c1'])} * {qc(theta)}"
            c1 = f"{qc(lf['c1'])}"
            for j, (w, wt) in enumerate(zip(lf["w"], lf["wt"])):
                c0 += f" + (if b{j} then {qc(w)} + {qc(wt)} * {qc(theta)} else 0)"
                c1 += f" + (if b{j} then {qc(wt)} else 0)"
            if lf["x"] and len(sites) >= 2:
                c0 += f" + (if b0 && b1 then {qc(lf['x'])} else 0)"
            if prog.get("tail"):
                # a sampled site of negligible scale located at m1 / m0 by the outer outcome: its value, to 1e-5
                c0 += f" + (if b0 then {qc(prog['tail']['m1'])} else {qc(prog['tail']['m0'])})"
            return f"(ERet (({c0})%Qc, ({c1})%Qc))"
        s = sites[i]
        p0 = f"{qc(s['a'])} + {qc(s['b'])} * {qc(theta)} * {qc(0.25)}"
        if s["dep"] and i > 0:
            p0 += f" + (if b{i-1} then {qc(s['dep'])} else 0)"
        p1 = f"{qc(s['b'])} * {qc(0.25)}"
        est = {"enum": "Enum", "penum": "Enum", "reinforce": "Reinforce", "mvd": "Mvd"}[s["est"]]
        rest = f"(fun b{i} : bool => {go(i + 1, bits + [i])})"
        site = f"(EFlip {est} (({p0})%Qc, ({p1})%Qc) {rest})"
        if s.get("incond") and i > 0:
            # inside a cond branch taken when the previous outcome is True; otherwise the value is false
            return f"(if b{i-1} then {site} else ({rest} false))"
        return site
    return go(0, [])


def acase(c):
    if "err" in c:
        return "CFlagA false"
    if c["kind"] == "adev":
        if c.get("modes_ok") is False:
            return "CFlagA false"
        runs = "[" + "; ".join("(" + "[" + "; ".join("true" if b else "false" for b in r["bits"]) + f"], {qq(r['p'])}, {qq(r['t'])})"
                               for r in c["runs"]) + "]"
        return f"CAdev {eprog(c['prog'], c['theta'])} {runs}"
    if c["kind"] == "reparam":
        th = c["theta"]
        L = c["L"]

        def dual(a, b):
            return f"(({qc(a)} + {qc(b)} * {qc(th)})%Qc, {qc(b)})"
        mus = [dual(c["ma"][i if c["mu_vec"] else 0], c["mb"][i if c["mu_vec"] else 0]) for i in range(L)]
        sgs = [dual(c["sa"][i if c["sg_vec"] else 0], c["sb"][i if c["sg_vec"] else 0]) for i in range(L)]
        lst = lambda xs: "[" + "; ".join(xs) + "]"  # noqa: E731
        return (f"CReparam {'true' if c['uniform'] else 'false'} {lst(mus)} {lst(sgs)} {lst([qc(e) for e in c['eps']])} "
                f"{lst([qc(w) for w in c['ws']])} {qq(c['p'])} {qq(c['t'])}")
    if c["kind"] == "catenum":
        th = c["theta"]

        def dual(x, y):
            return f"(({qc(x)} + {qc(y)} * {qc(th)})%Qc, {qc(y)})"
        lst = lambda xs: "[" + "; ".join(xs) + "]"  # noqa: E731
        ws = lst([dual(x, y) for x, y in zip(c["a"], c["b"])])
        vs = lst([dual(x, y) for x, y in zip(c["c"], c["d"])])
        fl = "None"
        if c["with_flip"]:
            # flip adds fw * (1 + theta) with probability pa + pb * theta
            fl = f"(Some ({dual(c['pa'], c['pb'])}, {dual(c['fw'], c['fw'])}))"
        return f"CCatEnum {ws} {vs} {fl} {qq(c['p'])} {qq(c['t'])} {qq(c['est'])} {qq(c['grad'])}"
    if c["kind"] == "mvdvec":
        th = c["theta"]
        bl = lambda bs: "[" + "; ".join("true" if x else "false" for x in bs) + "]"  # noqa: E731
        ps = "[" + "; ".join(f"(({qc(a)} + {qc(b_)} * {qc(th)} * {qc(0.25)})%Qc, ({qc(b_)} * {qc(0.25)})%Qc)" for a, b_ in zip(c["pa"], c["pb"])) + "]"
        table = "[" + "; ".join(f"({bl(b_)}, ({qc(v[0])}, {qc(v[1])}))" for b_, v in c["table"]) + "]"
        runs = "[" + "; ".join(f"({bl(r['bits'])}, {qq(r['p'])}, {qq(r['t'])})" for r in c["runs"]) + "]"
        return f"CMvdVec {ps} {table} {runs}"
    if c["kind"] == "unseeded_repeat":
        return f"CFlagA {'true' if c['ok'] else 'false'}"
    if c["kind"] == "consistency":
        return f"CFlagA {'true' if c['ok'] else 'false'}"
    if c["kind"] == "canon":
        return f"CCanon {n(c['kin'])} {n(c['kout'])}"
    ok = c.get("ok_jvp") and c.get("ok_grad") and c.get("ok_est") and c.get("ok_jit")
    return f"CFlagA {'true' if ok else 'false'}"


def run(ctx):
    which = "c11" if ctx.pid == "C11" else "c15"
    nn = (60 if which == "c11" else 80) if ctx.tier == "quick" else (600 if which == "c11" else 800)
    shards = 4 if ctx.tier == "quick" else 12
    root = ctx.ensure_overlay()
    env = overlay.env_for(root)
    env["PYTHONPATH"] = root + os.pathsep + common.HARNESS
    procs = []
    for k in range(shards):
        out = os.path.join(ctx.scratch, f"ad_{k}.json")
        procs.append((out, subprocess.Popen([common.PY, os.path.join(common.HARNESS, "worker_adev.py"), out,
                                             str(ctx.seed * 100 + k), str((nn + shards - 1) // shards), which],
                                            env=env, stdout=subprocess.PIPE, stderr=subprocess.PIPE, text=True,
                                            cwd=ctx.scratch)))
    cases, files, worker_errs = [], [], []
    for k, (out, pr) in enumerate(procs):
        so, se = pr.communicate(timeout=3000)
        if pr.returncode != 0 or not os.path.exists(out):
            worker_errs.append(se[-1500:])
            continue
        cs = json.load(open(out))
        vf = os.path.join(ctx.scratch, f"cases_ad_{k}.v")
        open(vf, "w").write("From Coq Require Import QArith Qcanon List Bool. Import ListNotations.\n"
                            "From GV Require Import Model.Adev Model.CorrAdev.\nOpen Scope Qc_scope.\n"
                            "Definition cases : list acase := [\n" + ";\n".join("  " + acase(c) for c in cs)
                            + "].\nDefinition result := Eval vm_compute in areport cases.\nPrint result.\n")
        files.append((vf, len(cases)))
        cases.extend(cs)
    res = common.eval_cases_files([f for f, _ in files])
    bad, coq_errs = [], []
    for vf, off in files:
        r = res[vf]
        if "error" in r:
            coq_errs.append(r["error"])
        else:
            bad += [(off + i, a, s, x) for (i, a, s, x) in r["bad"]]
    if which == "c11":
        # multivariate reparameterisation (MultivariateNormalREPARAM.prim_jvp_estimate) with scripted noise:
        # the built-in full-covariance / mean-field families of vi.py on a conjugate target, judged by Model/CorrVi.v
        import p_vi
        fout = os.path.join(ctx.scratch, "ad_fam.json")
        pr = subprocess.run([common.PY, os.path.join(common.HARNESS, "worker_vi.py"), fout, str(ctx.seed * 100 + 77),
                             str(12 if ctx.tier == "quick" else 120), "fam"], env=env, capture_output=True, text=True, cwd=ctx.scratch)
        if pr.returncode != 0 or not os.path.exists(fout):
            worker_errs.append(pr.stderr[-1500:])
        else:
            fcs = json.load(open(fout))
            vf = os.path.join(ctx.scratch, "cases_ad_fam.v")
            open(vf, "w").write("From Coq Require Import QArith.\nFrom GV Require Import Model.Corr Model.CorrVi.\n"
                                "Definition cases : list vicase := [\n" + ";\n".join("  " + p_vi.vicase(c) for c in fcs)
                                + "].\nDefinition result := Eval vm_compute in vireport cases.\nPrint result.\n")
            r = common.eval_cases_files([vf])[vf]
            off = len(cases)
            for c in fcs:
                c["kind"] = "mv_reparam"
            cases.extend(fcs)
            if "error" in r:
                coq_errs.append(r["error"])
            else:
                bad += [(off + i, a, s_, x) for (i, a, s_, x) in r["bad"]]
        nt = len({json.dumps([c["prog"], c["theta"]]) for c in cases if c["kind"] == "adev" and "err" not in c and len(c["prog"]["sites"]) >= 2}) \
            + len({json.dumps({k: v for k, v in c.items() if k not in ("p", "t")}, sort_keys=True) for c in cases if c["kind"] == "reparam" and c["L"] >= 2})
        hist = {"estimators": Counter(s["est"] for c in cases if c["kind"] == "adev" for s in c["prog"]["sites"]),
                "sites": Counter(len(c["prog"]["sites"]) for c in cases if c["kind"] == "adev"),
                "sites_inside_cond": sum(1 for c in cases if c["kind"] == "adev" for s_ in c["prog"]["sites"] if s_.get("incond")),
                "reparam": Counter(("uniform" if c["uniform"] else "normal") + f":L{c['L']}:mu{int(c['mu_vec'])}sg{int(c['sg_vec'])}" for c in cases if c["kind"] == "reparam"),
                "consistency": Counter(c["prim"] for c in cases if c["kind"] == "consistency"),
                "catenum": sum(1 for c in cases if c["kind"] == "catenum"), "mvdvec": sum(1 for c in cases if c["kind"] == "mvdvec"),
                "reparam_variants": Counter(c.get("variant", "site") for c in cases if c["kind"] == "reparam"),
                "mv_reparam": sum(1 for c in cases if c["kind"] == "mv_reparam"),
                "consistency_min_pvalues": sorted(c["pvalue"] for c in cases if c["kind"] == "consistency" and "pvalue" in c)[:4],
                "errors": Counter(c.get("err", "")[:70] for c in cases if "err" in c)}
        rule = ("random expectation programs of 1-3 flip sites (enumeration, parallel enumeration, REINFORCE, measure-valued derivative; theta-dependent "
                "probabilities, optionally depending on the previous outcome, optionally placed inside a lax.cond branch taken when the previous outcome is True; leaf values with theta terms and a cross term); every outcome vector of the "
                "sampled sites is scripted; per-outcome (primal, tangent) compared with the model's estimator, their probability-weighted mean with the exact "
                "dual expectation; enumeration-only programs also under jit(seed(.)), grad_estimate and estimate; plus normal_reparam / uniform_reparam sites with scalar or "
                "batched location and scale, scripted noise, followed by a lane-coupling continuation: primal and tangent compared with the pathwise dual; "
                "plus eager unseeded repeated calls of a program with a measure-valued site followed by a sampled site (400 gradient estimates, mean within 5 standard errors of the exact derivative); plus batched flip_mvd (2-3 lanes, every outcome vector scripted; lane-wise measure-valued estimator and its exact mean); plus categorical_enum_parallel (rational masses in theta, optionally followed by flip_enum; jvp_estimate, estimate, grad_estimate exact); normal_reparam with a sample_shape; multivariate_normal_diag_reparam; "
                "plus multivariate_normal_reparam through the built-in full-covariance / mean-field families with scripted noise (x = mean + chol @ eps, value and directional derivative in exact rationals); "
                "plus sampler/scorer consistency of every sampled primitive under seed (3000 vectorised draws, goodness of fit against the density the primitive is "
                "scored with; fails below p = 1e-6); non-trivial = distinct flip program with >=2 sites or batched reparameterised site")
    else:
        nt = len({c.get("name", str(c.get("kin"))) for c in cases if "err" not in c})
        hist = {"programs": Counter(c.get("name", "canon") for c in cases),
                "errors": Counter(c.get("err", "")[:70] for c in cases if "err" in c)}
        rule = ("deterministic program templates (see the histogram; polynomial, trig/exp, reductions, indexing/slicing, matvec, outer/transpose, integer and boolean "
                "intermediates, casts, cond with either branch, max/min, pytree arguments, integer constants, complex / half-precision intermediates, loops, linear algebra, zero-derivative primitives in last position, cond / switch branches returning constants) on scalar / vector / pytree arguments with random "
                "values and tangents: jvp_estimate vs jax.jvp, grad_estimate vs jax.grad (also under jit), estimate vs f; plus the tangent canonicalisation "
                "helpers on symbolic-zero / float0 / value tangents compared with the model; non-trivial = distinct template")
    return {"cases": cases, "bad": bad, "worker_errs": worker_errs, "coq_errs": coq_errs,
            "coverage": {"evaluations": len(cases), "distinct_nontrivial": nt, "rule": rule, "histogram": hist,
                         "samples": cases[:2]}}
