"""C10 cases: hand-composed SMC pipelines (init / extend / rejuvenate / resample) with real
dyadic categorical sites under seed; per-stage snapshots are judged by coq/Model/CorrSmc.v.
usage: worker_smc.py OUT.json SEED N"""
from __future__ import annotations

import json
import random
import sys
from fractions import Fraction

import jax
import jax.numpy as jnp
import numpy as np

import genjax.inference.smc as smc
from genjax import gen, seed, sel, const
from genjax.inference.mcmc import mh

from gfi_build import LN2, build, canon_cm, canon_val, ev, name, slice_lane, calls_of


def sexpr(rng, env_n, depth=1):
    r = rng.random()
    if depth <= 0 or r < 0.5:
        if env_n and rng.random() < 0.75:
            return ["v", rng.randrange(env_n)]
        return ["k", rng.randint(0, 2)]
    op = rng.choice(["add", "sub", "add"])
    return [op, sexpr(rng, env_n, depth - 1), sexpr(rng, env_n, depth - 1)]


def make_fn(rng, nargs, addrs):
    """@gen fn over nargs scalar args with one dyadic-categorical site per address."""
    calls, n = [], nargs
    for a in addrs:
        calls.append((a, ["dist", 3], [sexpr(rng, n, 1)]))
        n += 1
    p = ["ret", sexpr(rng, n, 2)]
    for a, sub, args in reversed(calls):
        p = ["call", a, sub, args, p]
    return ["fn", p]


def sub_latents(rng, latent):
    """the addresses a custom proposal covers: all latents, or (half of the time) a strict non-empty subset -
    the uncovered latents are then drawn by the target's own generate"""
    if len(latent) >= 2 and rng.random() < 0.5:
        return sorted(rng.sample(latent, rng.randint(1, len(latent) - 1)))
    return list(latent)


def wrap_proposal(g, ndrop):
    inner = build(g).source.value
    return gen(lambda *a: inner(*a[ndrop:]))


def snapshot(pc, target_ast):
    n = int(pc.n_samples.value)
    ch = pc.traces.get_choices()
    parts = []
    lws = np.asarray(pc.log_weights) / LN2
    scs = np.asarray(pc.traces.get_score()).reshape(-1) if False else None
    # per-particle score: vectorized Tr stores the per-particle score vector in _score
    sc_vec = np.asarray(pc.traces._score) / LN2
    rets = pc.traces.get_retval()
    for i in range(n):
        lwi = float(lws[i])
        if abs(lwi - round(lwi)) > 1e-3 or abs(float(sc_vec[i]) - round(float(sc_vec[i]))) > 1e-3:
            raise ValueError("non-dyadic weight")
        parts.append({"choices": canon_cm(target_ast, slice_lane(ch, i)), "lw": int(round(lwi)),
                      "ret": canon_val(slice_lane(rets, i)), "score": int(round(float(sc_vec[i])))})
    # a test function of the choices: the value at the first address (harness-side per-particle values)
    a0 = sorted(ch.keys())[0]
    fvals = [int(round(float(np.asarray(ch[a0])[i]))) for i in range(n)]
    fest = Fraction(float(pc.estimate(lambda c: jnp.asarray(c[a0], dtype=jnp.float32))))
    fvec = pc.estimate(lambda c: jnp.stack([jnp.asarray(c[a0], dtype=jnp.float32), jnp.asarray(c[a0], dtype=jnp.float32) ** 2]))
    fest2 = Fraction(float(fvec[1]))
    if abs(float(fvec[0]) - float(fest)) > 1e-5 * (1 + abs(float(fest))):
        raise ValueError("estimate of a vector-valued function disagrees with the scalar estimate")
    fe = Fraction(float(jnp.exp(pc.log_marginal_estimate)))
    fl = Fraction(float(jnp.exp(pc.log_marginal_likelihood())))
    return {"parts": parts, "est": [fe.numerator, fe.denominator], "lml": [fl.numerator, fl.denominator],
            "fvals": fvals, "fest": [fest.numerator, fest.denominator], "fest2": [fest2.numerator, fest2.denominator]}


def make_case(rng):
    n = rng.choice([1, 2, 3, 4, 6])
    naddr = rng.choice([2, 3, 3, 4])
    addrs = list(range(naddr))
    nobs = rng.randint(0, naddr)
    obs = sorted(rng.sample(addrs, nobs))
    latent = [a for a in addrs if a not in obs]
    nargs0 = rng.choice([1, 2])
    t0 = make_fn(rng, nargs0, rng.sample(addrs, len(addrs)))
    args0 = [rng.randint(0, 2) for _ in range(nargs0)]
    cons0 = {name(a): rng.randint(0, 2) for a in obs}
    ops = []
    use_prop = rng.random() < 0.5 and latent
    p0 = make_fn(rng, nargs0, sub_latents(rng, latent)) if use_prop else None
    ops.append({"op": "init", "target": t0, "args": args0, "cons": cons0, "prop": p0})
    cur_target, cur_latent = t0, latent
    for _ in range(rng.randint(0, 4)):
        r = rng.random()
        if r < 0.45:
            obs2 = sorted(rng.sample(addrs, rng.randint(0, naddr)))
            lat2 = [a for a in addrs if a not in obs2]
            t1 = make_fn(rng, 1, rng.sample(addrs, len(addrs)))
            cons1 = {name(a): rng.randint(0, 2) for a in obs2}
            usep = rng.random() < 0.5 and lat2
            p1 = make_fn(rng, 1, sub_latents(rng, lat2)) if usep else None
            ops.append({"op": "extend", "target": t1, "cons": cons1, "prop": p1})
            cur_target, cur_latent = t1, lat2
        elif r < 0.7 and cur_latent:
            ops.append({"op": "rejuv", "addr": rng.choice(cur_latent)})
        else:
            ops.append({"op": "resample", "method": rng.choice(["categorical", "systematic"])})

    def pipeline():
        out = []
        pc = None
        for o in ops:
            if o["op"] == "init":
                prop = wrap_proposal(o["prop"], 1) if o["prop"] else None
                pc = smc.init(build(o["target"]), tuple(jnp.float32(a) for a in o["args"]), const(n),
                              {k: jnp.int32(v) for k, v in o["cons"].items()}, prop)
            elif o["op"] == "extend":
                prop = wrap_proposal(o["prop"], 2) if o["prop"] else None
                pc = smc.extend(pc, build(o["target"]), pc.traces.get_retval(),
                                {k: jnp.int32(v) for k, v in o["cons"].items()}, prop)
            elif o["op"] == "rejuv":
                pc = smc.rejuvenate(pc, lambda tr, a=o["addr"]: mh(tr, sel(name(a))))
            else:
                pc = smc.resample(pc, method=o["method"])
            out.append(pc)
        return out

    pcs = seed(pipeline)(jax.random.key(rng.randrange(10 ** 6)))
    snaps, tgt = [], None
    for o, pc in zip(ops, pcs):
        if o["op"] in ("init", "extend"):
            tgt = o["target"]
        snaps.append(snapshot(pc, tgt))
    for o in ops:
        if "cons" in o:
            o["cons"] = canon_cm(o["target"], o["cons"])
    return {"n": n, "ops": ops, "snaps": snaps}


def rsmc_case(rng):
    """rejuvenation_smc end to end (return_all_particles=True): a feedback model whose return value is the
    next step's argument, per-step observations, optional transition proposal, optional mh rejuvenation"""
    import jax.tree_util as jtu
    n = rng.choice([1, 2, 4, 6, 8, 12])
    skew = rng.random() < 0.5
    T = rng.choice([4, 5, 6]) if skew else rng.choice([2, 3, 4])
    naddr = 4 if skew else rng.choice([2, 3])
    addrs = list(range(naddr))
    # 'skew' cases observe three sites per step over more steps so that the ESS trigger fires
    obs = sorted(rng.sample(addrs, 3 if skew else rng.randint(1, naddr - 1)))
    latent = [a for a in addrs if a not in obs]
    tgt = make_fn(rng, 1, rng.sample(addrs, len(addrs)))
    use_prop = rng.random() < 0.4
    prop = make_fn(rng, 1, sub_latents(rng, latent)) if use_prop else None
    kernel = rng.random() < 0.35
    nmoves = rng.choice([1, 2])
    arg0 = rng.randint(0, 2)
    obs_seq = {name(a): [rng.randint(0, 2) for _ in range(T)] for a in obs}
    c = {"kind": "rsmc", "n": n, "T": T, "target": tgt, "prop": prop, "kernel": kernel, "moves": nmoves, "arg0": arg0}

    # the return value is fed back as the next argument: keep its type equal to the initial argument's
    inner_t = build(tgt).source.value
    model = gen(lambda a: jnp.asarray(inner_t(a), dtype=jnp.float32))

    def run():
        return smc.rejuvenation_smc(
            model,
            transition_proposal=wrap_proposal(prop, 2) if prop else None,
            mcmc_kernel=const(lambda tr: mh(tr, sel(name(latent[0])))) if kernel else None,
            observations={k: jnp.asarray(v, dtype=jnp.int32) for k, v in obs_seq.items()},
            initial_model_args=(jnp.float32(arg0),),
            n_particles=const(n),
            return_all_particles=const(True),
            n_rejuvenation_moves=const(nmoves),
        )
    allp = seed(run)(jax.random.key(rng.randrange(10 ** 6)))
    snaps = []
    for t in range(T):
        pc_t = jtu.tree_map(lambda x: x[t], allp)
        snaps.append(snapshot(pc_t, tgt))
    c["snaps"] = snaps
    c["obss"] = [canon_cm(tgt, {k: v[t] for k, v in obs_seq.items()}) for t in range(T)]
    c["resampled"] = [all(p["lw"] == 0 for p in s_["parts"]) for s_ in snaps]
    return c


def main():
    out, sd, n = sys.argv[1], int(sys.argv[2]), int(sys.argv[3])
    rng = random.Random(sd)
    cases, errs = [], []
    tries = 0
    while len(cases) < n and tries < 4 * n:
        tries += 1
        st = rng.getstate()
        try:
            cases.append(rsmc_case(rng) if tries % 3 == 0 else make_case(rng))
        except Exception as e:  # noqa: BLE001
            errs.append(type(e).__name__ + ": " + str(e)[:300])
    json.dump({"cases": cases, "errs": errs}, open(out, "w"))


if __name__ == "__main__":
    main()
