"""Shared driver machinery: scratch dirs, Coq builds, evidence, verdicts."""
from __future__ import annotations

import fcntl
import hashlib
import json
import os
import re
import shutil
import subprocess
import sys
import tempfile
import time

ROOT = os.path.dirname(os.path.dirname(os.path.abspath(__file__)))
COQ = os.path.join(ROOT, "coq")
HARNESS = os.path.join(ROOT, "harness")
PY = "/venv/bin/python"
REPO = os.environ.get("GENJAX_VERIF_REPO", "/repo")

sys.path.insert(0, HARNESS)
import overlay  # noqa: E402

FORBIDDEN = re.compile(r"\b(Admitted|admit|Axiom|Parameter|Conjecture|Admit Obligations|bypass_check|Unset Guard|Unset Positivity|Unset Universe)\b")


class Ctx:
    def __init__(self, pid, tier, seed):
        self.pid, self.tier, self.seed = pid, tier, seed
        self.t0 = time.time()
        base = os.environ.get("TMPDIR", "/tmp")
        self.scratch = tempfile.mkdtemp(prefix=f"verif-{pid}-", dir=base)
        self.overlay_root = None
        self.overlay_report = None
        self.notes = []

    def cleanup(self):
        if os.environ.get("VERIF_KEEP"):
            print("scratch kept:", self.scratch)
            return
        shutil.rmtree(self.scratch, ignore_errors=True)

    def ensure_overlay(self):
        if self.overlay_root is None:
            overlay.REPO_SRC = os.path.join(REPO, "src")
            self.overlay_root, self.overlay_report = overlay.build(os.path.join(self.scratch, "ov"))
        return self.overlay_root

    def run_worker(self, script, args, timeout=1500, native=False):
        """Run a harness worker under /venv/bin/python with the overlay (or natively on /repo/src)."""
        if native:
            env = dict(os.environ)
            env["PYTHONPATH"] = os.path.join(REPO, "src") + os.pathsep + HARNESS
            env["PYTHONHASHSEED"] = "0"
            env["JAX_PLATFORMS"] = "cpu"
        else:
            env = overlay.env_for(self.ensure_overlay())
            env["PYTHONPATH"] = self.overlay_root + os.pathsep + HARNESS
        p = subprocess.run([PY, os.path.join(HARNESS, script)] + [str(a) for a in args],
                           env=env, capture_output=True, text=True, timeout=timeout, cwd=self.scratch)
        return p


def coq_build(targets=None, timeout=1700):
    """(Re)build the Coq development under a lock.  Returns (ok, log)."""
    lock = open(os.path.join(COQ, ".build.lock"), "w")
    fcntl.flock(lock, fcntl.LOCK_EX)
    try:
        if not os.path.exists(os.path.join(COQ, "Makefile")) or \
           os.path.getmtime(os.path.join(COQ, "_CoqProject")) > os.path.getmtime(os.path.join(COQ, "Makefile")):
            p = subprocess.run(["coq_makefile", "-f", "_CoqProject", "-o", "Makefile"], cwd=COQ,
                               capture_output=True, text=True)
            if p.returncode != 0:
                return False, p.stdout + p.stderr
        cmd = ["timeout", str(timeout), "make", "-j12"] + (targets or [])
        p = subprocess.run(cmd, cwd=COQ, capture_output=True, text=True)
        return p.returncode == 0, p.stdout[-4000:] + p.stderr[-6000:]
    finally:
        fcntl.flock(lock, fcntl.LOCK_UN)
        lock.close()


def grep_gate():
    """No Admitted/Axiom/... anywhere in the development."""
    bad = []
    for d, _, fs in os.walk(COQ):
        for f in fs:
            if f.endswith(".v"):
                path = os.path.join(d, f)
                txt = open(path).read()
                txt = re.sub(r"\(\*.*?\*\)", "", txt, flags=re.S)
                for m in FORBIDDEN.finditer(txt):
                    bad.append(f"{os.path.relpath(path, COQ)}: {m.group(0)}")
    return bad


def check_property_file(pid, scratch):
    """Compile Properties/<pid>.v afresh (into scratch) and parse theorems + Print Assumptions."""
    src = os.path.join(COQ, "Properties", f"{pid}.v")
    if not os.path.exists(src):
        return {"obligations": 0, "discharged": 0, "theorems": [], "axioms": [], "log": "no property file"}
    txt = open(src).read()
    theorems = re.findall(r"^\s*(?:Theorem|Corollary)\s+(\w+)", txt, flags=re.M)
    dst_dir = os.path.join(scratch, "prop")
    os.makedirs(dst_dir, exist_ok=True)
    dst = os.path.join(dst_dir, f"{pid}_chk.v")
    shutil.copy(src, dst)
    p = subprocess.run(["timeout", "600", "coqc", "-Q", COQ, "GV", dst], capture_output=True, text=True)
    out = p.stdout + p.stderr
    ok = p.returncode == 0
    closed = len(re.findall(r"Closed under the global context", out))
    axioms = sorted(set(re.findall(r"^([A-Za-z_][\w.]*)\s*:", out, flags=re.M)) - {"Axioms"}) if "Axioms:" in out else []
    return {"obligations": len(theorems), "discharged": len(theorems) if ok else 0,
            "theorems": theorems, "closed_count": closed, "axioms": axioms,
            "log": out[-3000:], "ok": ok}


RESULT_RE = re.compile(r"\((\d+)(?:%nat)?,\s*(true|false),\s*(true|false),\s*(true|false)\)")


def eval_cases_files(files, jobs=8, timeout=900):
    """coqc each generated cases file; return per-file list of (idx, agree, spec)."""
    procs = []
    results = {}
    pending = list(files)
    running = []
    while pending or running:
        while pending and len(running) < jobs:
            f = pending.pop(0)
            pr = subprocess.Popen(["timeout", str(timeout), "coqc", "-Q", COQ, "GV", f],
                                  stdout=subprocess.PIPE, stderr=subprocess.STDOUT, text=True)
            running.append((f, pr))
        f, pr = running.pop(0)
        out, _ = pr.communicate()
        if pr.returncode != 0:
            results[f] = {"error": out[-2000:]}
        else:
            body = out[out.find("result ="):] if "result =" in out else None
            if body is None:
                results[f] = {"error": "no result printed: " + out[-500:]}
                continue
            found = RESULT_RE.findall(body)
            # every reported tuple must be parsed: count opening parentheses of tuples
            if body.count("(") - body.count("(nat") - body.count("(bool") > len(found) and "[]" not in body.split(":")[0]:
                if len(re.findall(r"\(\d+", body)) != len(found):
                    results[f] = {"error": "could not parse the report: " + body[:500]}
                    continue
            results[f] = {"bad": [(int(i), a == "true", s == "true", r == "true") for i, a, s, r in found]}
    return results


def write_evidence(pid, tier, seed, level, coverage, assumptions, wall, violations):
    ev = {"property_id": pid, "tier": tier, "seed": seed, "level": level, "coverage": coverage,
          "assumptions": assumptions, "wall_s": round(wall, 2), "violations": violations}
    os.makedirs(os.path.join(ROOT, "evidence"), exist_ok=True)
    with open(os.path.join(ROOT, "evidence", f"{pid}.json"), "w") as f:
        json.dump(ev, f, indent=1, default=str)
    return ev


def write_replay(pid, payload):
    os.makedirs(os.path.join(ROOT, "replays"), exist_ok=True)
    h = hashlib.sha256(json.dumps(payload, sort_keys=True, default=str).encode()).hexdigest()[:12]
    path = os.path.join(ROOT, "replays", f"{pid}-{h}.json")
    with open(path, "w") as f:
        json.dump(payload, f, indent=1, default=str)
    return path


def load_known():
    p = os.path.join(ROOT, "known_findings.json")
    if not os.path.exists(p):
        return []
    return json.load(open(p))


def source_hashes(files):
    out = {}
    for f in files:
        p = os.path.join(REPO, f)
        if os.path.exists(p):
            out[f] = hashlib.sha256(open(p, "rb").read()).hexdigest()[:16]
    return out


TRUSTED_BASE = [
    "Coq 8.16.1 kernel (coqc; vm_compute used for evaluating the executable model on cases; no native_compute)",
    "no axioms declared by this development; per-theorem Print Assumptions output is recorded in 'axioms'",
    "hand-written Gallina model of the anchored code (coq/Model/*.v), tied to /repo by the correspondence check on generated cases",
    "harness: case generators, AST->genjax builder, canonicalisation (harness/*.py), JAX-0.11 API-rename overlay (harness/overlay.py)",
    "JAX / TFP numerics (vmap, scan, where, PRNG, densities) are modelled as oracles, not verified",
]
