"""C13 cases: the 24 exported distributions (and user-wrapped ones).
  lp    : d.logpdf(v, params) for positional and keyword call signatures, inside the support
  shape : shape and dtype of seeded / sample_shape / vectorised / batched draws
  law   : goodness of fit of seeded, vectorised and sample_shape draws against an independent
          (scipy) reference CDF / PMF, fixed keys, rejection only below p = 1e-6
usage: worker_dists.py OUT.json SEED N"""
from __future__ import annotations

import json
import math
import random
import sys
import warnings
from fractions import Fraction

warnings.filterwarnings("ignore")

import jax  # noqa: E402
import jax.numpy as jnp  # noqa: E402
import numpy as np  # noqa: E402
import scipy.stats as st  # noqa: E402

import genjax.distributions as gd  # noqa: E402
from genjax import modular_vmap, seed, tfp_distribution  # noqa: E402
from genjax.core import distribution  # noqa: E402
from genjax.pjax import wrap_logpdf, wrap_sampler  # noqa: E402

tfd = gd.tfd

EXPORTED = ["bernoulli", "flip", "beta", "categorical", "geometric", "normal", "uniform", "exponential", "poisson",
            "multivariate_normal", "dirichlet", "binomial", "gamma", "log_normal", "student_t", "laplace",
            "half_normal", "inverse_gamma", "weibull", "cauchy", "chi2", "multinomial", "negative_binomial", "zipf"]


def _custom_laplace():
    def keyful(key, mu, b, sample_shape=()):
        shape = tuple(sample_shape) + jnp.broadcast_shapes(jnp.shape(mu), jnp.shape(b))
        return mu + b * jax.random.laplace(key, shape)

    def logpdf(v, mu, b):
        return -jnp.abs(v - mu) / b - jnp.log(2.0 * b)
    return distribution(wrap_sampler(keyful, name="UserLaplace"), wrap_logpdf(logpdf), name="UserLaplace")


USER = {
    "user_logistic": lambda: tfp_distribution(tfd.Logistic, name="UserLogistic"),
    "user_gumbel": lambda: tfp_distribution(tfd.Gumbel, name="UserGumbel"),
    "user_custom_laplace": _custom_laplace,
}
_user_cache = {}


def get_dist(name):
    if name in USER:
        if name not in _user_cache:
            _user_cache[name] = USER[name]()
        return _user_cache[name]
    return getattr(gd, name)


def f32(x):
    return float(np.float32(x))


def fr(x):
    f = Fraction(float(x))
    return [f.numerator, f.denominator]


P = [0.125, 0.25, 0.375, 0.75, 0.9]
LOGIT = [-2.0, -0.75, 0.5, 1.5]
LOC = [-1.5, -0.5, 0.25, 2.0]
SCALE = [0.5, 0.75, 1.5, 2.0, 3.0]
SHAPE2 = [0.5, 1.5, 2.0, 2.5, 3.0, 4.0]      # integer and half-integer Gamma shapes
REAL = [-2.5, -1.0, -0.25, 0.0, 0.5, 1.25, 3.0]
POSV = [0.125, 0.5, 0.75, 1.5, 2.5, 4.0]
UNITV = [0.125, 0.25, 0.5, 0.625, 0.9]


def sigs():
    """(name, kws, param_gen(rng) -> list of params (scalars / lists / matrices), value_gen(rng, params) -> value,
        scipy reference factory(params) or None, event rank)"""
    c = random.Random.choice
    out = []

    def add(name, kws, pg, vg, ref=None, discrete=False, event=0):
        out.append(dict(name=name, kws=kws, pg=pg, vg=vg, ref=ref, discrete=discrete, event=event))
    sig = lambda l: 1.0 / (1.0 + math.exp(-l))  # noqa: E731
    add("bernoulli", [], lambda r: [c(r, LOGIT)], lambda r, p: c(r, [0, 1]), lambda p: st.bernoulli(sig(p[0])), True)
    add("bernoulli", ["logits"], lambda r: [c(r, LOGIT)], lambda r, p: c(r, [0, 1]), lambda p: st.bernoulli(sig(p[0])), True)
    add("bernoulli", ["probs"], lambda r: [c(r, P)], lambda r, p: c(r, [0, 1]), lambda p: st.bernoulli(p[0]), True)
    add("flip", [], lambda r: [c(r, P)], lambda r, p: c(r, [False, True]), lambda p: st.bernoulli(p[0]), True)
    add("beta", [], lambda r: [c(r, SHAPE2), c(r, SHAPE2)], lambda r, p: c(r, UNITV), lambda p: st.beta(p[0], p[1]))
    add("beta", ["concentration1", "concentration0"], lambda r: [c(r, SHAPE2), c(r, SHAPE2)], lambda r, p: c(r, UNITV),
        lambda p: st.beta(p[0], p[1]))
    add("categorical", [], lambda r: [[c(r, LOGIT + [0.0]) for _ in range(r.randint(2, 4))]],
        lambda r, p: r.randrange(len(p[0])),
        lambda p: st.rv_discrete(values=(list(range(len(p[0]))), list(np.exp(p[0]) / np.sum(np.exp(p[0]))))), True)
    add("geometric", [], lambda r: [c(r, LOGIT)], lambda r, p: float(r.randint(0, 6)), lambda p: st.geom(sig(p[0]), loc=-1), True)
    add("geometric", ["logits"], lambda r: [c(r, LOGIT)], lambda r, p: float(r.randint(0, 6)), lambda p: st.geom(sig(p[0]), loc=-1), True)
    add("geometric", ["probs"], lambda r: [c(r, P)], lambda r, p: float(r.randint(0, 6)), lambda p: st.geom(p[0], loc=-1), True)
    add("normal", [], lambda r: [c(r, LOC), c(r, SCALE)], lambda r, p: c(r, REAL), lambda p: st.norm(p[0], p[1]))
    add("normal", ["loc", "scale"], lambda r: [c(r, LOC), c(r, SCALE)], lambda r, p: c(r, REAL), lambda p: st.norm(p[0], p[1]))

    def unif(r):
        a = c(r, LOC)
        return [a, a + c(r, SCALE)]
    add("uniform", [], unif, lambda r, p: p[0] + (p[1] - p[0]) * c(r, [0.0, 0.25, 0.5, 0.875, 1.0]), lambda p: st.uniform(p[0], p[1] - p[0]))
    add("uniform", ["low", "high"], unif, lambda r, p: p[0] + (p[1] - p[0]) * c(r, [0.0, 0.25, 0.5, 0.875, 1.0]),
        lambda p: st.uniform(p[0], p[1] - p[0]))
    add("exponential", [], lambda r: [c(r, SCALE)], lambda r, p: c(r, [0.0] + POSV), lambda p: st.expon(scale=1.0 / p[0]))
    add("exponential", ["rate"], lambda r: [c(r, SCALE)], lambda r, p: c(r, [0.0] + POSV), lambda p: st.expon(scale=1.0 / p[0]))
    add("poisson", [], lambda r: [c(r, SCALE)], lambda r, p: float(r.randint(0, 7)), lambda p: st.poisson(p[0]), True)
    add("poisson", ["rate"], lambda r: [c(r, SCALE)], lambda r, p: float(r.randint(0, 7)), lambda p: st.poisson(p[0]), True)
    add("poisson", ["log_rate"], lambda r: [c(r, LOGIT)], lambda r, p: float(r.randint(0, 7)), lambda p: st.poisson(math.exp(p[0])), True)

    def mvn(r):
        # Sigma = L L^T with a non-zero off-diagonal entry
        l11, l22, l21 = c(r, [0.5, 1.0, 2.0]), c(r, [0.5, 1.5]), c(r, [-1.0, 0.5, 1.5])
        cov = [[l11 * l11, l11 * l21], [l11 * l21, l21 * l21 + l22 * l22]]
        return [[c(r, LOC), c(r, LOC)], cov]
    add("multivariate_normal", [], mvn, lambda r, p: [c(r, REAL), c(r, REAL)], lambda p: ("mvn", p), event=1)
    add("multivariate_normal", ["loc", "covariance_matrix"], mvn, lambda r, p: [c(r, REAL), c(r, REAL)], lambda p: ("mvn", p), event=1)

    def simplex(r, k):
        ws = [c(r, [1, 2, 3, 5]) for _ in range(k)]
        s = sum(ws)
        return [w / s for w in ws]
    add("dirichlet", [], lambda r: [[c(r, SHAPE2) for _ in range(r.randint(2, 3))]], lambda r, p: simplex(r, len(p[0])),
        lambda p: ("dirichlet", p), event=1)
    add("dirichlet", ["concentration"], lambda r: [[c(r, SHAPE2) for _ in range(r.randint(2, 3))]], lambda r, p: simplex(r, len(p[0])),
        lambda p: ("dirichlet", p), event=1)
    add("binomial", ["total_count", "probs"], lambda r: [float(r.randint(1, 6)), c(r, P)], lambda r, p: float(r.randint(0, int(p[0]))),
        lambda p: st.binom(int(p[0]), p[1]), True)
    add("binomial", ["total_count", "logits"], lambda r: [float(r.randint(1, 6)), c(r, LOGIT)], lambda r, p: float(r.randint(0, int(p[0]))),
        lambda p: st.binom(int(p[0]), sig(p[1])), True)
    add("binomial", [], lambda r: [float(r.randint(1, 6)), c(r, LOGIT)], lambda r, p: float(r.randint(0, int(p[0]))),
        lambda p: st.binom(int(p[0]), sig(p[1])), True)
    add("gamma", [], lambda r: [c(r, SHAPE2), c(r, SCALE)], lambda r, p: c(r, POSV), lambda p: st.gamma(p[0], scale=1.0 / p[1]))
    add("gamma", ["concentration", "rate"], lambda r: [c(r, SHAPE2), c(r, SCALE)], lambda r, p: c(r, POSV),
        lambda p: st.gamma(p[0], scale=1.0 / p[1]))
    add("log_normal", [], lambda r: [c(r, LOC), c(r, SCALE)], lambda r, p: c(r, POSV), lambda p: st.lognorm(p[1], scale=math.exp(p[0])))
    add("log_normal", ["loc", "scale"], lambda r: [c(r, LOC), c(r, SCALE)], lambda r, p: c(r, POSV),
        lambda p: st.lognorm(p[1], scale=math.exp(p[0])))
    add("student_t", [], lambda r: [float(r.randint(1, 7)), c(r, LOC), c(r, SCALE)], lambda r, p: c(r, REAL), lambda p: st.t(p[0], p[1], p[2]))
    add("student_t", ["df", "loc", "scale"], lambda r: [float(r.randint(1, 7)), c(r, LOC), c(r, SCALE)], lambda r, p: c(r, REAL),
        lambda p: st.t(p[0], p[1], p[2]))
    add("laplace", [], lambda r: [c(r, LOC), c(r, SCALE)], lambda r, p: c(r, REAL), lambda p: st.laplace(p[0], p[1]))
    add("laplace", ["loc", "scale"], lambda r: [c(r, LOC), c(r, SCALE)], lambda r, p: c(r, REAL), lambda p: st.laplace(p[0], p[1]))
    add("half_normal", [], lambda r: [c(r, SCALE)], lambda r, p: c(r, [0.0] + POSV), lambda p: st.halfnorm(scale=p[0]))
    add("half_normal", ["scale"], lambda r: [c(r, SCALE)], lambda r, p: c(r, [0.0] + POSV), lambda p: st.halfnorm(scale=p[0]))
    add("inverse_gamma", [], lambda r: [c(r, SHAPE2), c(r, SCALE)], lambda r, p: c(r, POSV), lambda p: st.invgamma(p[0], scale=p[1]))
    add("inverse_gamma", ["concentration", "scale"], lambda r: [c(r, SHAPE2), c(r, SCALE)], lambda r, p: c(r, POSV),
        lambda p: st.invgamma(p[0], scale=p[1]))
    add("weibull", [], lambda r: [c(r, [0.5, 1.5, 2.0, 3.0]), c(r, SCALE)], lambda r, p: c(r, POSV), lambda p: st.weibull_min(p[0], scale=p[1]))
    add("weibull", ["concentration", "scale"], lambda r: [c(r, [0.5, 1.5, 2.0, 3.0]), c(r, SCALE)], lambda r, p: c(r, POSV),
        lambda p: st.weibull_min(p[0], scale=p[1]))
    add("cauchy", [], lambda r: [c(r, LOC), c(r, SCALE)], lambda r, p: c(r, REAL), lambda p: st.cauchy(p[0], p[1]))
    add("cauchy", ["loc", "scale"], lambda r: [c(r, LOC), c(r, SCALE)], lambda r, p: c(r, REAL), lambda p: st.cauchy(p[0], p[1]))
    add("chi2", [], lambda r: [float(r.randint(1, 7))], lambda r, p: c(r, POSV), lambda p: st.chi2(p[0]))
    add("chi2", ["df"], lambda r: [float(r.randint(1, 7))], lambda r, p: c(r, POSV), lambda p: st.chi2(p[0]))

    def multin_v(r, p):
        n, k = int(p[0]), len(p[1])
        cuts = sorted(r.randint(0, n) for _ in range(k - 1))
        return [float(b - a) for a, b in zip([0] + cuts, cuts + [n])]
    add("multinomial", ["total_count", "probs"], lambda r: [float(r.randint(1, 5)), simplex(r, r.randint(2, 3))], multin_v,
        lambda p: ("multinomial", p), True, event=1)
    add("negative_binomial", ["total_count", "probs"], lambda r: [float(r.randint(1, 4)), c(r, P)], lambda r, p: float(r.randint(0, 6)),
        lambda p: st.nbinom(int(p[0]), 1.0 - p[1]), True)
    add("zipf", [], lambda r: [c(r, [2.0, 4.0])], lambda r, p: r.randint(1, 6), lambda p: st.zipf(p[0]), True)
    add("zipf", ["power"], lambda r: [c(r, [2.0, 4.0])], lambda r, p: r.randint(1, 6), lambda p: st.zipf(p[0]), True)
    add("user_logistic", [], lambda r: [c(r, LOC), c(r, SCALE)], lambda r, p: c(r, REAL), lambda p: st.logistic(p[0], p[1]))
    add("user_gumbel", [], lambda r: [c(r, LOC), c(r, SCALE)], lambda r, p: c(r, REAL), lambda p: st.gumbel_r(p[0], p[1]))
    add("user_custom_laplace", [], lambda r: [c(r, LOC), c(r, SCALE)], lambda r, p: c(r, REAL), lambda p: st.laplace(p[0], p[1]))
    return out


def to32(x):
    """round parameters / values to float32 so that model and implementation see the same rationals"""
    if isinstance(x, bool):
        return x
    if isinstance(x, (list, tuple)):
        return [to32(y) for y in x]
    if isinstance(x, int):
        return x
    return f32(x)


def jarr(x):
    if isinstance(x, bool):
        return jnp.asarray(x)
    if isinstance(x, int):
        return jnp.asarray(x, dtype=jnp.int32)
    return jnp.asarray(x, dtype=jnp.float32)


def flat(x):
    if isinstance(x, (list, tuple)):
        return [z for y in x for z in flat(y)]
    return [x]


def call(fn, s, params, *lead, **extra):
    ps = [jarr(p) for p in params]
    if s["kws"]:
        return fn(*lead, **dict(zip(s["kws"], ps)), **extra)
    return fn(*lead, *ps, **extra)


def lp_case(rng, s):
    params = to32(s["pg"](rng))
    v = to32(s["vg"](rng, params))
    c = {"kind": "lp", "name": s["name"], "kws": s["kws"], "params": [fr(x) for x in flat(params)],
         "value": [fr(int(x) if isinstance(x, bool) else x) for x in flat(v)]}
    try:
        d = get_dist(s["name"])
        o = call(d.logpdf, s, params, jarr(v))
        o2 = jax.jit(lambda vv: call(d.logpdf, s, params, vv))(jarr(v))
        if np.shape(o) != ():
            raise ValueError(f"logpdf shape {np.shape(o)}")
        o, o2 = float(o), float(o2)
        c["jit_same"] = bool(o == o2 or abs(o - o2) <= 1e-5 * (1 + abs(o)))
        # the density site vectorised over the value (keyword parameters go through the log-density batching
        # rule's kwargs branch): every lane equals the scalar result
        ov = modular_vmap(lambda vv: call(d.logpdf, s, params, vv), in_axes=(0,))(jnp.stack([jarr(v)] * 3))
        c["jit_same"] = c["jit_same"] and bool(np.shape(ov) == (3,) and np.allclose(np.asarray(ov, dtype=np.float64), o, rtol=1e-5, atol=1e-5, equal_nan=True))
        if math.isnan(o):
            c["obs"] = "nan"
        elif math.isinf(o):
            c["obs"] = "-inf" if o < 0 else "inf"
        else:
            c["obs"] = fr(o)
            c["tol"] = fr(Fraction(1, 1000) + Fraction(abs(o)).limit_denominator(10 ** 6) / 10000)
        # the generative-function interface scores with the same density
        if not s["kws"]:
            w, _ = d.assess(jarr(v), *[jarr(p) for p in params])
            c["assess_same"] = bool(abs(float(w) - o) <= 1e-5 * (1 + abs(o)))
    except Exception as e:  # noqa: BLE001
        c["err"] = type(e).__name__ + ": " + str(e)[:200]
    return c


DT = {"bool": 0, "int32": 1, "float32": 2}


def shape_case(rng, s):
    """shape / dtype of draws: sample_shape, vectorisation (modular_vmap with axis_size, or over a
    parameter), batched parameters, and their combinations"""
    params = to32(s["pg"](rng))
    ev = s["event"]
    ss = rng.choice([[], [], [3], [2, 3], [1]])
    lanes = rng.choice([[], [], [4], [2], [3, 2]])
    batch_arg = rng.choice([None, None, 0, len(params) - 1])       # give one parameter a leading batch axis
    bsz = rng.choice([2, 3])
    mapped = rng.random() < 0.4 and bool(lanes) and len(lanes) == 1   # vmap over a parameter instead of axis_size
    if mapped and batch_arg not in (None, 0):
        # a mapped parameter next to an unmapped parameter of higher per-lane rank is the
        # rank-mismatch configuration of C08's known finding K3; it is exercised (and reported) there
        batch_arg = None
    c = {"kind": "shape", "name": s["name"], "kws": s["kws"], "ss": ss, "lanes": lanes, "mapped": mapped}
    try:
        d = get_dist(s["name"])
        ps = [jarr(p) for p in params]
        pshapes = [list(np.shape(p)) for p in ps]
        if s["name"] == "multinomial" or (s["name"] == "multivariate_normal") or s["name"] == "categorical" or s["name"] == "dirichlet":
            evr = [0 if np.ndim(p) == 0 else np.ndim(p) for p in ps]     # per-parameter event rank
        else:
            evr = [0 for _ in ps]
        if batch_arg is not None:
            ps[batch_arg] = jnp.stack([ps[batch_arg]] * bsz)
        batches = [list(np.shape(p))[: np.ndim(p) - e] for p, e in zip(ps, evr)]
        event = []
        if ev:
            event = [max(sh[-1] for sh in pshapes if sh)]
        c["batches"], c["event"] = batches, event

        def draw(*qs):
            if s["kws"]:
                return d.sample(**dict(zip(s["kws"], qs)), **({"sample_shape": tuple(ss)} if ss else {}))
            return d.sample(*qs, **({"sample_shape": tuple(ss)} if ss else {}))
        f = draw
        if lanes and mapped:
            n = lanes[0]
            ps0 = jnp.stack([ps[0]] * n)
            f = modular_vmap(lambda p0, *rest: draw(p0, *rest), in_axes=(0,) + (None,) * (len(ps) - 1))
            x = seed(lambda: f(ps0, *ps[1:]))(jax.random.key(rng.randrange(1000)))
        else:
            g = lambda: draw(*ps)  # noqa: E731
            for n in reversed(lanes):
                g = modular_vmap(g, axis_size=n)
            x = seed(g)(jax.random.key(rng.randrange(1000)))
        c["shape"] = list(np.shape(x))
        c["dtype"] = DT.get(str(x.dtype), 9)
        c["dtype_name"] = str(x.dtype)
    except Exception as e:  # noqa: BLE001
        c["err"] = type(e).__name__ + ": " + str(e)[:200]
    return c


def layout_case(rng):
    """a parameter mapped along a non-leading axis: lane i must be drawn from lane i's parameters
    (near-deterministic parameters make the pairing visible in a single draw)"""
    which = rng.choice(["normal", "normal", "laplace", "categorical", "mvn_loc"])
    n = rng.choice([3, 4])
    c = {"kind": "layout", "name": which, "n": n}
    try:
        key = jax.random.key(rng.randrange(10 ** 6))
        tiny = jnp.float32(2.0 ** -20)
        if which in ("normal", "laplace"):
            per = rng.choice([(2, 3), (3,), (2, 2)])
            ax = rng.randrange(len(per) + 1)
            base = jnp.arange(n * int(np.prod(per)), dtype=jnp.float32).reshape((n,) + per) * 3.0
            stack = jnp.moveaxis(base, 0, ax)
            d = gd.normal if which == "normal" else gd.laplace
            x = seed(modular_vmap(lambda m: d.sample(m, tiny), in_axes=(ax,)))(key, stack)
            c["axis"], c["per"] = ax, list(per)
            c["ok"] = bool(x.shape == base.shape and np.allclose(np.asarray(x), np.asarray(base), atol=1e-2))
        elif which == "categorical":
            k = 3
            hot = [rng.randrange(k) for _ in range(n)]
            base = jnp.asarray([[60.0 if j == h else 0.0 for j in range(k)] for h in hot], dtype=jnp.float32)   # (n, k)
            ax = rng.choice([0, 1])
            stack = jnp.moveaxis(base, 0, ax)
            x = seed(modular_vmap(lambda lg: gd.categorical.sample(lg), in_axes=(ax,)))(key, stack)
            c["axis"] = ax
            c["ok"] = bool(x.shape == (n,) and [int(v) for v in np.asarray(x)] == hot)
        else:
            base = jnp.arange(n * 2, dtype=jnp.float32).reshape(n, 2) * 5.0
            ax = rng.choice([0, 1])
            stack = jnp.moveaxis(base, 0, ax)
            cov = jnp.eye(2, dtype=jnp.float32) * 1e-8
            x = seed(modular_vmap(lambda m: gd.multivariate_normal.sample(m, cov), in_axes=(ax,)))(key, stack)
            c["axis"] = ax
            c["ok"] = bool(x.shape == (n, 2) and np.allclose(np.asarray(x), np.asarray(base), atol=1e-2))
    except Exception as e:  # noqa: BLE001
        c["err"] = type(e).__name__ + ": " + str(e)[:200]
    return c


def gof(xs, ref, discrete):
    """p-value of a goodness-of-fit test of draws xs against the scipy reference"""
    xs = np.asarray(xs, dtype=np.float64)
    if isinstance(ref, tuple):
        kind, p = ref
        if kind == "mvn":
            # whiten with the documented covariance: coordinates must be iid standard normal
            L = np.linalg.cholesky(np.asarray(p[1], dtype=np.float64))
            z = np.linalg.solve(L, (xs - np.asarray(p[0])).T).T
            corr = abs(np.mean(z[:, 0] * z[:, 1])) * math.sqrt(len(z))
            return min(st.kstest(z[:, 0], "norm").pvalue, st.kstest(z[:, 1], "norm").pvalue, 2 * st.norm.sf(corr))
        if kind == "dirichlet":
            a = np.asarray(p[0], dtype=np.float64)
            return min(st.kstest(xs[:, i], st.beta(a[i], a.sum() - a[i]).cdf).pvalue for i in range(len(a)))
        if kind == "multinomial":
            n, pr = int(p[0]), np.asarray(p[1], dtype=np.float64)
            if not np.all(xs.sum(axis=1) == n):
                return 0.0
            return min(gof(xs[:, i], st.binom(n, pr[i]), True) for i in range(len(pr)))
    if not discrete:
        return float(st.kstest(xs, ref.cdf).pvalue)
    lo, hi = int(xs.min()), int(xs.max())
    ks = np.arange(min(lo, int(ref.ppf(1e-9))), hi + 1)
    exp = ref.pmf(ks) * len(xs)
    obs = np.array([(xs == k).sum() for k in ks], dtype=np.float64)
    # merge cells with small expectation into a tail cell
    keep = exp >= 5
    if (exp[keep].sum() == 0) or keep.sum() < 1:
        return 1.0
    o = list(obs[keep]) + [obs[~keep].sum() + 0.0]
    e = list(exp[keep]) + [len(xs) - exp[keep].sum()]
    if e[-1] < 1e-9:
        if o[-1] > 0:
            return 0.0
        o, e = o[:-1], e[:-1]
    if len(o) < 2:
        return 1.0 if abs(o[0] - e[0]) < 1e-6 else 0.0
    stat = sum((a - b) ** 2 / b for a, b in zip(o, e))
    return float(st.chi2.sf(stat, len(o) - 1))


def law_case(rng, s):
    params = to32(s["pg"](rng))
    mode = rng.choice(["sample_shape", "vmap", "sample_shape2", "vmap_x_shape"])
    N = 4000
    c = {"kind": "law", "name": s["name"], "kws": s["kws"], "mode": mode, "params": [float(x) for x in flat(params)], "n": N}
    try:
        d = get_dist(s["name"])
        ps = [jarr(p) for p in params]

        def draw(ss):
            kw = {"sample_shape": ss} if ss else {}
            if s["kws"]:
                return d.sample(**dict(zip(s["kws"], ps)), **kw)
            return d.sample(*ps, **kw)
        key = jax.random.key(rng.randrange(10 ** 6))
        if mode == "sample_shape":
            x = seed(lambda: draw((N,)))(key)
        elif mode == "sample_shape2":
            x = seed(lambda: draw((40, 100)))(key)
        elif mode == "vmap":
            x = seed(modular_vmap(lambda: draw(()), axis_size=N))(key)
        else:
            x = seed(modular_vmap(lambda: draw((100,)), axis_size=40))(key)
        x = np.asarray(x)
        ev = s["event"]
        x = x.reshape((N,) + x.shape[x.ndim - ev:]) if ev else x.reshape(N)
        # distinct lanes / positions must not repeat draws
        c["distinct"] = int(len({tuple(np.atleast_1d(r)) for r in x[:200]}))
        pv = gof(x, s["ref"](params), s["discrete"])
        c["pvalue"] = float(pv)
        c["ok"] = bool(pv > 1e-6)
    except Exception as e:  # noqa: BLE001
        c["err"] = type(e).__name__ + ": " + str(e)[:200]
    return c


def main():
    out, sd, n = sys.argv[1], int(sys.argv[2]), int(sys.argv[3])
    rng = random.Random(sd)
    ss = sigs()
    cases = []
    off = (sd * 7) % len(ss)
    for i in range(n):
        s = ss[(off + i) % len(ss)]          # every call signature is visited in turn
        r = i % 8
        if r in (0, 1, 2, 3, 4):
            cases.append(lp_case(rng, s))
        elif r == 5:
            cases.append(shape_case(rng, s))
        elif r == 6:
            cases.append(shape_case(rng, s) if i % 16 == 6 else layout_case(rng))
        else:
            cases.append(law_case(rng, s))
    json.dump({"cases": cases, "exported": sorted(n for n in dir(gd) if not n.startswith("_") and hasattr(getattr(gd, n), "logpdf")),
               "expected_exported": sorted(EXPORTED)}, open(out, "w"))


if __name__ == "__main__":
    main()
