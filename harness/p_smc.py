"""C10: SMC particle weights and evidence estimate.  Theorems: coq/Properties/C10.v (corollaries of the
generate theorem + resampling/marginal identities); correspondence: worker_smc.py + coq/Model/CorrSmc.v."""
from __future__ import annotations

import json
import os
import subprocess
from collections import Counter

import common
import coqgen
import overlay

SRC = ["src/genjax/inference/smc.py", "src/genjax/core.py"]


def q(fr):
    return f"({fr[0]} # {fr[1]})%Q"


def sop(o):
    if o["op"] == "init":
        prop = f"(Some {coqgen.gast(o['prop'])})" if o["prop"] else "None"
        return f"SInit {coqgen.gast(o['target'])} {coqgen.args(o['args'])} {coqgen.cm(o['cons'])} {prop}"
    if o["op"] == "extend":
        prop = f"(Some {coqgen.gast(o['prop'])})" if o["prop"] else "None"
        return f"SExtend {coqgen.gast(o['target'])} {coqgen.cm(o['cons'])} {prop}"
    if o["op"] == "rejuv":
        return "SRejuv"
    return "SResample"


def snap(s):
    parts = "[" + "; ".join(f"({coqgen.cm(p['choices'])}, {coqgen.z(p['lw'])}, {coqgen.val(p['ret'])}, {coqgen.z(p['score'])})"
                            for p in s["parts"]) + "]"
    fv = "[" + "; ".join(coqgen.z(v) for v in s["fvals"]) + "]"
    return (f"{{| sn_parts := {parts}; sn_est := {q(s['est'])}; sn_lml := {q(s['lml'])}; "
            f"sn_fvals := {fv}; sn_fest := {q(s['fest'])}; sn_fest2 := {q(s['fest2'])} |}}")


def case(c):
    if c.get("kind") == "rsmc":
        prop = f"(Some {coqgen.gast(c['prop'])})" if c["prop"] else "None"
        return (f"CRsmc {coqgen.gast(c['target'])} {coqgen.args([c['arg0']])} {prop} {'true' if c['kernel'] else 'false'} "
                f"{coqgen.n(c['n'])} [" + "; ".join(coqgen.cm(o) for o in c["obss"]) + "] ["
                + "; ".join(snap(s) for s in c["snaps"]) + "]")
    return ("CSmc [" + "; ".join(sop(o) for o in c["ops"]) + "] [" + "; ".join(snap(s) for s in c["snaps"]) + "]")


def run(ctx):
    n = 60 if ctx.tier == "quick" else 600
    shards = 4 if ctx.tier == "quick" else 12
    root = ctx.ensure_overlay()
    env = overlay.env_for(root)
    env["PYTHONPATH"] = root + os.pathsep + common.HARNESS
    procs = []
    for k in range(shards):
        out = os.path.join(ctx.scratch, f"smc_{k}.json")
        procs.append((out, subprocess.Popen([common.PY, os.path.join(common.HARNESS, "worker_smc.py"), out,
                                             str(ctx.seed * 100 + k), str((n + shards - 1) // shards)],
                                            env=env, stdout=subprocess.PIPE, stderr=subprocess.PIPE, text=True,
                                            cwd=ctx.scratch)))
    cases, files, worker_errs, gen_errs = [], [], [], Counter()
    for k, (out, pr) in enumerate(procs):
        so, se = pr.communicate(timeout=3000)
        if pr.returncode != 0 or not os.path.exists(out):
            worker_errs.append(se[-1500:])
            continue
        d = json.load(open(out))
        for e in d["errs"]:
            gen_errs[e[:80]] += 1
        vf = os.path.join(ctx.scratch, f"cases_smc_{k}.v")
        open(vf, "w").write("From Coq Require Import QArith.\nFrom GV Require Import Model.CorrSmc.\n"
                            "Definition cases : list smc_case := [\n"
                            + ";\n".join("  " + case(c) for c in d["cases"])
                            + "].\nDefinition result := Eval vm_compute in smc_report cases.\nPrint result.\n")
        files.append((vf, len(cases)))
        cases.extend(d["cases"])
    res = common.eval_cases_files([f for f, _ in files])
    bad, coq_errs = [], []
    for vf, off in files:
        r = res[vf]
        if "error" in r:
            coq_errs.append(r["error"])
        else:
            bad += [(off + i, a, s, x) for (i, a, s, x) in r["bad"]]
    # an implementation exception inside a pipeline is a failed case
    for e, cnt in gen_errs.items():
        if "non-dyadic" not in e:
            worker_errs.append(f"pipeline raised: {e} (x{cnt})")
    opsk = Counter(o["op"] + ("+prop" if o.get("prop") else "") for c in cases if "ops" in c for o in c["ops"])
    rs = [c for c in cases if c.get("kind") == "rsmc"]
    nt = len({json.dumps(c["ops"]) for c in cases if "ops" in c and c["n"] >= 2 and len(c["ops"]) >= 2}) \
        + len({json.dumps([c["target"], c["prop"], c["obss"], c["n"], c["kernel"]]) for c in rs if c["n"] >= 2})
    return {"cases": cases, "bad": bad, "worker_errs": worker_errs, "coq_errs": coq_errs,
            "coverage": {"evaluations": len(cases), "distinct_nontrivial": nt,
                         "rule": "random pipelines init(default|custom proposal) then up to 4 of extend(default|custom)/rejuvenate(mh)/resample(categorical|systematic) "
                                 "on random @gen targets with 2-4 dyadic categorical sites (masses 1/2,1/4,1/4 rotated by parent-dependent parameters), random "
                                 "observation subsets (none..all), N in {1,2,3,4,6}, run under seed; every stage snapshot (per-particle choices, weight, retval, score; "
                                 "estimate; lml; ParticleCollection.estimate of a scalar and of a vector-valued test function against the self-normalised weighted average) is judged in Coq.  Every third case runs rejuvenation_smc itself (return_all_particles=True): feedback model, T in 2..4 steps of per-step "
                                 "observations, N in {1,2,4,6,8}, 40% with a transition proposal, 35% with mh rejuvenation (1-2 moves); each time step's snapshot is judged as "
                                 "'not resampled' (per-particle weight increment for its own previous return value, estimate unchanged, ESS >= N//2) or 'resampled' (weights 0, every "
                                 "particle extends some previous particle, exp(lml) = estimate); non-trivial = distinct pipeline with >=2 particles and >=2 ops / rejuvenation_smc case with >=2 particles",
                         "histogram": {"ops": opsk, "particles": Counter(c["n"] for c in cases), "skipped": gen_errs,
                                       "rejuvenation_smc": {"cases": len(rs), "with_proposal": sum(1 for c in rs if c["prop"]), "with_kernel": sum(1 for c in rs if c["kernel"]),
                                                            "steps_resampled": sum(sum(c["resampled"]) for c in rs), "steps_total": sum(c["T"] for c in rs)}},
                         "samples": cases[:1]}}
