"""C17 cases: the ELBO objective per scripted draw of the family; optimize_vi on deterministic objectives.
usage: worker_vi.py OUT.json SEED N"""
from __future__ import annotations

import json
import random
import sys
from fractions import Fraction

import jax
import jax.numpy as jnp
import numpy as np

import genjax.adev as adev
from genjax import categorical, expectation, gen
from genjax.core import distribution
from genjax.inference.vi import elbo_factory, optimize_vi, elbo_vi

from gfi_build import LN2, _dy_logits, build, canon_cm, canon_val, ev, name
from worker_smc import make_fn


def fr(x):
    f = Fraction(float(x))
    return [f.numerator, f.denominator]


def elbo_case(rng):
    naddr = rng.choice([2, 3, 3, 4])
    addrs = list(range(naddr))
    obs = sorted(rng.sample(addrs, rng.randint(1, naddr - 1)))
    latent = [a for a in addrs if a not in obs]
    overlap = rng.random() < 0.2      # the family also proposes an observed address: its value wins
    fam_addrs = latent + ([rng.choice(obs)] if overlap else [])
    nt, nq = rng.choice([1, 2]), rng.choice([1, 2])
    target = make_fn(rng, nt, rng.sample(addrs, naddr))
    family = make_fn(rng, nq, fam_addrs)
    targs = [rng.randint(0, 2) for _ in range(nt)]
    qargs = [rng.randint(0, 2) for _ in range(nq)]
    cons = {name(a): rng.randint(0, 2) for a in obs}
    tape = [rng.randint(0, 2) for _ in fam_addrs]
    it = iter(tape)
    c = {"kind": "elbo", "target": target, "family": family, "targs": targs, "qargs": qargs, "tape": tape,
         "overlap": overlap, "nlatent": len(latent)}
    try:
        dy_r = distribution(
            adev.reinforce(lambda p: jnp.asarray(next(it), dtype=jnp.int32),
                           lambda v, p: categorical.logpdf(v, _dy_logits(p)),
                           lambda key, p, sample_shape=(): categorical.sample(_dy_logits(p))),
            lambda v, p: categorical.logpdf(v, _dy_logits(p)))

        def fam_src(constraint, *params):
            env = list(params)
            p = family[1]
            while p[0] == "call":
                _, a, sub, argexprs, k = p
                env.append(dy_r(*[ev(x, env) for x in argexprs]) @ name(a))
                p = k
            return ev(p[1], env)
        fam = gen(fam_src)
        cons_j = {k: jnp.int32(v) for k, v in cons.items()}
        el = elbo_factory(build(target), fam, cons_j, tuple(jnp.float32(a) for a in targs))
        v = float(el.estimate(*[jnp.float32(a) for a in qargs])) / LN2
        if abs(v - round(v)) > 1e-3:
            raise ValueError("non-dyadic")
        c["value"] = int(round(v))
        c["cons"] = canon_cm(target, cons)
    except Exception as e:  # noqa: BLE001
        c["err"] = type(e).__name__ + ": " + str(e)[:200]
    return c


def _stub_parts(kind):
    a, b = [(1, 0), (2, 1), (3, 2)][kind]
    return lambda v, t, p: -(a * jnp.abs(v - p)) - b


def elbo_nested_case(rng):
    """family = a random structured program (nested @gen functions and Cond with shared, possibly hierarchical,
    addresses) over tape-stub distributions bound to a score-function ADEV primitive; target = the same
    sub-program (other arguments) followed by an observed site that depends on its return value"""
    import gfi_build
    from gfi_build import ProgGen
    pg = ProgGen(rng, max_depth=2, allow=("dist", "fn", "cond"), collide=0.0, dkinds=(0, 1, 2))
    pg.collide_now = False
    m = rng.choice([1, 2])
    sub = pg.fn(["S"] * m, 2)
    if rng.random() < 0.5:
        # a Cond (decided by the first argument) whose branches share hierarchical addresses
        for _ in range(30):
            g, mc = pg.cond(1)
            if all(b[0] == "fn" and any(sb[0] == "fn" for _, sb in gfi_build.calls_of(b[1])) for b in g[1:3]):
                m = max(m, 1)
                cargs = [["v", rng.randrange(m)] for _ in range(mc)]
                sub = ["fn", ["call", 2, g, [["gt", ["v", 0], ["k", 0]]] + cargs, ["ret", ["v", m]]]]
                break
    family = ["fn", ["call", 0, sub, [["v", i] for i in range(m)], ["ret", ["v", m]]]]
    k = rng.choice([0, 1, 2])
    tobs = rng.randint(-2, 2)
    target = ["fn", ["call", 0, sub, [["v", i] for i in range(m)],
                     ["call", 1, ["dist", k], [["k", tobs], ["v", m]], ["ret", ["v", m + 1]]]]]
    targs = [rng.randint(-2, 3) for _ in range(m)]
    qargs = [rng.randint(-2, 3) for _ in range(m)]
    c = {"kind": "elbo", "target": target, "family": family, "targs": targs, "qargs": qargs, "tape": [],
         "overlap": False, "nlatent": 1, "nested": True, "has_cond": "cond" in json.dumps(sub)}
    saved = gfi_build.STUBS
    try:
        rec = []

        def rec_stub(kind):
            def samp(t, p):
                rec.append(float(t))
                return t
            return distribution(samp, _stub_parts(kind), name=f"rstub{kind}")

        def adev_stub(kind):
            lp = _stub_parts(kind)
            return distribution(adev.reinforce(lambda t, p: t, lp, lambda key, t, p, sample_shape=(): t), lp, name=f"astub{kind}")

        def mkfam():
            def fam_src(constraint, *params):
                return build(sub)(*params) @ name(0)
            return gen(fam_src)
        # the family's draws in execution order (both branches of a Cond are run): the model's tape
        gfi_build.STUBS = [rec_stub(kk) for kk in range(3)] + list(saved[3:])
        mkfam().simulate(None, *[jnp.float32(a) for a in qargs])
        c["tape"] = [int(v) for v in rec]
        gfi_build.STUBS = [adev_stub(kk) for kk in range(3)] + list(saved[3:])
        cons = {name(1): tobs}
        el = elbo_factory(build(target), mkfam(), {name(1): jnp.float32(tobs)}, tuple(jnp.float32(a) for a in targs))
        v = float(el.estimate(*[jnp.float32(a) for a in qargs]))
        if abs(v - round(v)) > 1e-3:
            raise ValueError("non-integral")
        c["value"] = int(round(v))
        c["cons"] = canon_cm(target, cons)
    except Exception as e:  # noqa: BLE001
        c["err"] = type(e).__name__ + ": " + str(e)[:200]
    finally:
        gfi_build.STUBS = saved
    return c


def vi_case(rng):
    a = rng.choice([0.5, 1.0, 2.0])
    b = rng.choice([-1.0, 0.5, 3.0])
    lr = rng.choice([0.0, 0.125, 0.25, 0.5])
    n = rng.choice([1, 2, 3, 5, 8])
    init = rng.choice([-2.0, 0.0, 1.0, 4.0])
    vec = rng.random() < 0.4
    c = {"kind": "vi", "a": a, "b": b, "lr": lr, "n": n, "init": init, "vec": vec}
    try:
        @expectation
        def obj(p):
            return -a * jnp.sum((p - b) ** 2)
        p0 = jnp.asarray([init, init + 1.0]) if vec else jnp.float32(init)
        res = optimize_vi(obj, p0, learning_rate=lr, n_iterations=n)
        # without history tracking the final parameters are the same and no history is returned
        res_nh = optimize_vi(obj, p0, learning_rate=lr, n_iterations=n, track_history=False)
        c["nohist_ok"] = bool(np.allclose(np.asarray(res_nh.final_params), np.asarray(res.final_params))
                              and np.asarray(res_nh.param_history).size == 0)
        hist = np.asarray(res.param_history)
        fin = np.asarray(res.final_params)
        if vec:
            c["hist"] = [fr(h[0]) for h in hist]
            c["final"] = fr(fin[0])
            # second coordinate starts at init+1: independent recurrence, checked against the first by shift
            c["shape_ok"] = bool(hist.shape == (n, 2) and int(res.n_iterations.value) == n) and c["nohist_ok"]
        else:
            c["hist"] = [fr(h) for h in hist]
            c["final"] = fr(fin)
            c["shape_ok"] = bool(hist.shape == (n,) and int(res.n_iterations.value) == n) and c["nohist_ok"]
    except Exception as e:  # noqa: BLE001
        c["err"] = type(e).__name__ + ": " + str(e)[:200]
    return c


def fam_case(rng):
    """the built-in variational families with a reparameterised site: per scripted noise eps the
    draw is mean + chol @ eps, and the ELBO / its directional derivative follow (conjugate
    linear-Gaussian target  x ~ N(0, I), y ~ N(w.x, 1))"""
    import math
    import types
    from genjax import multivariate_normal, normal
    from genjax.adev import Dual
    from genjax.inference.vi import full_covariance_normal_family, mean_field_normal_family
    nd = rng.choice([2, 2, 3])
    full = rng.random() < 0.7
    eps = [rng.choice([-1.5, -1.0, -0.5, 0.5, 1.0, 2.0]) for _ in range(nd)]
    w = [rng.choice([-1.0, 0.5, 1.0, 2.0]) for _ in range(nd)]
    y = rng.choice([-1.0, 0.5, 2.0])
    m = [rng.choice([-1.0, 0.0, 0.5, 1.0]) for _ in range(nd)]
    dm = [rng.choice([0.0, 1.0, -0.5]) for _ in range(nd)]
    dk = [rng.choice([-1, 0, 1]) for _ in range(nd)]          # diagonal 2^k
    C = [[0.0] * nd for _ in range(nd)]
    dC = [[0.0] * nd for _ in range(nd)]
    for i in range(nd):
        C[i][i] = 2.0 ** dk[i]
        dC[i][i] = rng.choice([0.0, 0.5, 1.0])
        if full:
            for j in range(i):
                C[i][j] = rng.choice([-1.0, -0.5, 0.5, 1.0, 0.0])
                dC[i][j] = rng.choice([0.0, 1.0, -0.5])
    c = {"kind": "fam", "full": full, "nd": nd, "eps": eps, "w": w, "y": y, "m": m, "dm": dm}
    saved = adev.multivariate_normal
    try:
        adev.multivariate_normal = types.SimpleNamespace(
            sample=lambda loc, cov: jnp.asarray(eps, dtype=jnp.float32), logpdf=saved.logpdf)
        wv = jnp.asarray(w, dtype=jnp.float32)

        @gen
        def target():
            x = multivariate_normal(jnp.zeros(nd), jnp.eye(nd)) @ "x"
            return normal(jnp.sum(wv * x), 1.0) @ "y"
        cons = {"y": jnp.float32(y)}
        if full:
            el = elbo_factory(target, full_covariance_normal_family(nd, "reparam"), cons, ())
            prim = {"mean": jnp.asarray(m, dtype=jnp.float32), "chol_cov": jnp.asarray(C, dtype=jnp.float32)}
            tang = {"mean": jnp.asarray(dm, dtype=jnp.float32), "chol_cov": jnp.asarray(dC, dtype=jnp.float32)}
            d = el.jvp_estimate(jax.tree.map(Dual, prim, tang))
        else:
            el = elbo_factory(target, mean_field_normal_family(nd, "reparam"), cons, ())
            # params = [means, log_stds]; d std = std * d log_std
            dls = [dC[i][i] for i in range(nd)]
            for i in range(nd):
                dC[i][i] = C[i][i] * dls[i]
            prim = jnp.asarray(m + [dk[i] * math.log(2.0) for i in range(nd)], dtype=jnp.float32)
            tang = jnp.asarray(dm + dls, dtype=jnp.float32)
            d = el.jvp_estimate(Dual(prim, tang))
            # elbo_vi is optimize_vi on elbo_factory's objective (same scripted noise => same iterates)
            r1 = elbo_vi(target, mean_field_normal_family(nd, "reparam"), prim, cons, (), learning_rate=0.125, n_iterations=2)
            r2 = optimize_vi(el, prim, learning_rate=0.125, n_iterations=2)
            if not np.allclose(np.asarray(r1.final_params), np.asarray(r2.final_params), rtol=1e-5, atol=1e-6):
                raise ValueError("elbo_vi differs from optimize_vi(elbo_factory(...))")
        c["C"], c["dC"] = C, dC
        # remove the transcendental constants: + (1/2) ln 2 pi - sum_i ln C_ii
        c["p"] = fr(float(d.primal) + 0.5 * math.log(2 * math.pi) - sum(dk) * math.log(2.0))
        c["t"] = fr(float(d.tangent))
    except Exception as e:  # noqa: BLE001
        c["err"] = type(e).__name__ + ": " + str(e)[:200]
    finally:
        adev.multivariate_normal = saved
    return c


def main():
    out, sd, n = sys.argv[1], int(sys.argv[2]), int(sys.argv[3])
    rng = random.Random(sd)
    cases = []
    only_fam = len(sys.argv) > 4 and sys.argv[4] == "fam"
    for i in range(n):
        if only_fam:
            cases.append(fam_case(rng))
            continue
        cases.append(fam_case(rng) if i % 4 == 3 else elbo_nested_case(rng) if i % 5 == 1 else elbo_case(rng) if i % 3 != 2 else vi_case(rng))
    json.dump(cases, open(out, "w"))


if __name__ == "__main__":
    main()
