"""C17 cases: the ELBO objective per scripted draw of the family; optimize_vi on deterministic objectives.
usage: worker_vi.py OUT.json SEED N"""
from __future__ import annotations

import json
import random
import sys
from fractions import Fraction

import jax
import jax.numpy as jnp
import numpy as np

import genjax.adev as adev
from genjax import categorical, expectation, gen
from genjax.core import distribution
from genjax.inference.vi import elbo_factory, optimize_vi, elbo_vi

from gfi_build import LN2, _dy_logits, build, canon_cm, canon_val, ev, name
from worker_smc import make_fn


def fr(x):
    f = Fraction(float(x))
    return [f.numerator, f.denominator]


def elbo_case(rng):
    naddr = rng.choice([2, 3, 3, 4])
    addrs = list(range(naddr))
    obs = sorted(rng.sample(addrs, rng.randint(1, naddr - 1)))
    latent = [a for a in addrs if a not in obs]
    overlap = rng.random() < 0.2      # the family also proposes an observed address: its value wins
    fam_addrs = latent + ([rng.choice(obs)] if overlap else [])
    nt, nq = rng.choice([1, 2]), rng.choice([1, 2])
    target = make_fn(rng, nt, rng.sample(addrs, naddr))
    family = make_fn(rng, nq, fam_addrs)
    targs = [rng.randint(0, 2) for _ in range(nt)]
    qargs = [rng.randint(0, 2) for _ in range(nq)]
    cons = {name(a): rng.randint(0, 2) for a in obs}
    tape = [rng.randint(0, 2) for _ in fam_addrs]
    it = iter(tape)
    c = {"kind": "elbo", "target": target, "family": family, "targs": targs, "qargs": qargs, "tape": tape,
         "overlap": overlap, "nlatent": len(latent)}
    try:
        dy_r = distribution(
            adev.reinforce(lambda p: jnp.asarray(next(it), dtype=jnp.int32),
                           lambda v, p: categorical.logpdf(v, _dy_logits(p)),
                           lambda key, p, sample_shape=(): categorical.sample(_dy_logits(p))),
            lambda v, p: categorical.logpdf(v, _dy_logits(p)))

        def fam_src(constraint, *params):
            env = list(params)
            p = family[1]
            while p[0] == "call":
                _, a, sub, argexprs, k = p
                env.append(dy_r(*[ev(x, env) for x in argexprs]) @ name(a))
                p = k
            return ev(p[1], env)
        fam = gen(fam_src)
        cons_j = {k: jnp.int32(v) for k, v in cons.items()}
        el = elbo_factory(build(target), fam, cons_j, tuple(jnp.float32(a) for a in targs))
        v = float(el.estimate(*[jnp.float32(a) for a in qargs])) / LN2
        if abs(v - round(v)) > 1e-3:
            raise ValueError("non-dyadic")
        c["value"] = int(round(v))
        c["cons"] = canon_cm(target, cons)
    except Exception as e:  # noqa: BLE001
        c["err"] = type(e).__name__ + ": " + str(e)[:200]
    return c


def vi_case(rng):
    a = rng.choice([0.5, 1.0, 2.0])
    b = rng.choice([-1.0, 0.5, 3.0])
    lr = rng.choice([0.0, 0.125, 0.25, 0.5])
    n = rng.choice([1, 2, 3, 5, 8])
    init = rng.choice([-2.0, 0.0, 1.0, 4.0])
    vec = rng.random() < 0.4
    c = {"kind": "vi", "a": a, "b": b, "lr": lr, "n": n, "init": init, "vec": vec}
    try:
        @expectation
        def obj(p):
            return -a * jnp.sum((p - b) ** 2)
        p0 = jnp.asarray([init, init + 1.0]) if vec else jnp.float32(init)
        res = optimize_vi(obj, p0, learning_rate=lr, n_iterations=n)
        hist = np.asarray(res.param_history)
        fin = np.asarray(res.final_params)
        if vec:
            c["hist"] = [fr(h[0]) for h in hist]
            c["final"] = fr(fin[0])
            # second coordinate starts at init+1: independent recurrence, checked against the first by shift
            c["shape_ok"] = bool(hist.shape == (n, 2) and int(res.n_iterations.value) == n)
        else:
            c["hist"] = [fr(h) for h in hist]
            c["final"] = fr(fin)
            c["shape_ok"] = bool(hist.shape == (n,) and int(res.n_iterations.value) == n)
    except Exception as e:  # noqa: BLE001
        c["err"] = type(e).__name__ + ": " + str(e)[:200]
    return c


def main():
    out, sd, n = sys.argv[1], int(sys.argv[2]), int(sys.argv[3])
    rng = random.Random(sd)
    cases = []
    for i in range(n):
        cases.append(elbo_case(rng) if i % 3 != 2 else vi_case(rng))
    json.dump(cases, open(out, "w"))


if __name__ == "__main__":
    main()
