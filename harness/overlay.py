"""JAX-0.7 -> JAX-0.11 compatibility overlay for running /repo's genjax.

/repo targets JAX 0.7; the sandbox has JAX 0.11.1 in which a handful of internal
names moved.  The overlay copies /repo/src/genjax (current working tree) to a
scratch directory and applies a fixed list of textual substitutions that only
rename APIs.  Nothing is ever written to /repo.  The scratch copy is rebuilt on
every check run, so edits to /repo are what gets executed.

Each substitution is (file glob, anchor regex, replacement, expected count).  A
substitution whose anchor no longer matches is recorded (not an error): the code
is then run as it is and whatever it does is the implementation's behaviour.
"""
from __future__ import annotations

import os
import re
import shutil
import tempfile

REPO_SRC = os.environ.get("GENJAX_VERIF_SRC", "/repo/src")

COMPAT_HELPER = '''

def _compat_scan_counts(params, invals):
    """JAX>=0.10: scan params carry a FlatTree `ft_in` instead of num_consts/num_carry."""
    if "num_consts" in params:
        return params["num_consts"], params["num_carry"]
    c, k, x = params["ft_in"].unpack()
    return len(c.vals), len(k.vals)
'''

SCAN_RE = r'num_consts = params\["num_consts"\]\n(\s*)num_carry = params\["num_carry"\]'
SCAN_REPL = r'num_consts, num_carry = _compat_scan_counts(params, invals)'

SUBS = [
    # file, anchor regex, replacement, expected
    ("pjax.py", r"return jc\.get_aval\(x\)", "return jax.typeof(x)", 1),
    ("pjax.py", r"jc\.DropVar", "jex.core.DropVar", 1),
    ("pjax.py", r"var\.count", "id(var)", 5),
    ("pjax.py", r"subfuns, params = eqn\.primitive\.get_bind_params\(eqn\.params\)",
     "subfuns, params = [], eqn.primitive.get_bind_params(eqn.params)", 4),
    ("state.py", r"subfuns, params = eqn\.primitive\.get_bind_params\(eqn\.params\)",
     "subfuns, params = [], eqn.primitive.get_bind_params(eqn.params)", 1),
    ("adev/__init__.py", r"subfuns, params = eqn\.primitive\.get_bind_params\(eqn\.params\)",
     "subfuns, params = [], eqn.primitive.get_bind_params(eqn.params)", 2),
    ("pjax.py", SCAN_RE, SCAN_REPL, 2),
    ("state.py", SCAN_RE, SCAN_REPL, 1),
    ("pjax.py",
     r"primals_out, tangents_out = ad\.jvp\(\n\s*lu\.wrap_init\(impl, params, debug_info=debug_info\)\n\s*\)\.call_wrapped\(flat_primals, flat_tangents\)",
     "primals_out, tangents_out = jax.jvp(lambda *a: impl(*a, **params), tuple(flat_primals), "
     "tuple(ad.instantiate_zeros(t) for t in flat_tangents))", 1),
    ("adev/__init__.py", r"jax\._src\.core\.get_aval\(v\)", "jax.typeof(v)", 1),
    ("adev/__init__.py", r"jax_autodiff\.Zero\.from_primal_value\((\w+)\)",
     r"jax_autodiff.Zero(jax.typeof(\1).to_tangent_aval())", 2),
]


def build(dest_root: str | None = None):
    """Copy genjax from the working tree into a scratch dir and patch it.

    Returns (pythonpath_dir, report) where report lists match counts."""
    root = dest_root or tempfile.mkdtemp(prefix="genjax-overlay-")
    dst = os.path.join(root, "genjax")
    if os.path.exists(dst):
        shutil.rmtree(dst)
    shutil.copytree(os.path.join(REPO_SRC, "genjax"), dst,
                    ignore=shutil.ignore_patterns("__pycache__", "viz"))
    # viz pulls matplotlib/seaborn; keep a stub so `import genjax` works the same way
    src_viz = os.path.join(REPO_SRC, "genjax", "viz")
    if os.path.isdir(src_viz):
        shutil.copytree(src_viz, os.path.join(dst, "viz"),
                        ignore=shutil.ignore_patterns("__pycache__"))
    report = []
    texts = {}
    for fn, pat, repl, expected in SUBS:
        path = os.path.join(dst, fn)
        if not os.path.exists(path):
            report.append({"file": fn, "anchor": pat, "matched": 0, "expected": expected})
            continue
        txt = texts.get(path)
        if txt is None:
            with open(path) as f:
                txt = f.read()
        txt, n = re.subn(pat, repl, txt)
        texts[path] = txt
        report.append({"file": fn, "anchor": pat[:50], "matched": n, "expected": expected})
    for path, txt in texts.items():
        if "_compat_scan_counts(" in txt:
            # add the helper after the imports (top-level, before first class/def that uses it)
            txt = txt + COMPAT_HELPER
        with open(path, "w") as f:
            f.write(txt)
    return root, report


def env_for(root: str):
    e = dict(os.environ)
    e["PYTHONPATH"] = root + os.pathsep + os.path.dirname(os.path.abspath(__file__))
    e["PYTHONHASHSEED"] = "0"
    e["JAX_PLATFORMS"] = "cpu"
    e["GENJAX_VERIF"] = "1"
    e.pop("PYTHONSTARTUP", None)
    return e


if __name__ == "__main__":
    import json, sys
    r, rep = build(sys.argv[1] if len(sys.argv) > 1 else None)
    print(r)
    print(json.dumps(rep, indent=1))
