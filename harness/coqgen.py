"""JSON cases -> Gallina data (for coq/Model/Corr.v)."""
from __future__ import annotations


def z(n):
    return f"({int(n)})%Z"


def n(x):
    return f"{int(x)}%nat"


def val(v):
    if v is None:
        return "VNone"
    if isinstance(v, bool):
        return f"(VB {'true' if v else 'false'})"
    if isinstance(v, (list, tuple)):
        return "(VTup [" + "; ".join(val(x) for x in v) + "])"
    return f"(VZ {z(v)})"


def args(vs):
    return "(VTup [" + "; ".join(val(v) for v in vs) + "])"


def addr(a):
    return f"(AName {n(a[1])})" if a[0] == "n" else f"(ALane {n(a[1])})"


def cm(x):
    if "leaf" in x:
        return f"(CLeaf {val(x['leaf'])})"
    if "none" in x:
        raise ValueError("None leaf in a choice map")
    return "(CNode [" + "; ".join(f"({addr(a)}, {cm(v)})" for a, v in x["node"]) + "])"


def ocm(x):
    return "None" if x is None else f"(Some {cm(x)})"


def dm(x):
    if "leaf" in x:
        return f"(DLeaf {val(x['leaf'])})"
    if "none" in x:
        return "DNone"
    return "(DNode [" + "; ".join(f"({addr(a)}, {dm(v)})" for a, v in x["node"]) + "])"


KWV = [None]      # value of the enclosing function's keyword parameter (a literal chosen by the generator)


def expr(e):
    t = e[0]
    if t == "k":
        return f"(EK {z(e[1])})"
    if t == "kwv":
        # the callee's keyword parameter: the call site always passes this literal by keyword
        return f"(EK {z(KWV[0])})"
    if t == "v":
        return f"(EV {n(e[1])})"
    if t in ("add", "sub", "mul", "gt"):
        c = {"add": "EAdd", "sub": "ESub", "mul": "EMul", "gt": "EGt"}[t]
        return f"({c} {expr(e[1])} {expr(e[2])})"
    if t in ("tup", "arr"):
        return "(ETup [" + "; ".join(expr(x) for x in e[1]) + "])"
    if t == "idx":
        return f"(EIdx {expr(e[1])} {n(e[2])})"
    raise ValueError(t)


def gast(g):
    t = g[0]
    if t == "dist":
        return f"(ADist {n(g[1])})"
    if t == "fn":
        saved = KWV[0]
        KWV[0] = g[2]["kw"] if len(g) > 2 else None
        try:
            return f"(AFn {past(g[1])})"
        finally:
            KWV[0] = saved
    if t == "cond":
        return f"(ACond {gast(g[1])} {gast(g[2])})"
    if t == "vmap":
        ax = "[" + "; ".join("true" if b else "false" for b in g[2]) + "]"
        return f"(AVmap {n(g[1])} {ax} {gast(g[3])})"
    if t == "scan":
        return f"(AScan {n(g[1])} {gast(g[2])})"
    raise ValueError(t)


def past(p):
    if p[0] == "ret":
        return f"(PRet {expr(p[1])})"
    _, a, sub, argexprs, k = p
    return (f"(PCall {n(a)} {gast(sub)} [" + "; ".join(expr(x) for x in argexprs) + f"] {past(k)})")


def sel(s):
    t = s[0]
    if t == "all":
        return "SAll"
    if t == "none":
        return "SNone"
    if t == "str":
        return f"(SStr {n(s[1])})"
    if t == "tup":
        return "(STup [" + "; ".join(n(a) for a in s[1]) + "])"
    if t == "dict":
        return "(SDict [" + "; ".join(f"({n(a)}, {sel(x)})" for a, x in s[1]) + "])"
    if t == "compl":
        return f"(SCompl {sel(s[1])})"
    if t == "in":
        return f"(SIn {sel(s[1])} {sel(s[2])})"
    if t == "or":
        return f"(SOr {sel(s[1])} {sel(s[2])})"
    raise ValueError(t)


def tobs(o):
    return f"({cm(o['choices'])}, {z(o['score'])}, {val(o['ret'])})"


def res(o, f):
    if "err" in o:
        return "(Err EOther)"
    return f"(Ok {f(o['ok'])})"


def gcase(c):
    k = c["kind"]
    g = gast(c["g"])
    a = args(c["args"])
    if k == "sim":
        return f"CSim {g} {a} {res(c['obs'], tobs)}"
    if k == "assess":
        return (f"CAssess {g} {cm(c['x'])} {a} "
                + res(c["obs"], lambda o: f"({z(o['w'])}, {val(o['ret'])})"))
    if k == "gen":
        return (f"CGen {g} {ocm(c['x'])} {a} "
                + res(c["obs"], lambda o: f"({tobs(o['tr'])}, {z(o['w'])})"))
    if k == "hist":
        ops = []
        for op in c["ops"]:
            if op["op"] == "upd":
                ops.append(f"OUpd {ocm(op['x'])} {args(op['args'])}")
            elif op["op"] == "regen":
                ops.append(f"ORegen {sel(op['sel'])} {args(op['args'])}")
            else:
                ops.append(f"OBack {args(op['args'])}")
        obs = [res(o, lambda o: f"({tobs(o['tr'])}, {z(o['w'])}, {dm(o['d'])})") for o in c["obs"]]
        return f"CHist {g} {a} [" + "; ".join(ops) + "] [" + "; ".join(obs) + "]"
    raise ValueError(k)


def cases_file(cases, name="cases"):
    lines = ["From GV Require Import Model.Corr.", 
             f"Definition {name} : list gcase := ["]
    lines.append(";\n".join("  " + gcase(c) for c in cases))
    lines.append("].")
    lines.append(f"Definition result := Eval vm_compute in report {name}.")
    lines.append("Print result.")
    return "\n".join(lines) + "\n"
