"""C20: exact state-space baselines.  Models: coq/Model/Hmm.v, Kalman.v; theorems: coq/Properties/C20.v;
correspondence + spec judgement: worker_ssm.py (native) + coq/Model/CorrSsm.v."""
from __future__ import annotations

import json
import os
import subprocess
from collections import Counter

import common
from coqgen import n

SRC = ["src/genjax/extras/state_space.py"]


def q(fr):
    return f"({fr[0]} # {fr[1]})%Q"


def ql(l):
    return "[" + "; ".join(q(v) for v in l) + "]"


def qm(m):
    return "[" + "; ".join(ql(r) for r in m) + "]"


def ssmcase(c):
    if "err" in c:
        return "CFlagS false"
    if c["kind"] == "hmm_step":
        if not c.get("consistent"):
            return "CFlagS false"
        ys = "[" + "; ".join(n(y) for y in c["ys"]) + "]"
        path = "[" + "; ".join(n(y) for y in c["path"]) + "]"
        return f"CHmmStep {n(c['K'])} {ql(c['pi0'])} {qm(c['A'])} {qm(c['E'])} {ys} {path} {q(c['stepp'])}"
    if c["kind"] == "lg_step":
        s_ = (f"{{| m0 := {ql(c['m0'])}; P0 := {qm(c['P0'])}; A_ := {qm(c['A'])}; Q_ := {qm(c['Q'])}; "
              f"C_ := {qm(c['C'])}; R_ := {qm(c['R'])} |}}")
        return f"CLgStep {s_} {qm(c['xs'])} {qm(c['ys'])} {q(c['lp'])}"
    if c["kind"] == "hmm_long":
        # decided by the Interval-based file (run_long); here only non-finite results are flagged
        return "CFlagS true" if c.get("skip") or c.get("finite") else "CFlagS false"
    if c["kind"] == "hmm":
        if not c["bs_path_ok"]:
            return "CFlagS false"
        ys = "[" + "; ".join(n(y) for y in c["ys"]) + "]"
        path = "[" + "; ".join(n(y) for y in c["path"]) + "]"
        return (f"CHmm {n(c['K'])} {ql(c['pi0'])} {qm(c['A'])} {qm(c['E'])} {ys} {qm(c['filt'])} {q(c['marg'])} "
                f"{path} {q(c['seqp'])} {q(c['ffbsp'])}")
    if not c["finite"]:
        return "CFlagS false"
    s = (f"{{| m0 := {ql(c['m0'])}; P0 := {qm(c['P0'])}; A_ := {qm(c['A'])}; Q_ := {qm(c['Q'])}; "
         f"C_ := {qm(c['C'])}; R_ := {qm(c['R'])} |}}")
    fc = "[" + "; ".join(qm(m) for m in c["fc"]) + "]"
    sc = "[" + "; ".join(qm(m) for m in c["sc"]) + "]"
    return f"CKal {n(c.get('unit', 0))} {s} {qm(c['ys'])} {qm(c['fm'])} {fc} {qm(c['sm'])} {sc} {q(c['lml'])}"


def run(ctx):
    nn = 60 if ctx.tier == "quick" else 600
    shards = 4 if ctx.tier == "quick" else 12
    env = dict(os.environ)
    env["PYTHONPATH"] = os.path.join(common.REPO, "src") + os.pathsep + common.HARNESS
    env["JAX_PLATFORMS"] = "cpu"
    env["PYTHONHASHSEED"] = "0"
    procs = []
    for k in range(shards):
        out = os.path.join(ctx.scratch, f"ssm_{k}.json")
        procs.append((out, subprocess.Popen([common.PY, os.path.join(common.HARNESS, "worker_ssm.py"), out,
                                             str(ctx.seed * 100 + k), str((nn + shards - 1) // shards), ctx.tier],
                                            env=env, stdout=subprocess.PIPE, stderr=subprocess.PIPE, text=True,
                                            cwd=ctx.scratch)))
    cases, files, worker_errs = [], [], []
    for k, (out, pr) in enumerate(procs):
        so, se = pr.communicate(timeout=3000)
        if pr.returncode != 0 or not os.path.exists(out):
            worker_errs.append(se[-1500:])
            continue
        cs = json.load(open(out))
        vf = os.path.join(ctx.scratch, f"cases_ssm_{k}.v")
        open(vf, "w").write("From Coq Require Import QArith List. Import ListNotations.\n"
                            "From GV Require Import Model.Mat Model.Kalman Model.CorrSsm.\n"
                            "Definition cases : list ssmcase := [\n" + ";\n".join("  " + ssmcase(c) for c in cs)
                            + "].\nDefinition result := Eval vm_compute in ssmreport cases.\nPrint result.\n")
        files.append((vf, len(cases)))
        cases.extend(cs)
    res = common.eval_cases_files([f for f, _ in files])
    bad, coq_errs = [], []
    for vf, off in files:
        r = res[vf]
        if "error" in r:
            coq_errs.append(r["error"])
        else:
            bad += [(off + i, a, s, x) for (i, a, s, x) in r["bad"]]
    # --- the step models (discrete_hmm / linear_gaussian @gen functions) iterated through assess: overlay run
    import overlay
    root = ctx.ensure_overlay()
    oenv = overlay.env_for(root)
    oenv["PYTHONPATH"] = root + os.pathsep + common.HARNESS
    sout = os.path.join(ctx.scratch, "ssm_steps.json")
    pr_ = subprocess.run([common.PY, os.path.join(common.HARNESS, "worker_ssm_steps.py"), sout, str(ctx.seed * 100 + 9),
                          str(16 if ctx.tier == "quick" else 160)], env=oenv, capture_output=True, text=True, cwd=ctx.scratch)
    if pr_.returncode != 0 or not os.path.exists(sout):
        worker_errs.append(pr_.stderr[-1500:])
    else:
        scs = json.load(open(sout))
        svf = os.path.join(ctx.scratch, "cases_ssm_steps.v")
        open(svf, "w").write("From Coq Require Import QArith List. Import ListNotations.\n"
                             "From GV Require Import Model.Mat Model.Kalman Model.CorrSsm.\n"
                             "Definition cases : list ssmcase := [\n" + ";\n".join("  " + ssmcase(c) for c in scs)
                             + "].\nDefinition result := Eval vm_compute in ssmreport cases.\nPrint result.\n")
        sr = common.eval_cases_files([svf])[svf]
        off = len(cases)
        cases.extend(scs)
        if "error" in sr:
            coq_errs.append(sr["error"])
        else:
            bad += [(off + i, a, s_, x) for (i, a, s_, x) in sr["bad"]]
    # --- long sequences: Interval decides |log marginal - ln(exact rational marginal)| <= tol
    long_idx = [i for i, c in enumerate(cases) if c["kind"] == "hmm_long" and not c.get("skip") and c.get("finite") and "err" not in c]
    verdicts = Counter()
    if long_idx:
        import re
        from concurrent.futures import ThreadPoolExecutor

        def one(i):
            c = cases[i]
            ys = "[" + "; ".join(n(y) for y in c["ys"]) + "]"
            line = f"hmm_long {n(i)} {n(c['K'])} {ql(c['pi0'])} {qm(c['A'])} {qm(c['E'])} {ys} {q(c['lm'])} {q(c['tol'])} {ql(c['filt'])}."
            vf = os.path.join(ctx.scratch, f"cases_ssm_long_{i}.v")
            open(vf, "w").write("From Coq Require Import Reals QArith List. Import ListNotations.\n"
                                "From GV Require Import Model.CorrSsmLong.\nGoal True.\n" + line + "\nexact I.\nQed.\n")
            return subprocess.run(["timeout", "1500", "coqc", "-Q", common.COQ, "GV", vf], capture_output=True, text=True)
        with ThreadPoolExecutor(max_workers=12) as ex:
            prs = list(ex.map(one, long_idx))
        out = "\n".join(p_.stdout + p_.stderr for p_ in prs)
        pr = max(prs, key=lambda p_: p_.returncode)
        got = {int(i): v for i, v in re.findall(r"CASE (\d+)(?:%nat)? (OK|BADFILTER|BAD|UNDECIDED)", out)}
        if pr.returncode != 0:
            coq_errs.append(out[-1500:])
        else:
            for i in long_idx:
                v = got.get(i)
                verdicts[v] += 1
                if v == "OK":
                    continue
                if v in ("BAD", "BADFILTER"):
                    bad.append((i, False, False, False))
                elif v == "UNDECIDED":
                    bad.append((i, False, True, True))
                else:
                    coq_errs.append(f"long case {i}: no verdict")
        bad.sort()
    nt = len({json.dumps({k: v for k, v in c.items() if k in ("K", "ys", "A", "E", "C", "P0", "ds", "do")}, sort_keys=True)
              for c in cases if "err" not in c and len(c["ys"]) >= 2})
    return {"cases": cases, "bad": bad, "worker_errs": worker_errs, "coq_errs": coq_errs,
            "coverage": {"evaluations": len(cases), "distinct_nontrivial": nt,
                         "rule": "HMM: random rational initial / transition / emission tables (1-4 states, 2-4 symbols, 40% with sparse transition rows), sequences of length "
                                 "1-5: filtering distributions, marginal likelihood, sequence probability of a reachable path and the probability backward sampling assigns to it "
                                 "(logits recorded under scripted draws) compared with the forward-recursion model AND with brute-force enumeration of all state sequences; "
                                 "step models: discrete_hmm and linear_gaussian iterated over time through assess (overlay run) on a state path / state sequence and observations: the summed log density against "
                                 "the joint of the HMM model resp. the chain-rule Gaussian density (quadratic forms and determinants in exact rationals, exp enclosures), and the returned carry; "
                                 "HMM long: 2-3 states, 3-4 symbols, sequences of length 75-110 (quick) or 120-180 (thorough), log marginal around -100 or lower, far below the float32 exp underflow: log marginal compared with ln of the exact rational "
                                 "marginal of the vector recursion by the Interval tactic (tolerance 0.02 + 5e-5|lm|), last filtering distribution in probability space; "
                                 "Kalman: random rational models with d_state, d_obs in 1..3 (70% with d_obs != d_state), T in 1..4, also expressed in units of 10^-k (k<=5) and with integer-dtype observation arrays: filtered and smoothed moments and the log "
                                 "marginal likelihood compared with the recursion model AND with dense joint-Gaussian conditioning (tolerance 2e-4, lml through rational exp "
                                 "enclosures); non-trivial = distinct case with T >= 2",
                         "histogram": {"kinds": Counter(c["kind"] for c in cases),
                                       "T": Counter(len(c["ys"]) for c in cases), "long_verdicts": verdicts,
                                       "long_log_marginals": sorted(round(c["log_marginal_float"], 1) for c in cases if "log_marginal_float" in c)[:6],
                                       "dims": Counter(f"{c.get('ds')}x{c.get('do')}" for c in cases if c["kind"] == "kal"),
                                       "kalman_units": Counter(f"1e-{c.get('unit')}" for c in cases if c["kind"] == "kal"),
                                       "kalman_int_observations": sum(1 for c in cases if c["kind"] == "kal" and c.get("intobs")),
                                       "errors": Counter(c.get("err", "")[:70] for c in cases if "err" in c)},
                         "samples": [{k: v for k, v in c.items() if k not in ("filt", "fc", "sc", "fm", "sm")} for c in cases[:2]]}}
