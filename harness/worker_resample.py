"""C12 cases: systematic_resample with a scripted offset; resample() on particle collections.
usage: worker_resample.py OUT.json SEED TIER"""
from __future__ import annotations

import json
import math
import random
import sys
import types
from fractions import Fraction

import jax
import jax.numpy as jnp
import jax.tree_util as jtu
import numpy as np

import genjax.inference.smc as smc
from genjax import gen, seed, const
from genjax.core import distribution

tape = distribution(lambda t, p: t, lambda v, t, p: -jnp.abs(v - p), name="tape")


@gen
def model(t1, t2):
    x = tape(t1, 0.0) @ "x"
    y = tape(t2, x) @ "y"
    return x + y


def frac(x):
    f = Fraction(float(x))
    return [f.numerator, f.denominator]


def gen_weights(rng, n):
    kind = rng.choice(["dyadic", "int", "degenerate", "zeros", "uniform", "near", "deadtail"])
    if kind == "dyadic":
        ws = [2 ** rng.randint(0, 3) for _ in range(n)]
    elif kind == "int":
        ws = [rng.randint(1, 7) for _ in range(n)]
    elif kind == "degenerate":
        ws = [0] * n
        ws[rng.randrange(n)] = rng.randint(1, 5)
    elif kind == "zeros":
        ws = [rng.choice([0, 0, 1, 3]) for _ in range(n)]
        if sum(ws) == 0:
            ws[rng.randrange(n)] = 2
    elif kind == "deadtail":
        # equal weights followed by dead (zero-weight) particles: the float32 cumulative sum often ends below 1
        j = rng.randint(0, min(2, n - 1))
        ws = [1] * (n - j) + [0] * j
    elif kind == "uniform":
        ws = [3] * n
    else:
        ws = [100 + rng.randint(-1, 1) for _ in range(n)]
    return kind, ws


def main():
    out, sd, tier = sys.argv[1], int(sys.argv[2]), sys.argv[3]
    rng = random.Random(sd)
    cases = []
    nsys = 150 if tier == "quick" else 1500
    orig_uniform = smc.uniform
    tries = 0
    while len([c for c in cases if c["kind"] == "sys"]) < nsys and tries < 20 * nsys:
        tries += 1
        n = rng.randint(1, 8)
        m = rng.choice([n, n, rng.randint(1, 8)])          # number of draws may differ from number of weights
        kind, ws = gen_weights(rng, n)
        T = sum(ws)
        b = rng.choice([64, 128, 97, 1000])
        a = rng.randint(1, b - 1)
        extreme = rng.random() < 0.2
        if extreme:
            # offsets at the ends of (0,1): the largest / smallest float32 values inside the interval and near them
            b = 2 ** 24
            a = rng.choice([b - 1, b - 1, b - 2, b - 16, 1, 2])
            if rng.random() < 0.5:
                kind, ws = kind + "+uniform-dead-tail", [1] * rng.choice([3, 6, 7]) + [0] * rng.randint(0, 2)
                n = len(ws)
                m = n
                T = sum(ws)
        # skip exact ties between a position and a cumulative weight (float rounding decides them); the total
        # weight is not such a tie: every position lies strictly below it, whatever the rounding
        cs, acc, tie = [], 0, False
        for w in ws:
            acc += w
            cs.append(acc)
        margin = min([abs((j * b + a) * T - c * m * b) for j in range(m) for c in cs if c != T] + [m * b * T]) / (m * b * T)
        if margin < 2e-6:
            continue
        # a common offset of the log weights (large ones are the normal state of a filter that has not
        # resampled for a while): resampling is invariant under it
        shift = rng.choice([0.0, 3.0, -7.5, -150.0, 120.0, -1000.0, 80.0])
        lw = jnp.log(jnp.asarray(ws, dtype=jnp.float32)) + shift
        smc.uniform = types.SimpleNamespace(sample=lambda lo, hi, a=a, b=b: jnp.float32(lo) + jnp.float32(a / b) * (jnp.float32(hi) - jnp.float32(lo)))
        try:
            idx = [int(i) for i in np.asarray(smc.systematic_resample(lw, m))]
            cases.append({"kind": "sys", "ws": ws, "N": m, "a": a, "b": b, "idx": idx, "wkind": kind, "shift": shift})
        except Exception as e:  # noqa: BLE001
            cases.append({"kind": "sys", "ws": ws, "N": m, "a": a, "b": b, "err": type(e).__name__ + str(e)[:100]})
        finally:
            smc.uniform = orig_uniform
    nres = 30 if tier == "quick" else 300
    for k in range(nres):
        n = rng.randint(1, 7)
        kind, ws = gen_weights(rng, n)
        t1 = jnp.asarray([10.0 * i + 1 for i in range(n)], dtype=jnp.float32)
        t2 = jnp.asarray([10.0 * i + 2 for i in range(n)], dtype=jnp.float32)
        tr = model.vmap(in_axes=(0, 0)).simulate(t1, t2)
        shift2 = rng.choice([0.0, 1.5, -4.0, -30.0, 40.0])
        lw = jnp.log(jnp.asarray(ws, dtype=jnp.float32)) + shift2
        est = jnp.float32(rng.choice([0.0, -2.25, 3.5]))
        # stored diagnostic weights are deliberately stale (as after rejuvenate / a previous resample)
        stale = jnp.log(jnp.asarray(list(reversed(gen_weights(rng, n)[1])), dtype=jnp.float32))
        pc = smc.ParticleCollection(traces=tr, log_weights=lw,
                                    diagnostic_weights=stale, n_samples=const(n),
                                    log_marginal_estimate=est)
        method = rng.choice(["systematic", "categorical"])
        c = {"kind": "res", "ws": ws, "method": method, "n": n, "wkind": kind, "shift": shift2}
        b = rng.choice([64, 128, 97])
        a = rng.randint(1, b - 1)
        T = sum(ws)
        cs_, acc_ = [], 0
        for w_ in ws:
            acc_ += w_
            cs_.append(acc_)
        if method == "systematic":
            if rng.random() < 0.25:
                b = 2 ** 24
                a = rng.choice([b - 1, b - 1, b - 2, 1])
            margin = min([abs((j * b + a) * T - cc * n * b) for j in range(n) for cc in cs_ if cc != T] + [n * b * T]) / (n * b * T)
            if margin < 2e-6:
                continue
            smc.uniform = types.SimpleNamespace(sample=lambda lo, hi, a=a, b=b: jnp.float32(lo) + jnp.float32(a / b) * (jnp.float32(hi) - jnp.float32(lo)))
            c["a"], c["b"] = a, b
        try:
            out_pc = seed(lambda: smc.resample(pc, method=method))(jax.random.key(rng.randrange(10 ** 6)))
            smc.uniform = orig_uniform
            fin = [np.asarray(l).reshape(n, -1)[:, 0] for l in jtu.tree_leaves(tr) if np.ndim(l) >= 1]
            fout = [np.asarray(l).reshape(n, -1)[:, 0] for l in jtu.tree_leaves(out_pc.traces) if np.ndim(l) >= 1]
            c["fin"] = [[int(v) for v in f] for f in fin]
            c["fout"] = [[int(v) for v in f] for f in fout]
            c["wz"] = bool(np.all(np.asarray(out_pc.log_weights) == 0.0)) and out_pc.log_weights.shape == (n,)
            c["lml0"] = frac(pc.log_marginal_likelihood())
            c["lml1"] = frac(out_pc.log_marginal_likelihood())
            expd = np.asarray(lw) - float(jax.scipy.special.logsumexp(lw))
            got = np.asarray(out_pc.diagnostic_weights)
            fin_mask = np.isfinite(expd)
            c["diag_ok"] = bool(np.allclose(got[fin_mask], expd[fin_mask], atol=1e-5)
                                and np.all(np.isneginf(got[~fin_mask])) and int(out_pc.n_samples.value) == n)
        except Exception as e:  # noqa: BLE001
            c["err"] = type(e).__name__ + ": " + str(e)[:200]
        finally:
            smc.uniform = orig_uniform
        cases.append(c)
    json.dump(cases, open(out, "w"))


if __name__ == "__main__":
    main()
