"""C19 cases: state/save/namespace over nested functions, scans and vmaps.
usage: worker_state.py OUT.json SEED N"""
from __future__ import annotations

import json
import random
import sys

import jax
import jax.numpy as jnp
import numpy as np

from genjax import seed
from genjax.state import namespace, save, state


def gen_block(rng, depth, in_ns, counter, maxlen=3):
    out = []
    for _ in range(rng.randint(1, maxlen)):
        r = rng.random()
        if depth <= 0 or r < 0.45:
            counter[0] += 1
            if rng.random() < 0.12:
                # leaf-mode save: the value becomes the entry of its own namespace
                # (ids 3-5, never used as a dictionary namespace)
                out.append(["ns", 3 + rng.randrange(3), [["saveleaf", counter[0]]]])
            else:
                out.append(["save", rng.randrange(3), counter[0]])
        elif r < 0.55:
            out.append(["det"])
        elif r < 0.72:
            out.append(["ns", rng.randrange(3), gen_block(rng, depth - 1, True, counter, 2)])
        elif r < 0.88:
            out.append(["scan", rng.choice([1, 2, 3]), gen_block(rng, depth - 1, False, counter, 2), rng.random() < 0.35])
        else:
            out.append(["vmap", rng.choice([1, 2, 3]), gen_block(rng, depth - 1, in_ns, counter, 2)])
    return out


def gen_directed(rng, counter):
    """several writers target the *same* namespace path with different names; each
    writer places a scan / vmap / nothing at a random point of the path, so merges of
    stacked scan states into already populated nested dictionaries are exercised"""
    path = [rng.randrange(3) for _ in range(rng.randint(1, 3))]
    out = []
    for w in range(rng.randint(2, 4)):
        counter[0] += 1
        j = rng.randint(0, len(path))
        if rng.random() < 0.25:
            sub = path[:rng.randint(1, len(path))]      # a writer at a prefix of the path
            j = min(j, len(sub))
        else:
            sub = path
        inner = [["save", w % 3 if rng.random() < 0.8 else rng.randrange(3), counter[0]]]
        for nsid in reversed(sub[j:]):
            inner = [["ns", nsid, inner]]
        kind = rng.choice(["scan", "scan", "vmap", "none"])
        if kind != "none":
            inner = [[kind, rng.choice([1, 2, 3]), inner] + ([rng.random() < 0.35] if kind == "scan" else [])]
        for nsid in reversed(sub[:j]):
            inner = [["ns", nsid, inner]]
        out += inner
    return out


def run_block(block, sc, lc, nv, x):
    """returns (the sum of the saved values, an order-sensitive small-integer hash of the scan positions
    visited) so that the function result depends on the program and on the direction of its scans"""
    tot = x * 0.0
    h = x * 0.0
    for s in block:
        t = s[0]
        if t == "save":
            v = x * 0.0 + s[2] * 1.0e6 + sc * (10.0 ** nv) + lc
            tot = tot + save(**{f"n{s[1]}": v})[f"n{s[1]}"]
        elif t == "saveleaf":
            v = x * 0.0 + s[1] * 1.0e6 + sc * (10.0 ** nv) + lc
            tot = tot + save(v)
        elif t == "det":
            tot = tot * 1.0 + 1.0
        elif t == "ns":
            a, b = namespace(lambda b=s[2]: run_block(b, sc, lc, nv, x), f"s{s[1]}")()
            tot, h = tot + a, h + b
        elif t == "scan":
            rv = len(s) > 3 and bool(s[3])

            # the saved values carry the execution step k (a carried counter), not the position i
            def body(carry, i, b=s[2]):
                c, k, hh = carry
                a, bh = run_block(b, sc * 10.0 + k + 1.0, lc, nv, x)
                return (c + a, k + 1.0, jnp.mod(hh * 3.0 + i + 1.0 + bh, 1021.0)), None
            (c, _, hh), _ = jax.lax.scan(body, (x * 0.0, x * 0.0, x * 0.0), jnp.arange(s[1], dtype=jnp.float32), reverse=rv)
            tot, h = tot + c, h + hh
        elif t == "vmap":
            r, rh = jax.vmap(lambda l, b=s[2]: run_block(b, sc, lc * 10.0 + l + 1.0, nv + 1, x))(
                jnp.arange(s[1], dtype=jnp.float32))
            tot, h = tot + jnp.sum(r), h + jnp.sum(rh)
    return tot, h


def canon_num(a):
    a = np.asarray(a)
    if a.ndim == 0:
        return int(round(float(a)))
    return [canon_num(x) for x in a]


def canon_tree(d):
    if isinstance(d, dict):
        return {"node": [[k, canon_tree(v)] for k, v in d.items()]}
    return {"leaf": canon_num(d)}


def main():
    out, sd, n = sys.argv[1], int(sys.argv[2]), int(sys.argv[3])
    rng = random.Random(sd)
    cases = []
    for _ in range(n):
        block = gen_directed(rng, [0]) if _ % 3 == 2 else gen_block(rng, 3, False, [0])
        f = lambda x: run_block(block, jnp.float32(0.0), jnp.float32(0.0), 0, x)  # noqa: E731
        c = {"block": block}
        try:
            x = jnp.float32(0.0)
            plain = f(x)
            r1, s1 = state(f)(x)
            r2, s2 = jax.jit(state(f))(x)
            r3, s3 = seed(state(f))(jax.random.key(0), x)
            # the same state(.) wrapper called again: first on a different program (selected by the argument's
            # rank) that saves other names, then on this one - the second result holds exactly this program's saves
            other = gen_directed(rng, [50]) if _ % 2 else gen_block(rng, 2, False, [50])
            sw = state(lambda a: run_block(other, jnp.float32(0.0), jnp.float32(0.0), 0, jnp.sum(a)) if jnp.ndim(a) else f(a))
            sw(jnp.zeros((2,), dtype=jnp.float32))
            r4, s4 = sw(x)
            first = sw(jnp.zeros((2,), dtype=jnp.float32))[1]
            r5, s5 = sw(x)
            # the result is a float32 sum of the saved values (up to ~1e8): equal up to summation order
            # and of an exact small-integer hash of the scan positions in visiting order
            close = lambda a, b: bool(jnp.abs(a[0] - b[0]) <= 1e-5 * (1.0 + jnp.abs(b[0]))) and bool(a[1] == b[1])  # noqa: E731
            c["transparent"] = close(plain, r1) and close(plain, r2) and close(plain, r3)
            c["transparent"] = c["transparent"] and close(plain, r4) and close(plain, r5)
            c["obs"] = [canon_tree(s1), canon_tree(s2), canon_tree(s3), canon_tree(s4), canon_tree(s5)]
        except Exception as e:  # noqa: BLE001
            c["err"] = type(e).__name__ + ": " + str(e)[:200]
        cases.append(c)
    json.dump(cases, open(out, "w"))


if __name__ == "__main__":
    main()
