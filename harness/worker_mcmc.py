"""C09 cases: mala / hmc with scripted noise, momentum and accept threshold on Gaussian
programs (compared with the rational model), mh accept rule on seeded discrete programs.
usage: worker_mcmc.py OUT.json SEED N"""
from __future__ import annotations

import json
import random
import sys
import types
from fractions import Fraction

import jax
import jax.numpy as jnp
import numpy as np

import genjax.inference.mcmc as mcmc
from genjax import gen, normal, seed, sel, Cond
from genjax.core import distribution
from genjax.distributions import uniform as real_uniform

from gfi_build import build_sel, name, STUBS


# a normal whose sampler returns a scripted ("tape") value: simulate / unconstrained generate give exact values
tnormal = distribution(lambda t, mu, sig: t + 0.0 * mu, lambda v, t, mu, sig: normal.logpdf(v, mu, sig), name="tnormal")


def fr(x):
    f = Fraction(float(x))
    return [f.numerator, f.denominator]


# ---- Gaussian programs -------------------------------------------------------
def qexpr(rng, nenv, depth=1):
    r = rng.random()
    if depth <= 0 or r < 0.45:
        if nenv and rng.random() < 0.8:
            return ["v", rng.randrange(nenv)]
        return ["k", rng.choice([-1, 0, 1, 2])]
    op = rng.choice(["add", "sub", "mulk"])
    if op == "mulk":
        return ["mulk", rng.choice([-1, 2, 0.5]), qexpr(rng, nenv, depth - 1)]
    return [op, qexpr(rng, nenv, depth - 1), qexpr(rng, nenv, depth - 1)]


def qev(e, env):
    t = e[0]
    if t == "k":
        return jnp.float32(e[1])
    if t == "v":
        return env[e[1]]
    if t == "add":
        return qev(e[1], env) + qev(e[2], env)
    if t == "sub":
        return qev(e[1], env) - qev(e[2], env)
    return jnp.float32(e[1]) * qev(e[2], env)


def make_model(rng):
    """Sites in program order: (path, mu expr over env=args+earlier sites, sigma).  Optionally the
    middle sites live in a sub-call at address 'a7' (hierarchical addresses)."""
    nargs = rng.choice([1, 2])
    nsites = rng.choice([2, 3, 3, 4])
    sites = []
    for i in range(nsites):
        sites.append({"a": i, "mu": qexpr(rng, nargs + i, 2), "sig": rng.choice([0.5, 1.0, 2.0])})
    nested = rng.random() < 0.4 and nsites >= 3
    lo, hi = (1, nsites - 1) if nested else (0, 0)
    for i, s in enumerate(sites):
        s["path"] = [7, s["a"]] if nested and lo <= i < hi else [s["a"]]
    if not nested and rng.random() < 0.45:
        # replace one site by a vectorized sub-call: L lanes at path a8/a<k>, one array-valued leaf
        i = rng.randrange(nsites)
        L = rng.choice([2, 3])
        base, sig, a = sites[i]["mu"], sites[i]["sig"], sites[i]["a"]
        # later sites were generated for an env with one slot per site: re-generate them for the wider env
        lanes = [{"a": a, "mu": ["add", base, ["k", c]], "sig": sig, "path": [8, a], "lane": l, "c": c, "base": base}
                 for l, c in enumerate(rng.sample([-1, 0, 1, 2], L))]
        tail = []
        for j in range(i + 1, nsites):
            nenv = nargs + i + L + (j - i - 1)
            tail.append({"a": sites[j]["a"], "mu": qexpr(rng, nenv, 2), "sig": sites[j]["sig"], "path": [sites[j]["a"]]})
        sites = sites[:i] + lanes + tail
    elif not nested and rng.random() < 0.45:
        # one site lives in a Cond sub-call (address a9) whose two branches share the site's address; the hidden
        # branch has another mean / sigma and - in a trace built without constraining it - another value
        i = rng.randrange(nsites)
        sites[i]["path"] = [9, sites[i]["a"]]
        sites[i]["cond"] = {"flag": rng.random() < 0.5, "hid_sig": rng.choice([0.5, 1.0, 2.0])}
    return {"nargs": nargs, "sites": sites, "nested": nested, "lo": lo, "hi": hi}


def build_model(md, kw=False, tape=None):
    """kw=True: the last model argument is a keyword parameter with a default (7.0) that the trace's
    recorded keyword arguments always override"""
    sites, nargs = md["sites"], md["nargs"]
    lo, hi = md["lo"], md["hi"]

    if md["nested"]:
        @gen
        def inner(*env):
            env = list(env)
            for s in sites[lo:hi]:
                env.append(normal(qev(s["mu"], env), s["sig"]) @ name(s["a"]))
            return tuple(env[-(hi - lo):])

    vsubs = {}
    for s0 in sites:
        if "lane" in s0 and s0["a"] not in vsubs:
            def mk(base, sig, a):
                @gen
                def vsub(c, *e):
                    return normal(qev(base, list(e)) + c, sig) @ name(a)
                return vsub
            vsubs[s0["a"]] = mk(s0["base"], s0["sig"], s0["a"])

    condgfs = {}
    for s0 in sites:
        if "cond" in s0:
            def mkc(s1):
                @gen
                def vis(t, *e):
                    return tnormal(t, qev(s1["mu"], list(e)), s1["sig"]) @ name(s1["a"])

                @gen
                def hid(t, *e):
                    return tnormal(t + 1.5, qev(s1["mu"], list(e)) + 1.0, s1["cond"]["hid_sig"]) @ name(s1["a"])
                return Cond(vis, hid) if s1["cond"]["flag"] else Cond(hid, vis)
            condgfs[s0["a"]] = mkc(s0)

    def body(env):
        i = 0
        while i < len(sites):
            if md["nested"] and i == lo:
                vals = inner(*env) @ name(7)
                env.extend(vals)
                i = hi
                continue
            s = sites[i]
            if "lane" in s:
                grp = [t for t in sites if t.get("lane") is not None and t["a"] == s["a"]]
                nenv = len(env)
                cs = jnp.asarray([t["c"] for t in grp], dtype=jnp.float32)
                xs = vsubs[s["a"]].vmap(in_axes=(0,) + (None,) * nenv)(cs, *env) @ name(8)
                env.extend([xs[l] for l in range(len(grp))])
                i += len(grp)
                continue
            if "cond" in s:
                t = jnp.float32(0.0 if tape is None else tape[i])
                flag = s["cond"]["flag"]
                env.append(condgfs[s["a"]](jnp.asarray(flag), t, *env) @ name(9))
                i += 1
                continue
            env.append(normal(qev(s["mu"], env), s["sig"]) @ name(s["a"]))
            i += 1
        return env[-1]

    if kw:
        @gen
        def model_kw(*args, kwlast=7.0):
            return body(list(args) + [kwlast])
        return model_kw

    @gen
    def model(*args):
        return body(list(args))
    return model


def choices_dict(md, xs):
    d = {}
    for s, x in zip(md["sites"], xs):
        cur = d
        for a in s["path"][:-1]:
            cur = cur.setdefault(name(a), {})
        if "lane" in s:
            cur.setdefault(name(s["path"][-1]), []).append(x)
        else:
            cur[name(s["path"][-1])] = jnp.float32(x)

    def fin(t):
        if isinstance(t, dict):
            return {k: fin(v) for k, v in t.items()}
        if isinstance(t, list):
            return jnp.asarray(t, dtype=jnp.float32)
        return t
    return fin(d)


def read_values(md, ch):
    out = []
    for s in md["sites"]:
        cur = ch
        for a in s["path"]:
            cur = cur[name(a)]
        out.append(float(cur[s["lane"]]) if "lane" in s else float(cur))
    return out


def gen_selection(rng, md):
    paths = [s["path"] for s in md["sites"]]
    r = rng.random()
    tops = sorted({p[0] for p in paths})
    paths = [list(p) for p in {tuple(p) for p in paths}]
    if r < 0.35:
        return ["str", rng.choice(tops)]
    if r < 0.55:
        a, b = rng.choice(tops), rng.choice(tops)
        return ["or", ["str", a], ["str", b]]
    if r < 0.7:
        p = rng.choice(paths)
        return ["tup", p]
    if r < 0.8:
        return ["all"]
    if r < 0.9:
        return ["compl", ["str", rng.choice(tops)]]
    return ["none"]


def leaf_order(md, selpy):
    """Site indices in the order jax.tree_util flattens the selected choice dict (sorted keys)."""
    def selected(path):
        cur = selpy
        for a in path:
            _, cur = cur.match(name(a))
        return () in cur
    idx = [i for i, s in enumerate(md["sites"]) if selected(s["path"])]
    return sorted(idx, key=lambda i: ([name(a) for a in md["sites"][i]["path"]], md["sites"][i].get("lane", 0)))


class JnpProxy:
    def __init__(self, real, rec):
        self._real, self._rec = real, rec

    def __getattr__(self, k):
        return getattr(self._real, k)

    def minimum(self, a, b):
        from genjax.state import save
        save(verif_log_alpha=b)      # collected by the enclosing state(...) transform
        return self._real.minimum(a, b)


def scripted(kind, md, model, args, xs, s, rng):
    selpy = build_sel(s)
    order = leaf_order(md, selpy)
    eps = rng.choice([0.25, 0.5, 1.0])
    noise = [rng.choice([-2, -1, -0.5, 0, 0.25, 0.5, 1, 1.5]) for _ in order]
    u = rng.choice([0.05, 0.3, 0.5, 0.8, 0.97])
    nsteps = rng.choice([1, 2, 3])
    use_kw = bool(len(args) >= 1 and rng.random() < 0.4)
    ci = [i for i, t in enumerate(md["sites"]) if "cond" in t]
    if ci:
        # the Cond site is left unconstrained: its visible branch takes the tape value xs[i], the hidden one another
        use_kw = False
        cd = choices_dict(md, xs)
        del cd[name(9)]
        tr, _ = build_model(md, tape=xs).generate(cd, *[jnp.float32(a) for a in args])
    elif use_kw:
        # the model's last argument passed (and recorded in the trace) by keyword
        tr, _ = build_model(md, kw=True).generate(choices_dict(md, xs), *[jnp.float32(a) for a in args[:-1]],
                                                  kwlast=jnp.float32(args[-1]))
    else:
        tr, _ = model.generate(choices_dict(md, xs), *[jnp.float32(a) for a in args])
    rec, it = [], iter(noise)
    saved = (mcmc.normal, mcmc.uniform, mcmc.jnp)
    def scripted_sample(loc=0.0, scale=1.0, sample_shape=(), **k):
        # the scripted standard-normal quantiles, placed at the requested location / scale
        cnt = int(np.prod(sample_shape)) if sample_shape else 1
        z = jnp.asarray([next(it) for _ in range(cnt)], dtype=jnp.float32).reshape(sample_shape)
        return jnp.float32(loc) + jnp.float32(scale) * z
    mcmc.normal = types.SimpleNamespace(sample=scripted_sample, logpdf=normal.logpdf)
    mcmc.uniform = types.SimpleNamespace(sample=lambda lo=0.0, hi=1.0, **k: jnp.float32(lo) + jnp.float32(u) * (jnp.float32(hi) - jnp.float32(lo)))
    mcmc.jnp = JnpProxy(jnp, rec)
    c = {"kind": kind, "model": md, "args": args, "xs": xs, "sel": s, "order": order, "eps": eps,
         "noise": noise, "u": u, "nsteps": nsteps, "kwargs_model": use_kw}
    try:
        from genjax.state import state
        if kind == "mala":
            out, st = state(lambda: mcmc.mala(tr, selpy, eps))()
        else:
            out, st = state(lambda: mcmc.hmc(tr, selpy, eps, nsteps))()
        c["accept"] = bool(st["accept"])
        c["final"] = [fr(v) for v in read_values(md, out.get_choices())]
        # coherence of the returned trace (C05): score = -assess(its choices) under the arguments it records,
        # return value = the program's on those choices, recorded arguments unchanged
        a0, k0 = out.get_args()
        lp, rv = out.get_gen_fn().assess(out.get_choices(), *a0, **k0)
        c["coherent"] = bool(abs(float(out.get_score()) + float(lp)) <= 1e-4 * (1.0 + abs(float(lp)))
                             and np.allclose(np.asarray(rv), np.asarray(out.get_retval()), rtol=1e-5, atol=1e-6)
                             and all(float(x) == float(y) for x, y in zip(a0, tr.get_args()[0])))
        c["log_alpha"] = fr(st["verif_log_alpha"]) if "verif_log_alpha" in st else None
        c["logu"] = fr(jnp.log(jnp.float32(u)))
    except Exception as e:  # noqa: BLE001
        c["err"] = type(e).__name__ + ": " + str(e)[:200]
    finally:
        mcmc.normal, mcmc.uniform, mcmc.jnp = saved
    return c


def mh_case(rng):
    """mh on a seeded program with dyadic categorical sites: accept rule and select."""
    dy = STUBS[3]

    @gen
    def m(p):
        x = dy(p) @ "a0"
        y = dy(x + p) @ "a1"
        z = dy(y) @ "a2"
        return x + y + z
    key = jax.random.key(rng.randrange(10 ** 6))
    p = jnp.float32(rng.randint(0, 2))
    tr = seed(lambda: m.generate({"a2": jnp.int32(rng.randint(0, 2))}, p))(jax.random.key(rng.randrange(10 ** 6)))[0]
    s = rng.choice([["str", 0], ["str", 1], ["or", ["str", 0], ["str", 1]], ["all"], ["none"]])
    u = rng.choice([0.05, 0.2, 0.3, 0.45, 0.6, 0.9])
    rec = []
    saved = (mcmc.uniform, mcmc.jnp)
    c = {"kind": "mh", "sel": s, "u": u}
    try:
        from genjax.state import state
        mcmc.jnp = JnpProxy(jnp, rec)
        mcmc.uniform = types.SimpleNamespace(sample=lambda lo=0.0, hi=1.0, **k: jnp.float32(lo) + jnp.float32(1e-30) * (jnp.float32(hi) - jnp.float32(lo)))
        new, _ = seed(state(lambda: mcmc.mh(tr, build_sel(s))))(key)
        rec.clear()
        mcmc.uniform = types.SimpleNamespace(sample=lambda lo=0.0, hi=1.0, **k: jnp.float32(lo) + jnp.float32(u) * (jnp.float32(hi) - jnp.float32(lo)))
        out, st = seed(state(lambda: mcmc.mh(tr, build_sel(s))))(key)
        eq = lambda a, b: all(bool(jnp.all(x == y)) for x, y in zip(jax.tree_util.tree_leaves(a), jax.tree_util.tree_leaves(b)))  # noqa: E731
        c["accept"] = bool(st["accept"])
        c["w"] = fr(st["verif_log_alpha"])
        c["logu"] = fr(jnp.log(jnp.float32(u)))
        c["is_new"], c["is_old"], c["new_eq_old"] = eq(out, new), eq(out, tr), eq(new, tr)
    except Exception as e:  # noqa: BLE001
        c["err"] = type(e).__name__ + ": " + str(e)[:200]
    finally:
        mcmc.uniform, mcmc.jnp = saved
    return c


def main():
    out, sd, n = sys.argv[1], int(sys.argv[2]), int(sys.argv[3])
    rng = random.Random(sd)
    cases = []
    for i in range(n):
        kind = ["mala", "hmc", "mala", "hmc", "mh"][i % 5]
        if kind == "mh":
            cases.append(mh_case(rng))
            continue
        md = make_model(rng)
        model = build_model(md)
        args = [rng.choice([-1, 0, 0.5, 1, 2]) for _ in range(md["nargs"])]
        xs = [rng.choice([-1.5, -1, -0.5, 0, 0.25, 0.5, 1, 2]) for _ in md["sites"]]
        s = gen_selection(rng, md)
        cases.append(scripted(kind, md, model, args, xs, s, rng))
    json.dump(cases, open(out, "w"))


if __name__ == "__main__":
    main()
