"""C16 cases: selections / filter / merge, run natively on /repo/src (no overlay needed).
usage: worker_sel.py OUT.json SEED TIER"""
from __future__ import annotations

import itertools
import json
import random
import sys

import numpy as np

from genjax import gen, sel

ALPHA = [0, 1, 2]


def name(a):
    return f"a{a}"


def build_sel(s):
    t = s[0]
    if t == "all":
        return sel(())
    if t == "none":
        return sel()
    if t == "str":
        return sel(name(s[1]))
    if t == "tup":
        return sel(tuple(name(a) for a in s[1]))
    if t == "dict":
        return sel({name(a): build_sel(x) for a, x in s[1]})
    if t == "compl":
        return ~build_sel(s[1])
    if t == "in":
        return build_sel(s[1]) ^ build_sel(s[2])
    if t == "or":
        return build_sel(s[1]) | build_sel(s[2])
    raise ValueError(t)


def atoms():
    out = [["all"], ["none"]]
    out += [["str", a] for a in ALPHA[:2]]
    out += [["tup", list(t)] for t in [(0,), (0, 1), (1, 0), (0, 1, 2), (0, 0)]]
    out += [["dict", [[0, ["all"]]]], ["dict", [[0, ["str", 1]], [1, ["none"]]]],
            ["dict", [[0, ["tup", [1, 2]]], [2, ["all"]]]], ["dict", [[1, ["dict", [[0, ["all"]]]]]]]]
    return out


def depth1(ats):
    out = [["compl", a] for a in ats]
    for a, b in itertools.product(ats, ats):
        out.append(["or", a, b])
        out.append(["in", a, b])
    return out


def rand_sel(rng, depth, ats):
    if depth == 0 or rng.random() < 0.3:
        return rng.choice(ats)
    r = rng.random()
    if r < 0.3:
        return ["compl", rand_sel(rng, depth - 1, ats)]
    if r < 0.65:
        return ["or", rand_sel(rng, depth - 1, ats), rand_sel(rng, depth - 1, ats)]
    if r < 0.9:
        return ["in", rand_sel(rng, depth - 1, ats), rand_sel(rng, depth - 1, ats)]
    return ["dict", [[rng.choice(ALPHA), rand_sel(rng, depth - 1, ats)]]]


def paths(maxlen=3):
    out = [[]]
    for n in range(1, maxlen + 1):
        out += [list(p) for p in itertools.product(ALPHA, repeat=n)]
    return out


def chain(s, p):
    cur = build_sel(s)
    hits = []
    for a in p:
        h, cur = cur.match(name(a))
        hits.append(bool(h))
    return hits, bool(() in cur)


def shapes(rng):
    """Choice-map shapes: nested dicts (depth <= 3) with scalar and array leaves."""
    out = []

    def mk(depth):
        d = {}
        ks = rng.sample(ALPHA, rng.randint(1, 3))
        for k in ks:
            if depth > 1 and rng.random() < 0.45:
                d[name(k)] = mk(depth - 1)
            elif rng.random() < 0.2:
                d[name(k)] = np.asarray([float(rng.randint(0, 5)) for _ in range(2)], dtype=np.float32)
            else:
                d[name(k)] = float(rng.randint(0, 9))
        return d
    fixed = [
        {"a0": 1.0}, {"a0": 1.0, "a1": 2.0}, {"a0": {"a1": 1.0, "a2": 2.0}, "a1": 3.0},
        {"a0": {"a1": {"a2": 1.0, "a0": 5.0}, "a0": 2.0}, "a2": {"a0": 4.0}},
        {"a0": {"a0": {"a0": 1.0}}}, {"a1": np.asarray([1.0, 2.0], dtype=np.float32), "a0": {"a1": 7.0}},
    ]
    out += fixed
    for _ in range(14):
        out.append(mk(3))
    return out


def canon_cm(x):
    if x is None:
        return None
    if isinstance(x, dict):
        return {"node": [[["n", int(k[1:])], canon_cm(v)] for k, v in x.items()]}
    a = np.asarray(x)
    if a.ndim == 0:
        return {"leaf": int(float(a))}
    return {"leaf": [int(float(y)) for y in a]}


def main():
    out, seed, tier = sys.argv[1], int(sys.argv[2]), sys.argv[3]
    rng = random.Random(seed)
    ats = atoms()
    sels = ats + depth1(ats)
    nrand = 300 if tier == "quick" else 3000
    sels += [rand_sel(rng, 3, ats) for _ in range(nrand)]
    ps = paths(3)
    fn = gen(lambda: None)
    cases = []
    if tier == "quick":
        # all atoms and depth-1 combinations on a random third of the paths, random deeper ones on 6 paths
        for i, s in enumerate(sels):
            sub = ps if i < len(ats) else rng.sample(ps, 5 if i < len(ats) + len(depth1(ats)) else 6)
            for p in sub:
                h, f = chain(s, p)
                cases.append({"kind": "match", "sel": s, "path": p, "hits": h, "final": f})
    else:
        for s in sels:
            for p in ps:
                h, f = chain(s, p)
                cases.append({"kind": "match", "sel": s, "path": p, "hits": h, "final": f})
    shp = shapes(rng)
    fs = sels if tier != "quick" else ats + rng.sample(sels, 150)
    for s in fs:
        for x in (shp if tier != "quick" else rng.sample(shp, 4)):
            try:
                a, b = fn.filter(x, build_sel(s))
                if a is not None and b is not None:
                    m = fn.merge(a, b)[0]
                else:
                    m = a if a is not None else b
                cases.append({"kind": "filter", "sel": s, "x": canon_cm(x), "a": canon_cm(a), "b": canon_cm(b),
                              "m": canon_cm(m)})
            except Exception as e:  # noqa: BLE001
                cases.append({"kind": "filter", "sel": s, "x": canon_cm(x), "err": type(e).__name__ + ": " + str(e)[:100]})
    json.dump(cases, open(out, "w"))


if __name__ == "__main__":
    main()
