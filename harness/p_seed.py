"""C06 / C07 / C14: the Seed interpreter and the lowering rule.  Model: coq/Model/Seed.v; theorems:
coq/Properties/C06.v, C07.v, C14.v; correspondence: worker_seed.py + coq/Model/CorrSeed.v."""
from __future__ import annotations

import json
import os
import subprocess
from collections import Counter

import common
import overlay
from coqgen import n

SRC = ["src/genjax/pjax.py"]
WANT = {"C06": ("seed",), "C07": ("seed",), "C14": ("lower",)}


def jx(block):
    out = "JNil"
    for s in reversed(block):
        t = s[0]
        if t in ("sample", "asample"):
            out = f"(JSample {out})"
        elif t == "det":
            out = f"(JDet {out})"
        elif t == "cond":
            out = f"(JCond {jx(s[1])} {jx(s[2])} {out})"
        elif t == "scan":
            out = f"(JScan {n(s[1])} {jx(s[2])} {out})"
        elif t == "other":
            out = f"(JOther {jx(s[2])} {out})"
        elif t == "grad":
            out = f"(JGrad {jx(s[1])} {out})"
    return out


def term(t):
    if t is None:
        return "None"
    return "(Some [" + "; ".join(f"{int(m)}%nat" for m in t) + "])"


CTX = {"jit": "LJit", "scan": "LScan", "while": "LWhile", "fori": "LFori", "cond": "LCond", "nested_jit": "LNestedJit",
       "grad": "LGrad", "value_and_grad": "LValueAndGrad", "vmap": "LVmap", "seed_while": "LSeedWhile",
       "seed_jit": "LSeedJit", "seed_fori": "LSeedFori", "seed_ok": "LSeedOk", "seed_scan_while": "LSeedScanWhile",
       "jit_det": "LJitDet", "seed_remat": "LSeedEagerHO", "seed_custom_jvp": "LSeedEagerHO", "seed_custom_vjp": "LSeedEagerHO",
       "seed_remat_jit": "LSeedEagerHO", "seed_remat_remat": "LSeedEagerHO2", "seed_remat_custom_jvp": "LSeedEagerHO2",
       "seed_custom_jvp_remat": "LSeedEagerHO2", "seed_grad": "LSeedGrad", "jit_grad_of_seed": "LSeedOk", "scan_grad": "LGrad", "jit_jvp": "LGrad", "jit_adev": "LJit", "seed_ok_adev": "LSeedOk", "seed_scan_adev": "LSeedOk"}


def scase(c):
    if c["kind"] == "seed":
        if "err" in c:
            return "CSeedErr"
        cs = "[" + "; ".join("true" if b else "false" for b in c["cs"]) + "]"
        runs = "[" + "; ".join("[" + "; ".join(term(t) for t in r) + "]" for r in c["runs"]) + "]"
        return f"CSeed {jx(c['block'])} {cs} {runs}"
    o = {"none": "ONone", "lowering": "OLowering", "notimplemented": "ONotImpl"}.get(c["raised"], "OOtherErr")
    return f"CLower {CTX[c['ctx']]} {n(c['depth'])} {o}"


def run(ctx):
    nn = 40 if ctx.tier == "quick" else 400
    shards = 4 if ctx.tier == "quick" else 12
    root = ctx.ensure_overlay()
    env = overlay.env_for(root)
    env["PYTHONPATH"] = root + os.pathsep + common.HARNESS
    procs = []
    for k in range(shards):
        out = os.path.join(ctx.scratch, f"sd_{k}.json")
        procs.append((out, subprocess.Popen([common.PY, os.path.join(common.HARNESS, "worker_seed.py"), out,
                                             str(ctx.seed * 100 + k), str((nn + shards - 1) // shards)],
                                            env=env, stdout=subprocess.PIPE, stderr=subprocess.PIPE, text=True,
                                            cwd=ctx.scratch)))
    cases, worker_errs = [], []
    for out, pr in procs:
        so, se = pr.communicate(timeout=3000)
        if pr.returncode != 0 or not os.path.exists(out):
            worker_errs.append(se[-1500:])
            continue
        cases.extend(c for c in json.load(open(out)) if c["kind"] in WANT[ctx.pid]
                     or (ctx.pid == "C06" and c["kind"] == "lower" and CTX.get(c["ctx"], "").startswith("LSeedEagerHO")))
    vf = os.path.join(ctx.scratch, f"cases_seed_{ctx.pid}.v")
    open(vf, "w").write("From Coq Require Import List. Import ListNotations.\nFrom GV Require Import Model.Seed Model.CorrSeed.\n"
                        "Definition cases : list scase := [\n" + ";\n".join("  " + scase(c) for c in cases)
                        + "].\nDefinition result := Eval vm_compute in sreport cases.\nPrint result.\n")
    res = common.eval_cases_files([vf])[vf]
    bad = res.get("bad", [])

    def sites(b):
        return sum(1 if s[0] in ("sample", "asample") else sites(s[1]) + sites(s[2]) if s[0] == "cond" else s[1] * sites(s[2]) if s[0] == "scan" else 0
                   for s in b)
    if ctx.pid == "C14":
        nt = len({(c["ctx"], c["depth"]) for c in cases})
    else:
        nt = len({json.dumps([c["block"], c["cs"]]) for c in cases if c["kind"] == "seed" and "err" not in c and sites(c["block"]) >= 2})
    return {"cases": cases, "bad": bad, "worker_errs": worker_errs, "coq_errs": [res["error"]] if "error" in res else [],
            "coverage": {"evaluations": len(cases), "distinct_nontrivial": nt,
                         "rule": "seed: random probabilistic JAX functions (sequences of key-echo sample sites and deterministic ops, lax.cond with straight-line branches, "
                                 "lax.scan of length 0-3 nested to depth 2, cond inside scan) run under seed eagerly, under jit and under jax.vmap over a batch of keys, "
                                 "interleaved with unseeded sampling, unrelated seeded runs and global-counter jumps; every run's per-site raw key data is mapped back to a "
                                 "term of the key algebra (BFS over real threefry split/fold_in) and must equal the model's term list; also a persistent sampler object under different keyword parameterisations and parameter shapes, a sampler closing over an array constant, and a vectorised call (modular_vmap with axis_size, site parameters unbatched or mixed, passed positionally or by keyword) "
                                 "run eagerly, with keyword arguments, from a second identical definition, under jit and vmap over keys, with unseeded and seeded re-vectorisations of the same callee in between "
                                 "(every lane must report the site key, shape (lanes,2)); non-trivial = distinct program with >=2 site instances. "
                                 "lower: a site (plain, with its own sample_shape, vectorised by axis_size, vectorised with its parameter passed by keyword) at nesting depth 1-2 placed in jit/scan/while/fori/cond/nested jit/grad/value_and_grad/jvp (under jit or scan)/vmap, seed of grad, jit of grad of seed, and seed+while/jit/fori/scan-of-while/checkpoint/custom_jvp/custom_vjp (eager and under jit; also two such wrappers deep); "
                                 "outcome class compared with the model (code) and with the property (spec); non-trivial = distinct (context, depth)",
                         "histogram": {"kinds": Counter(c["kind"] for c in cases),
                                       "lower_outcomes": Counter((c.get("ctx"), c.get("raised")) .__str__() for c in cases if c["kind"] == "lower"),
                                       "errors": Counter(c.get("err", "")[:60] for c in cases if "err" in c)},
                         "samples": cases[:2]}}


def signature(case, agree, strict, relaxed):
    # (the former known finding K2 - jit(grad f) bakes a key - is repaired: fix F25)
    return None
