"""C19: state/save.  Model: coq/Model/StateM.v; theorems: coq/Properties/C19.v;
correspondence: worker_state.py + coq/Model/CorrState.v."""
from __future__ import annotations

import json
import os
from collections import Counter

import common
from coqgen import n, z

SRC = ["src/genjax/state.py"]


def sprog(block):
    out = []
    for s in block:
        t = s[0]
        if t == "save":
            out.append(f"PSave {n(s[1])} {n(s[2])}")
        elif t == "saveleaf":
            out.append(f"PSaveLeaf {n(s[1])}")
        elif t == "det":
            out.append("PDet")
        elif t == "ns":
            out.append(f"PNs {n(100 + s[1])} {sprog(s[2])}")
        elif t == "scan":
            out.append(f"PScan {n(s[1])} {'true' if len(s) > 3 and s[3] else 'false'} {sprog(s[2])}")
        else:
            out.append(f"PVmap {n(s[1])} {sprog(s[2])}")
    return "[" + "; ".join(out) + "]"


def num(v):
    if isinstance(v, list):
        return "(NL [" + "; ".join(num(x) for x in v) + "])"
    return f"(NZ {z(v)})"


def key(k):
    return n(int(k[1:]) + (100 if k[0] == "s" else 0))


def otree(t):
    if "leaf" in t:
        return f"(OLeaf {num(t['leaf'])})"
    return "(ONode [" + "; ".join(f"({key(k)}, {otree(v)})" for k, v in t["node"]) + "])"


def stcase(c):
    if "err" in c:
        return f"CState {sprog(c['block'])} false []"
    return (f"CState {sprog(c['block'])} {'true' if c['transparent'] else 'false'} ["
            + "; ".join(otree(o) for o in c["obs"]) + "]")


def feats(block, acc):
    for s in block:
        acc[s[0]] += 1
        if s[0] in ("ns", "scan", "vmap"):
            feats(s[2], acc)
            for q in s[2]:
                if q[0] in ("ns", "scan", "vmap"):
                    acc[f"{s[0]}>{q[0]}"] += 1
    return acc


def run(ctx):
    nn = 60 if ctx.tier == "quick" else 600
    out = os.path.join(ctx.scratch, "state_cases.json")
    pr = ctx.run_worker("worker_state.py", [out, ctx.seed, nn])
    if pr.returncode != 0:
        return {"cases": [], "bad": [], "worker_errs": [pr.stderr[-2000:]], "coq_errs": [],
                "coverage": {"evaluations": 0, "distinct_nontrivial": 0, "rule": "", "samples": []}}
    cases = json.load(open(out))
    files, per = [], 200
    for k in range(0, len(cases), per):
        vf = os.path.join(ctx.scratch, f"cases_state_{k // per}.v")
        open(vf, "w").write("From Coq Require Import ZArith List. Import ListNotations.\nFrom GV Require Import Model.StateM Model.CorrState.\n"
                            "Definition cases : list stcase := [\n" + ";\n".join("  " + stcase(c) for c in cases[k:k + per])
                            + "].\nDefinition result := Eval vm_compute in streport cases.\nPrint result.\n")
        files.append((vf, k))
    res = common.eval_cases_files([f for f, _ in files])
    bad, coq_errs = [], []
    for vf, off in files:
        r = res[vf]
        if "error" in r:
            coq_errs.append(r["error"])
        else:
            bad += [(off + i, a, s, x) for (i, a, s, x) in r["bad"]]
    fc = Counter()
    for c in cases:
        feats(c["block"], fc)
    nt = len({json.dumps(c["block"]) for c in cases if "err" not in c
              and any(s[0] in ("ns", "scan", "vmap") for s in c["block"])})
    return {"cases": cases, "bad": bad, "worker_errs": [], "coq_errs": coq_errs,
            "coverage": {"evaluations": len(cases), "distinct_nontrivial": nt,
                         "rule": "random programs of named saves, leaf-mode saves, deterministic ops, namespaces, scans (length 1-3, forward or reverse=True with the saved values depending on a carried step counter) and vmaps (1-3 lanes) nested to depth 3 "
                                 "(incl. namespaces around scans, scans in scans, vmap of scan, scan of vmap); each saved value encodes its site and dynamic instance; "
                                 "state(f), jit(state(f)) and seed(state(f)) are run, the result is compared with f run without state, and the three collected dictionaries "
                                 "are compared in Coq with the interpreter model and with the specification; non-trivial = distinct program using a namespace, scan or vmap",
                         "histogram": {"constructs": fc, "errors": Counter(c.get("err", "")[:60] for c in cases if "err" in c)},
                         "samples": cases[:2]}}
