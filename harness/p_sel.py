"""C16: selections, filter, merge.  Model: coq/Model/Gfi.v (sel_match_name, sel_unit, cm_filter, cm_merge);
theorems: coq/Properties/C16.v; correspondence: worker_sel.py (native) + coq/Model/CorrSel.v."""
from __future__ import annotations

import hashlib
import json
import os
from collections import Counter

import common
import coqgen

SRC = ["src/genjax/core.py"]


def scase(c):
    s = coqgen.sel(c["sel"])
    if c["kind"] == "match":
        p = "[" + "; ".join(coqgen.n(a) for a in c["path"]) + "]"
        hits = "[" + "; ".join("true" if h else "false" for h in c["hits"]) + "]"
        return f"SMatch {s} {p} {hits} {'true' if c['final'] else 'false'}"
    if "err" in c:
        return f"SFilter {s} {coqgen.cm(c['x'])} None None None"
    return f"SFilter {s} {coqgen.cm(c['x'])} {coqgen.ocm(c['a'])} {coqgen.ocm(c['b'])} {coqgen.ocm(c['m'])}"


def cases_file(cases):
    return ("From GV Require Import Model.CorrSel.\nDefinition cases : list scase := [\n"
            + ";\n".join("  " + scase(c) for c in cases)
            + "].\nDefinition result := Eval vm_compute in sreport cases.\nPrint result.\n")


def run(ctx):
    out = os.path.join(ctx.scratch, "sel_cases.json")
    pr = ctx.run_worker("worker_sel.py", [out, ctx.seed, ctx.tier], native=True)
    if pr.returncode != 0:
        return {"cases": [], "bad": [], "worker_errs": [pr.stderr[-2000:]], "coq_errs": [],
                "coverage": {"evaluations": 0, "distinct_nontrivial": 0, "rule": "", "samples": []}}
    cases = json.load(open(out))
    files, per = [], 1500
    for k in range(0, len(cases), per):
        vf = os.path.join(ctx.scratch, f"cases_sel_{k // per}.v")
        open(vf, "w").write(cases_file(cases[k:k + per]))
        files.append((vf, k))
    res = common.eval_cases_files([f for f, _ in files], jobs=12)
    bad, coq_errs = [], []
    for vf, off in files:
        r = res[vf]
        if "error" in r:
            coq_errs.append(r["error"])
        else:
            bad += [(off + i, a, s, x) for (i, a, s, x) in r["bad"]]
    kinds = Counter(c["kind"] for c in cases)
    seen = set()
    nt = 0
    for c in cases:
        h = hashlib.sha256(json.dumps(c, sort_keys=True).encode()).hexdigest()
        if h in seen:
            continue
        seen.add(h)
        if c["sel"][0] in ("compl", "in", "or", "dict", "tup") and (c["kind"] == "filter" or len(c["path"]) >= 1):
            nt += 1
    tops = Counter(c["sel"][0] for c in cases)
    return {"cases": cases, "bad": bad, "worker_errs": [], "coq_errs": coq_errs,
            "coverage": {"evaluations": len(cases), "distinct_nontrivial": nt,
                         "exhaustive": ctx.tier != "quick",
                         "rule": "selection expressions: all atoms (all, none, str, tuples of length 1-3, dicts) and all depth-1 "
                                 "combinations (~, |, ^) plus random expressions to nesting 3 over a 3-letter alphabet; "
                                 "match chains along paths of length 0-3 (thorough: all 40 paths for every expression) and "
                                 "Fn.filter/Fn.merge on nested-dict choice maps (depth<=3, scalar and array leaves); "
                                 "non-trivial = distinct case whose selection is composite (tuple/dict/~/|/^) on a non-empty path or a filter case",
                         "histogram": {"kinds": kinds, "top_constructor": tops,
                                       "filter_errors": sum(1 for c in cases if "err" in c)},
                         "samples": cases[40:42] + [c for c in cases if c["kind"] == "filter"][:2]}}


def signature(case, agree, strict, relaxed):
    return None
