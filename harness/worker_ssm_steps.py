"""C20 cases for the step models: discrete_hmm and linear_gaussian iterated over time through assess
(they are @gen functions over genjax distributions, hence run through the overlay).
usage: worker_ssm_steps.py OUT.json SEED N"""
from __future__ import annotations

import json
import random
import sys
import warnings
from fractions import Fraction

warnings.filterwarnings("ignore")

import jax  # noqa: E402
import jax.numpy as jnp  # noqa: E402
import numpy as np  # noqa: E402

import genjax.extras.state_space as ss  # noqa: E402


def fr(x):
    f = Fraction(float(x))
    return [f.numerator, f.denominator]


def enc(x):
    return [x.numerator, x.denominator]


def rand_stoch(rng, n, sparse):
    while True:
        w = [rng.choice([0, 0, 1, 2, 3]) if sparse else rng.randint(1, 4) for _ in range(n)]
        if sum(w) > 0:
            s = sum(w)
            return [Fraction(x, s) for x in w]


def hmm_step_case(rng):
    K, M, T = rng.choice([2, 3, 4]), rng.choice([2, 3]), rng.choice([1, 2, 3, 4])
    pi0 = rand_stoch(rng, K, False)
    A = [rand_stoch(rng, K, rng.random() < 0.3) for _ in range(K)]
    E = [rand_stoch(rng, M, False) for _ in range(K)]
    ys = [rng.randrange(M) for _ in range(T)]
    path = []
    for t in range(T):
        cand = [x for x in range(K) if (t == 0 and pi0[x] > 0) or (t > 0 and A[path[-1]][x] > 0)]
        path.append(rng.choice(cand))
    c = {"kind": "hmm_step", "K": K, "pi0": [enc(p) for p in pi0], "A": [[enc(p) for p in r] for r in A],
         "E": [[enc(p) for p in r] for r in E], "ys": ys, "path": path}
    f32 = lambda t: jnp.asarray([[float(x) for x in r] for r in t], dtype=jnp.float32)  # noqa: E731
    try:
        p0 = jnp.asarray([float(x) for x in pi0], dtype=jnp.float32)
        prev, tidx, total = jnp.int32(0), jnp.int32(0), 0.0
        for t in range(T):
            w, ret = ss.discrete_hmm.assess({"state": jnp.int32(path[t]), "obs": jnp.int32(ys[t])}, prev, tidx, p0, f32(A), f32(E))
            if int(ret[0]) != path[t] or int(ret[1]) != t + 1:
                raise ValueError("step model returned a wrong carry")
            prev, tidx = ret[0], ret[1]
            total += float(w)
        # the same sequence through simulate-free scoring must equal compute_sequence_log_prob
        sp = float(ss.compute_sequence_log_prob(jnp.asarray(path, dtype=jnp.int32), jnp.asarray(ys, dtype=jnp.int32), p0, f32(A), f32(E)))
        c["consistent"] = bool(abs(sp - total) <= 1e-4 * (1 + abs(total)))
        c["stepp"] = fr(np.exp(np.float64(total)))
    except Exception as e:  # noqa: BLE001
        c["err"] = type(e).__name__ + ": " + str(e)[:200]
    return c


def rand_spd(rng, d):
    L = [[Fraction(rng.randint(-1, 2) if j < i else (rng.randint(1, 2) if j == i else 0)) for j in range(d)] for i in range(d)]
    return [[sum(L[i][k] * L[j][k] for k in range(d)) / 2 for j in range(d)] for i in range(d)]


def lg_step_case(rng):
    ds, do, T = rng.choice([1, 2]), rng.choice([1, 2, 3]), rng.choice([1, 2, 3])
    q = lambda: Fraction(rng.randint(-2, 2), rng.choice([1, 2]))  # noqa: E731
    m0 = [q() for _ in range(ds)]
    P0, Q, R = rand_spd(rng, ds), rand_spd(rng, ds), rand_spd(rng, do)
    A = [[q() for _ in range(ds)] for _ in range(ds)]
    C = [[q() for _ in range(ds)] for _ in range(do)]
    xs = [[q() for _ in range(ds)] for _ in range(T)]
    ys = [[q() for _ in range(do)] for _ in range(T)]
    e2 = lambda t: [[enc(x) for x in r] for r in t]  # noqa: E731
    c = {"kind": "lg_step", "m0": [enc(x) for x in m0], "P0": e2(P0), "A": e2(A), "Q": e2(Q), "C": e2(C), "R": e2(R),
         "xs": e2(xs), "ys": e2(ys)}
    f = lambda t: jnp.asarray([[float(x) for x in r] for r in t], dtype=jnp.float32)  # noqa: E731
    v = lambda t: jnp.asarray([float(x) for x in t], dtype=jnp.float32)  # noqa: E731
    try:
        prev, tidx, total = jnp.zeros(ds, dtype=jnp.float32), jnp.int32(0), 0.0
        for t in range(T):
            w, ret = ss.linear_gaussian.assess({"state": v(xs[t]), "obs": v(ys[t])}, prev, tidx, v(m0), f(P0), f(A), f(Q), f(C), f(R))
            if not np.allclose(np.asarray(ret[0]), np.asarray(v(xs[t]))) or int(ret[1]) != t + 1:
                raise ValueError("step model returned a wrong carry")
            prev, tidx = ret[0], ret[1]
            total += float(w)
        if not np.isfinite(total):
            raise ValueError("non-finite density")
        c["lp"] = fr(total)
    except Exception as e:  # noqa: BLE001
        c["err"] = type(e).__name__ + ": " + str(e)[:200]
    return c


def main():
    out, sd, n = sys.argv[1], int(sys.argv[2]), int(sys.argv[3])
    rng = random.Random(sd)
    json.dump([hmm_step_case(rng) if i % 2 == 0 else lg_step_case(rng) for i in range(n)], open(out, "w"))


if __name__ == "__main__":
    main()
