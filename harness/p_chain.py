"""C18: chain().  Model: coq/Model/Chain.v; theorems: coq/Properties/C18.v;
correspondence: worker_chain.py + coq/Model/CorrChain.v."""
from __future__ import annotations

import json
import os
from collections import Counter

import common
from coqgen import n, z

SRC = ["src/genjax/inference/mcmc.py", "src/genjax/state.py"]


def zl(l):
    return "[" + "; ".join(z(v) for v in l) + "]"


def bl(l):
    return "[" + "; ".join("true" if b else "false" for b in l) + "]"


def ccase(c):
    if "err" in c:
        # an erroring run is reported as a case that cannot agree
        return f"CChain {n(0)} {n(c['n'])} {n(c['burn'])} {n(c['thin'])} {z(0)} [] [] [] {n(0)}"
    if c["kind"] == "chain":
        ok = c["rate_ok"] and c["leading_axis_ok"] and c.get("overall_rate_ok", True)
        states = "[" + "; ".join(zl(r) for r in c["states"]) + "]" if ok else "[]"
        acc = "[" + "; ".join(bl(r) for r in c["accepts"]) + "]"
        ks = "[" + "; ".join(n(k) for k in c["accepted"]) + "]"
        return (f"CChain {n(c['k'])} {n(c['n'])} {n(c['burn'])} {n(c['thin'])} {z(c['init'])} "
                f"{states} {acc} {ks} {n(c['nsteps'])}")
    return (f"CSlice {n(c['n'])} {n(c['burn'])} {n(c['thin'])} {zl(c['full'])} {bl(c['fullacc'])} "
            f"{zl(c['thinned'])} {bl(c['thinacc'])} {n(c['nsteps'])}")


def run(ctx):
    out = os.path.join(ctx.scratch, "chain_cases.json")
    pr = ctx.run_worker("worker_chain.py", [out, ctx.seed, ctx.tier])
    if pr.returncode != 0:
        return {"cases": [], "bad": [], "worker_errs": [pr.stderr[-2000:]], "coq_errs": [],
                "coverage": {"evaluations": 0, "distinct_nontrivial": 0, "rule": "", "samples": []}}
    cases = json.load(open(out))
    vf = os.path.join(ctx.scratch, "cases_chain.v")
    open(vf, "w").write("From Coq Require Import ZArith List. Import ListNotations.\n"
                        "From GV Require Import Model.CorrChain.\nDefinition cases : list ccase := [\n"
                        + ";\n".join("  " + ccase(c) for c in cases)
                        + "].\nDefinition result := Eval vm_compute in creport cases.\nPrint result.\n")
    res = common.eval_cases_files([vf])[vf]
    bad = res.get("bad", [])
    nt = len({(c["kind"], c["n"], c["burn"], c["thin"], c.get("nchains"), c.get("k")) for c in cases
              if "err" not in c and c["n"] >= 2 and (c["burn"] > 0 or c["thin"] > 1)})
    return {"cases": cases, "bad": bad, "worker_errs": [], "coq_errs": [res["error"]] if "error" in res else [],
            "coverage": {"evaluations": len(cases), "distinct_nontrivial": nt,
                         "exhaustive": ctx.tier != "quick",
                         "rule": "grid n_steps<=9 (quick: 40 sampled; thorough: full grid n<=12), burn_in<n, thinning 1..4, 1 or 3 chains; three scripted (one with a reverse lax.scan sweep inside the kernel) "
                                 "deterministic kernels (optionally saving a second diagnostic, or composite: the step accept at the root followed by a namespaced sub-move diagnostic also called accept) compared with the model exactly, plus the real mh kernel under seed: "
                                 "thinned run vs slice of the un-thinned run with the same key (float bit patterns); non-trivial = n>=2 and (burn>0 or thin>1)",
                         "histogram": {"kinds": Counter(c["kind"] for c in cases),
                                       "chains": Counter(str(c.get("nchains")) for c in cases),
                                       "errors": Counter(c.get("err", "")[:60] for c in cases if "err" in c)},
                         "samples": cases[:2] + [c for c in cases if c["kind"] == "slice"][:1]}}
