"""C09: mh / mala / hmc.  Model: coq/Model/Mcmc.v (exact rationals, dual-number gradients);
theorems: coq/Properties/C09.v; correspondence: worker_mcmc.py + coq/Model/CorrMcmc.v."""
from __future__ import annotations

import json
import os
import subprocess
from collections import Counter
from fractions import Fraction

import common
import coqgen
import overlay

SRC = ["src/genjax/inference/mcmc.py", "src/genjax/core.py"]


def q(x):
    if isinstance(x, list):
        return f"({x[0]} # {x[1]})%Q"
    f = Fraction(x)
    return f"({f.numerator} # {f.denominator})%Q"


def ql(l):
    return "[" + "; ".join(q(v) for v in l) + "]"


def qexpr(e):
    t = e[0]
    if t == "k":
        return f"(QK {q(e[1])})"
    if t == "v":
        return f"(QV {coqgen.n(e[1])})"
    if t == "add":
        return f"(QAdd {qexpr(e[1])} {qexpr(e[2])})"
    if t == "sub":
        return f"(QSub {qexpr(e[1])} {qexpr(e[2])})"
    return f"(QMulK {q(e[1])} {qexpr(e[2])})"


def gmodel(md):
    return "[" + "; ".join(f"{{| n_mu := {qexpr(s['mu'])}; n_sig := {q(s['sig'])} |}}" for s in md["sites"]) + "]"


def paths(md):
    return "[" + "; ".join("[" + "; ".join(coqgen.n(a) for a in s["path"]) + "]" for s in md["sites"]) + "]"


def b(x):
    return "true" if x else "false"


def mcase(c):
    if "err" not in c and c["kind"] != "mh" and not c["order"]:
        # empty selection: the kernels return the input trace with accept = True
        same = all(Fraction(f[0], f[1]) == Fraction(x) for f, x in zip(c["final"], c["xs"]))
        return f"CMh (0#1)%Q (-1#1)%Q {b(c['accept'])} {b(same)} false true"
    if c.get("coherent") is False:
        return "CMh (0#1)%Q (0#1)%Q true false false false"      # the kernel returned an incoherent trace: cannot pass
    if "err" in c or (c["kind"] != "mh" and c.get("log_alpha") is None):
        return "CMh (0#1)%Q (0#1)%Q true false false false"      # cannot pass
    if c["kind"] == "mh":
        return f"CMh {q(c['w'])} {q(c['logu'])} {b(c['accept'])} {b(c['is_new'])} {b(c['is_old'])} {b(c['new_eq_old'])}"
    obs = f"{{| o_log_alpha := {q(c['log_alpha'])}; o_accept := {b(c['accept'])}; o_final := {ql(c['final'])} |}}"
    order = "[" + "; ".join(coqgen.n(i) for i in c["order"]) + "]"
    head = (f"{gmodel(c['model'])} {ql(c['args'])} {ql(c['xs'])} {paths(c['model'])} {coqgen.sel(c['sel'])} {order} "
            f"{q(c['eps'])}")
    if c["kind"] == "mala":
        return f"CMala {head} {ql(c['noise'])} {q(c['logu'])} {obs}"
    return f"CHmc {head} {coqgen.n(c['nsteps'])} {ql(c['noise'])} {q(c['logu'])} {obs}"


def kernel_stream(ctx, n, shards, tag="mc", seed_shift=0):
    """run worker_mcmc (mala / hmc / mh cases) and judge the cases with Model/CorrMcmc.v; also used by C05
    (histories that contain kernel applications: frame and coherence of the resulting trace)"""
    root = ctx.ensure_overlay()
    env = overlay.env_for(root)
    env["PYTHONPATH"] = root + os.pathsep + common.HARNESS
    procs = []
    for k in range(shards):
        out = os.path.join(ctx.scratch, f"{tag}_{k}.json")
        procs.append((out, subprocess.Popen([common.PY, os.path.join(common.HARNESS, "worker_mcmc.py"), out,
                                             str(ctx.seed * 100 + k + seed_shift), str((n + shards - 1) // shards)],
                                            env=env, stdout=subprocess.PIPE, stderr=subprocess.PIPE, text=True,
                                            cwd=ctx.scratch)))
    cases, files, worker_errs = [], [], []
    for k, (out, pr) in enumerate(procs):
        so, se = pr.communicate(timeout=3000)
        if pr.returncode != 0 or not os.path.exists(out):
            worker_errs.append(se[-1500:])
            continue
        cs = json.load(open(out))
        vf = os.path.join(ctx.scratch, f"cases_{tag}_{k}.v")
        open(vf, "w").write("From Coq Require Import QArith List. Import ListNotations.\n"
                            "From GV Require Import Model.Gfi Model.Mcmc Model.CorrMcmc.\n"
                            "Definition cases : list mcase := [\n"
                            + ";\n".join("  " + mcase(c) for c in cs)
                            + "].\nDefinition result := Eval vm_compute in mreport cases.\nPrint result.\n")
        files.append((vf, len(cases)))
        cases.extend(cs)
    res = common.eval_cases_files([f for f, _ in files])
    bad, coq_errs = [], []
    for vf, off in files:
        r = res[vf]
        if "error" in r:
            coq_errs.append(r["error"])
        else:
            bad += [(off + i, a, s, x) for (i, a, s, x) in r["bad"]]
    return cases, bad, worker_errs, coq_errs


def run(ctx):
    n = 100 if ctx.tier == "quick" else 1000
    shards = 4 if ctx.tier == "quick" else 12
    cases, bad, worker_errs, coq_errs = kernel_stream(ctx, n, shards)
    nt = len({json.dumps({k: v for k, v in c.items() if k not in ("final", "log_alpha", "accept")}, sort_keys=True)
              for c in cases if "err" not in c and (c["kind"] == "mh" or len(c["order"]) >= 1)})
    # the weight mh accepts with is regenerate's: mixture-shaped programs (an indicator site feeding a Cond
    # whose own sites are unselected, together with the site feeding the branch argument) judged by regen_spec
    import p_gfi
    mcases, mbad, merrs, mcoq = p_gfi.extra_stream(ctx, "mix", "hist", 40 if ctx.tier == "quick" else 400,
                                                   ["depth=2", "collide=0", "ops=regen", "maxops=2", "mixture=1.0"])
    off = len(cases)
    for mc in mcases:
        mc["kind"] = "mixture-regenerate"
        mc.setdefault("sel", ["mix"])
    cases = cases + mcases
    bad = bad + [(off + i, a, s_, x) for (i, a, s_, x) in mbad]
    worker_errs = worker_errs + merrs
    coq_errs = coq_errs + mcoq
    return {"cases": cases, "bad": bad, "worker_errs": worker_errs, "coq_errs": coq_errs,
            "coverage": {"evaluations": len(cases), "distinct_nontrivial": nt,
                         "rule": "mala/hmc: random Gaussian programs (2-4 normal sites, means affine in arguments and earlier sites, sigma in {1/2,1,2}, optionally "
                                 "a nested sub-call, a vectorized sub-call, or one site inside a Cond sub-call with shared-address branches whose hidden branch holds another value), dyadic current values, selections (address, union, path into the sub-call, all, complement, none), step sizes "
                                 "{1/4,1/2,1}, 1-3 leapfrog steps, scripted noise/momentum and accept threshold; log_alpha (read through a state-save proxy), accept bit and "
                                 "final values compared with the exact rational model (tolerance 2e-4; decisions within 1e-3 of the threshold not judged); "
                                 "mh: seeded dyadic-categorical program, scripted threshold, accept rule and select; mixture-regenerate: regenerate (the move mh proposes with, and whose weight it accepts with) on "
                                 "mixture-shaped programs - indicator site, branch-argument site, Cond with shared-address branches - for selections of the indicator, the argument, both, with argument "
                                 "changes that flip the branch: weight, frame and discard judged by the specification (Model/Corr.v regen_spec); non-trivial = distinct case with a non-empty selection",
                         "histogram": {"kinds": Counter(c["kind"] for c in cases),
                                       "site_in_cond": sum(1 for c in cases if any("cond" in t for t in c.get("model", {}).get("sites", []))),
                                       "selections": Counter(c["sel"][0] for c in cases),
                                       "accepted": Counter(str(c.get("accept")) for c in cases),
                                       "errors": Counter(c.get("err", "")[:70] for c in cases if "err" in c)},
                         "samples": cases[:2]}}
