"""C18 cases: chain() with scripted deterministic kernels (compared with the model)
and with the real mh kernel under seed (thinned run vs the slice of the un-thinned run).
usage: worker_chain.py OUT.json SEED TIER"""
from __future__ import annotations

import json
import random
import sys

import jax
import jax.numpy as jnp
import jax.tree_util as jtu
import numpy as np

from genjax import gen, normal, seed, sel, const
from genjax.core import distribution
from genjax.inference.mcmc import chain, mh
from genjax.state import save, namespace

tape = distribution(lambda t, p: t, lambda v, t, p: -jnp.abs(v - p), name="tape")


@gen
def model(t):
    x = tape(t, 0.0) @ "x"
    return x


def make_kernel(kind, extra):
    def kernel(trace):
        x = trace.get_choices()["x"]
        if kind == 0:
            acc = jnp.mod(x, 3.0) == 0.0
            newx = jnp.mod(2.0 * x + 1.0, 17.0)
        elif kind == 1:
            acc = jnp.mod(x, 2.0) == 0.0
            newx = jnp.mod(x + 3.0, 11.0)
        else:
            # a backward sweep inside the kernel (reverse lax.scan with an order-sensitive carry)
            acc = jnp.mod(x, 3.0) != 1.0
            newx, _ = jax.lax.scan(lambda h, d: (jnp.mod(2.0 * h + d, 13.0), None), x,
                                   jnp.asarray([1.0, 2.0, 3.0], dtype=jnp.float32), reverse=True)
        args = trace.get_args()
        new_trace, _, _ = model.update(trace, {"x": newx}, *args[0], **args[1])
        final = jtu.tree_map(lambda a, b: jax.lax.select(acc, a, b), new_trace, trace)
        if extra == 2:
            # a composite kernel: the step's own accept at the root, then a namespaced sub-move's diagnostic
            # that is also called accept (and differs)
            save(accept=acc)
            namespace(lambda: save(accept=jnp.logical_not(acc), extra=x * 2.0), "sub_move")()
        elif extra:
            save(accept=acc, extra=x * 2.0)
        else:
            save(accept=acc)
        return final
    return kernel


@gen
def target():
    mu = normal(0.0, 1.0) @ "mu"
    y = normal(mu, 0.5) @ "y"
    return y


def bits(a):
    return [int(v) for v in np.asarray(a, dtype=np.float32).view(np.int32).ravel()]


def main():
    out, sd, tier = sys.argv[1], int(sys.argv[2]), sys.argv[3]
    rng = random.Random(sd)
    cases = []
    grid = []
    nmax = 9 if tier == "quick" else 12
    for n in range(1, nmax + 1):
        for burn in range(0, n):
            for thin in range(1, 5):
                grid.append((n, burn, thin))
    if tier == "quick":
        grid = rng.sample(grid, 40)
    for (n, burn, thin) in grid:
        kind = rng.randrange(3)
        extra = rng.choice([0, 0, 0, 1, 1, 2])
        nch = rng.choice([1, 1, 3]) if tier == "quick" else rng.choice([1, 3])
        init = rng.randint(0, 12)
        tr0 = model.simulate(jnp.float32(init))
        c = {"kind": "chain", "k": kind, "n": n, "burn": burn, "thin": thin, "nchains": nch, "init": init, "extra": extra}
        try:
            res = chain(make_kernel(kind, extra))(tr0, const(n), burn_in=const(burn),
                                                  autocorrelation_resampling=const(thin), n_chains=const(nch))
            xs = np.asarray(res.traces.get_choices()["x"])
            acc = np.asarray(res.accepts)
            if nch == 1:
                xs, acc = xs[None], acc[None]
                rates = [float(res.acceptance_rate)]
            else:
                rates = [float(np.mean(acc[i])) for i in range(nch)]
                c["overall_rate_ok"] = bool(abs(float(res.acceptance_rate) - float(np.mean(acc))) < 1e-6)
            m = xs.shape[1]
            c["states"] = [[int(v) for v in row] for row in xs]
            c["accepts"] = [[bool(v) for v in row] for row in acc]
            c["accepted"] = [int(round(r * m)) for r in rates]
            c["rate_ok"] = all(abs(r * m - round(r * m)) < 1e-4 for r in rates)
            c["nsteps"] = int(res.n_steps.value)
            c["leading_axis_ok"] = (xs.shape[0] == nch and acc.shape == xs.shape)
        except Exception as e:  # noqa: BLE001
            c["err"] = type(e).__name__ + ": " + str(e)[:200]
        cases.append(c)
    # real mh under seed: thinned vs un-thinned with the same key
    tr = seed(lambda: target.generate({"y": 1.0}))(jax.random.key(sd))[0]
    kern = lambda t: mh(t, sel("mu"))  # noqa: E731
    sl = rng.sample(grid, 6 if tier == "quick" else 40)
    for (n, burn, thin) in sl:
        key = jax.random.key(rng.randrange(10 ** 6))
        c = {"kind": "slice", "n": n, "burn": burn, "thin": thin}
        try:
            full = seed(chain(kern))(key, tr, const(n))
            thn = seed(chain(kern))(key, tr, const(n), burn_in=const(burn), autocorrelation_resampling=const(thin))
            c["full"] = bits(full.traces.get_choices()["mu"])
            c["fullacc"] = [bool(v) for v in np.asarray(full.accepts)]
            c["thinned"] = bits(thn.traces.get_choices()["mu"])
            c["thinacc"] = [bool(v) for v in np.asarray(thn.accepts)]
            c["nsteps"] = int(thn.n_steps.value)
            c["distinct_states"] = len(set(c["full"]))
        except Exception as e:  # noqa: BLE001
            c["err"] = type(e).__name__ + ": " + str(e)[:200]
        cases.append(c)
    json.dump(cases, open(out, "w"))


if __name__ == "__main__":
    main()
