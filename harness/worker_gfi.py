"""Generate GFI cases and run them on the implementation (inside the overlay).

usage: worker_gfi.py OUT.json SEED N KINDS [options as k=v]
KINDS: comma list of sim,assess,gen,hist
"""
from __future__ import annotations

import json
import random
import sys
import traceback

import jax
import jax.numpy as jnp

from gfi_build import (NotIntegral, ProgGen, addresses, build, build_sel, canon_cm, canon_val,
                       err_kind, features, gen_sel, obs_trace, perturb, sub_constraint,
                       to_impl_args)


def run_guard(f):
    try:
        return {"ok": f()}
    except NotIntegral:
        raise
    except Exception as e:  # noqa: BLE001
        return {"err": err_kind(e), "msg": str(e)[:200]}


def flip_args(rng, vals, tys, p=0.6):
    out = []
    for v, t in zip(vals, tys):
        if rng.random() > p:
            out.append(v)
        elif t == "B":
            out.append(not v)
        elif t == "S":
            out.append(v + rng.randint(-2, 2))
        else:
            out.append([x + rng.randint(-2, 2) for x in v])
    return out


class RecordedArgs(Exception):
    pass


def recorded_args_ok(tr, passed):
    """leaves of tr.get_args() (positional arguments, then empty kwargs; Cond: check first) equal the
    passed arguments, up to the broadcasting a vectorised trace applies to unmapped arguments"""
    import numpy as np
    rec = jax.tree_util.tree_leaves(tr.get_args())
    want = jax.tree_util.tree_leaves(passed)
    if len(rec) != len(want):
        return True        # a recording convention this harness does not know: not judged
    for r, w_ in zip(rec, want):
        try:
            if not bool(np.all(np.asarray(r) == np.asarray(w_))):
                return False
        except ValueError:
            continue           # shapes not comparable: not judged
    return True


def make_case(rng, kind, opts):
    pg = ProgGen(rng, max_depth=int(opts.get("depth", 2)),
                 allow=tuple(opts.get("allow", "dist,fn,cond,vmap,scan").split(",")),
                 collide=float(opts.get("collide", 0.03)),
                 dkinds=tuple(int(k) for k in opts.get("dkinds", "0,1,2").split(",")))
    mix = kind == "hist" and rng.random() < float(opts.get("mixture", 0.0))
    g, tys = pg.mixture() if mix else pg.top()
    gf = build(g)
    args = pg.args_for(tys)
    iargs = to_impl_args(args)
    mode = "jit" if rng.random() < float(opts.get("jit", 0.15)) else "eager"
    case = {"kind": kind, "g": g, "args": args, "mode": mode, "feat": features(g)}

    def maybe_jit(f):
        return jax.jit(f) if mode == "jit" else f

    if kind == "sim":
        case["obs"] = run_guard(lambda: obs_trace(g, maybe_jit(lambda *a: gf.simulate(*a))(*iargs)))
        return case

    # a reference trace to draw in-support choice maps from
    args_b = flip_args(rng, args, tys, 0.7)
    try:
        tr_b = gf.simulate(*to_impl_args(args_b))
        ch_b = tr_b.get_choices()
    except NotIntegral:
        raise
    except Exception:  # noqa: BLE001
        return None

    if kind == "assess":
        x = perturb(rng, ch_b) if rng.random() < 0.5 else ch_b
        case["x"] = canon_cm(g, x)

        def f():
            w, r = maybe_jit(lambda x, *a: gf.assess(x, *a))(x, *iargs)
            return {"w": canon_val(w), "ret": canon_val(r)}
        case["obs"] = run_guard(f)
        return case

    if kind == "gen":
        r = rng.random()
        if r < 0.1:
            x = None
        elif r < 0.2:
            x = {} if isinstance(ch_b, dict) else None
        elif r < 0.35:
            x = ch_b
        else:
            x = sub_constraint(rng, perturb(rng, ch_b), rng.choice([0.3, 0.5, 0.8]))
        case["x"] = None if x is None else canon_cm(g, x)

        def f():
            tr, w = maybe_jit(lambda x, *a: gf.generate(x, *a))(x, *iargs)
            return {"tr": obs_trace(g, tr), "w": canon_val(w)}
        case["obs"] = run_guard(f)
        return case

    if kind == "hist":
        case["mode"] = "eager"
        try:
            tr = gf.simulate(*iargs)
        except NotIntegral:
            raise
        except Exception:  # noqa: BLE001
            return None
        alphabet = sorted(addresses(g)) or [0]
        nops = rng.randint(1, int(opts.get("maxops", 4)))
        ops, obs = [], []
        cur_args, last_discard = args, None
        for _ in range(nops):
            r = rng.random()
            new_args = flip_args(rng, cur_args, tys, rng.choice([0.0, 0.3, 0.7]))
            if mix and rng.random() < 0.8:
                # fresh arguments: the indicator crosses its threshold in about half of the moves
                new_args = [rng.randint(-3, 4) for _ in cur_args]
            if not opts.get("flip", True):
                new_args = [a if t != "B" else c for a, c, t in zip(new_args, cur_args, tys)]
            allowed = opts.get("ops", "upd,regen,back").split(",")
            if r < 0.45:
                want = "upd"
            elif r < 0.85:
                want = "regen"
            else:
                want = "back"
            if want not in allowed or (want == "back" and last_discard is None):
                want = "upd" if "upd" in allowed else allowed[0]
            if want == "upd":
                ch = tr.get_choices()
                q = rng.random()
                if q < 0.1:
                    x = None
                elif q < 0.2:
                    x = {} if isinstance(ch, dict) else None
                else:
                    x = sub_constraint(rng, perturb(rng, ch), rng.choice([0.3, 0.6]))
                op = {"op": "upd", "x": None if x is None else canon_cm(g, x), "args": new_args}
                fn = (lambda tr=tr, x=x, a=to_impl_args(new_args): gf.update(tr, x, *a))
            elif want == "regen":
                if mix and rng.random() < 0.75:
                    # indicator, branch argument, both, or "everything outside the Cond"
                    s = rng.choice([["str", 0], ["str", 1], ["or", ["str", 0], ["str", 1]], ["compl", ["str", 2]],
                                    ["dict", [[0, ["all"]], [1, ["all"]]]], ["in", ["compl", ["str", 2]], ["all"]]])
                else:
                    s = gen_sel(rng, 2, alphabet)
                op = {"op": "regen", "sel": s, "args": new_args}
                fn = (lambda tr=tr, s=s, a=to_impl_args(new_args): gf.regenerate(tr, build_sel(s), *a))
            else:
                op = {"op": "back", "args": new_args}
                fn = (lambda tr=tr, d=last_discard, a=to_impl_args(new_args): gf.update(tr, d, *a))
            ops.append(op)
            box = {}

            def f(passed=to_impl_args(new_args)):
                t2, w, d = fn()
                box["t"], box["d"] = t2, d
                if not recorded_args_ok(t2, passed):
                    # the trace must be coherent with respect to its *recorded* arguments (C05): a trace that
                    # records other arguments than the ones the move ran with is reported as a failed move
                    raise RecordedArgs("trace records arguments other than those passed to the move")
                return {"tr": obs_trace(g, t2), "w": canon_val(w), "d": canon_cm(g, d)}
            o = run_guard(f)
            obs.append(o)
            if "err" in o:
                break
            tr, last_discard, cur_args = box["t"], box["d"], new_args
        case["ops"], case["obs"] = ops, obs
        return case
    raise ValueError(kind)


def main():
    out, seed, n, kinds = sys.argv[1], int(sys.argv[2]), int(sys.argv[3]), sys.argv[4].split(",")
    opts = dict(kv.split("=", 1) for kv in sys.argv[5:])
    if "flip" in opts:
        opts["flip"] = opts["flip"] not in ("0", "false")
    rng = random.Random(seed)
    cases = []
    corpus = opts.get("corpus")
    if corpus:
        for c in json.load(open(corpus)):
            cases.append(rerun(c))
    tries = 0
    while len(cases) < n and tries < 20 * n:
        tries += 1
        kind = kinds[tries % len(kinds)]
        st = rng.getstate()
        try:
            c = make_case(rng, kind, opts)
        except NotIntegral:
            c = None
        except Exception:  # noqa: BLE001  generator/building problem: skip but count
            traceback.print_exc()
            c = None
        if c is not None:
            cases.append(c)
    json.dump(cases, open(out, "w"))


def rerun(c):
    """Re-run a stored case (corpus / replay) on the current implementation."""
    g = c["g"]
    gf = build(g)
    iargs = to_impl_args(c["args"])
    kind = c["kind"]
    c = dict(c)
    if kind == "sim":
        c["obs"] = run_guard(lambda: obs_trace(g, gf.simulate(*iargs)))
    elif kind == "assess":
        x = from_model_cm(g, c["x"])

        def f():
            w, r = gf.assess(x, *iargs)
            return {"w": canon_val(w), "ret": canon_val(r)}
        c["obs"] = run_guard(f)
    elif kind == "gen":
        x = None if c["x"] is None else from_model_cm(g, c["x"])

        def f():
            tr, w = gf.generate(x, *iargs)
            return {"tr": obs_trace(g, tr), "w": canon_val(w)}
        c["obs"] = run_guard(f)
    elif kind == "hist":
        tr = gf.simulate(*iargs)
        obs, last = [], None
        for op in c["ops"]:
            a = to_impl_args(op["args"])
            if op["op"] == "upd":
                x = None if op["x"] is None else from_model_cm(g, op["x"])
                fn = (lambda: gf.update(tr, x, *a))
            elif op["op"] == "regen":
                fn = (lambda: gf.regenerate(tr, build_sel(op["sel"]), *a))
            else:
                fn = (lambda: gf.update(tr, last, *a))
            box = {}

            def f(passed=to_impl_args(new_args)):
                t2, w, d = fn()
                box["t"], box["d"] = t2, d
                if not recorded_args_ok(t2, passed):
                    # the trace must be coherent with respect to its *recorded* arguments (C05): a trace that
                    # records other arguments than the ones the move ran with is reported as a failed move
                    raise RecordedArgs("trace records arguments other than those passed to the move")
                return {"tr": obs_trace(g, t2), "w": canon_val(w), "d": canon_cm(g, d)}
            o = run_guard(f)
            obs.append(o)
            if "err" in o:
                break
            tr, last = box["t"], box["d"]
        c["obs"] = obs
    return c


def from_model_cm(g, x):
    """Model-form choice map -> implementation form (stack lanes)."""
    from gfi_build import calls_of, name
    t = g[0]
    if "leaf" in x:
        v = x["leaf"]
        return jnp.asarray(v, dtype=jnp.float32) if isinstance(v, list) else float(v)
    if "none" in x:
        return None
    node = x["node"]
    if t == "fn" or t == "cond":
        subs = {}
        gs = [g] if t == "fn" else [g[1], g[2]]
        for gg in gs:
            if gg[0] == "fn":
                for a, sub in calls_of(gg[1]):
                    subs.setdefault(a, sub)
        return {name(a[1]): from_model_cm(subs[a[1]], v) for a, v in node}
    sub = g[3] if t == "vmap" else g[2]
    lanes = [from_model_cm(sub, v) for _, v in node]
    if not lanes:
        return {}
    return jax.tree_util.tree_map(lambda *ys: jnp.stack([jnp.asarray(y, dtype=jnp.float32) for y in ys]), *lanes)


if __name__ == "__main__":
    main()
