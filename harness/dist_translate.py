"""Translator for C13's first anchor ("thin wrappers choosing the TFP constructor and parameter names"):
reads src/genjax/distributions.py with the Python `ast` module and emits, as Gallina data, one row per
exported distribution: (name, TFP constructor, how the wrapper passes its own parameters on, fixed extra
keyword arguments).  Fail-closed: any assignment shape it does not recognise raises.

    name = tfp_distribution(tfd.X, name="...")                      -> (name, X, PassThrough, [])
    name = tfp_distribution(lambda a, b: tfd.X(a, k=b, dtype=E), …) -> (name, X, Rebind [(a, pos 0); (b, kw k)], [(dtype, E)])
"""
from __future__ import annotations

import ast
import sys


class Unrecognised(Exception):
    pass


def ctor_name(node):
    if isinstance(node, ast.Attribute) and isinstance(node.value, ast.Name) and node.value.id == "tfd":
        return node.attr
    raise Unrecognised(ast.dump(node)[:120])


def translate(path):
    tree = ast.parse(open(path).read())
    rows = []
    for node in tree.body:
        if not (isinstance(node, ast.Assign) and isinstance(node.value, ast.Call)
                and isinstance(node.value.func, ast.Name) and node.value.func.id == "tfp_distribution"):
            continue
        if len(node.targets) != 1 or not isinstance(node.targets[0], ast.Name):
            raise Unrecognised("target of " + ast.unparse(node)[:80])
        name = node.targets[0].id
        call = node.value
        if len(call.args) != 1 or any(k.arg != "name" for k in call.keywords):
            raise Unrecognised("tfp_distribution arguments of " + name)
        c = call.args[0]
        if isinstance(c, ast.Attribute):
            rows.append((name, ctor_name(c), None, []))
            continue
        if not isinstance(c, ast.Lambda):
            raise Unrecognised("constructor of " + name)
        a = c.args
        if a.vararg or a.kwarg or a.kwonlyargs or a.defaults or a.posonlyargs:
            raise Unrecognised("lambda signature of " + name)
        params = [x.arg for x in a.args]
        body = c.body
        if not isinstance(body, ast.Call):
            raise Unrecognised("lambda body of " + name)
        ctor = ctor_name(body.func)
        binds, extra, used = [], [], set()
        for i, x in enumerate(body.args):
            if not (isinstance(x, ast.Name) and x.id in params):
                raise Unrecognised(f"positional argument {i} of {name}")
            binds.append((x.id, "pos", str(i)))
            used.add(x.id)
        for k in body.keywords:
            if k.arg is None:
                raise Unrecognised("**kwargs in " + name)
            if isinstance(k.value, ast.Name) and k.value.id in params:
                binds.append((k.value.id, "kw", k.arg))
                used.add(k.value.id)
            else:
                extra.append((k.arg, ast.unparse(k.value)))
        if used != set(params) or len(binds) != len(params):
            raise Unrecognised("every lambda parameter must be passed on exactly once in " + name)
        binds.sort(key=lambda b: params.index(b[0]))
        rows.append((name, ctor, binds, extra))
    return rows


def gallina(rows):
    def s(x):
        return '"' + x.replace('"', "'") + '"'
    out = []
    for name, ctor, binds, extra in rows:
        if binds is None:
            how = "PassThrough"
        else:
            how = "Rebind [" + "; ".join(
                f"({s(p)}, " + (f"ByPos {int(t)}%nat" if k == "pos" else f"ByKw {s(t)}") + ")" for p, k, t in binds) + "]"
        ex = "[" + "; ".join(f"({s(k)}, {s(v)})" for k, v in extra) + "]" if extra else "[]"
        out.append(f"  ({s(name)}, {s(ctor)}, {how}, {ex})")
    return "[\n" + ";\n".join(out) + "\n]"


if __name__ == "__main__":
    print(gallina(translate(sys.argv[1])))
