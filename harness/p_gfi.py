"""C01-C05: generative-function interface.  Model: coq/Model/Gfi.v; theorems:
coq/Properties/C0x.v; correspondence: worker_gfi.py + coq/Model/Corr.v."""
from __future__ import annotations

import hashlib
import json
import os
from collections import Counter

import common
import coqgen

CONF = {
    "C01": dict(kinds="sim,assess", n=(240, 2400), opts=["depth=2", "collide=0.05", "jit=0.2", "dkinds=0,1,2,4"]),
    "C02": dict(kinds="gen", n=(220, 2200), opts=["depth=2", "collide=0.02", "jit=0.15", "dkinds=0,1,2,4,4"]),
    "C03": dict(kinds="hist", n=(200, 2000), opts=["depth=2", "collide=0", "ops=upd,back", "maxops=4", "mixture=0.15"]),
    "C04": dict(kinds="hist", n=(200, 2000), opts=["depth=2", "collide=0", "ops=regen", "maxops=3", "mixture=0.25"]),
    "C05": dict(kinds="hist", n=(160, 1600), opts=["depth=2", "collide=0", "ops=upd,regen,back", "maxops=8", "mixture=0.15"]),
}

SRC = ["src/genjax/core.py", "src/genjax/pjax.py"]


def nsites(g):
    t = g[0]
    if t == "dist":
        return 1
    if t == "fn":
        n, p = 0, g[1]
        while p[0] == "call":
            n += nsites(p[2])
            p = p[4]
        return n
    if t == "cond":
        return nsites(g[1]) + nsites(g[2])
    if t == "vmap":
        return g[1] * nsites(g[3])
    return g[1] * nsites(g[2])


def nontrivial(c):
    if nsites(c["g"]) < 2:
        return False
    if c["kind"] == "hist":
        return len(c["ops"]) >= 1 and any("ok" in o for o in c["obs"])
    if c["kind"] == "gen":
        return c.get("x") is not None
    return True


def extra_stream(ctx, tag, kinds, n, opts, shards=2):
    """run worker_gfi with the given options and judge the cases with Model/Corr.v; used by other
    properties' runners that rest on GFI moves (C09: the regenerate weight mh accepts with)"""
    import subprocess
    import overlay
    env_root = ctx.ensure_overlay()
    env = overlay.env_for(env_root)
    env["PYTHONPATH"] = env_root + os.pathsep + common.HARNESS
    procs = []
    for k in range(shards):
        out = os.path.join(ctx.scratch, f"{tag}_{k}.json")
        procs.append((out, subprocess.Popen([common.PY, os.path.join(common.HARNESS, "worker_gfi.py"), out,
                                             str(ctx.seed * 1000 + 500 + k), str((n + shards - 1) // shards), kinds] + opts,
                                            env=env, stdout=subprocess.PIPE, stderr=subprocess.PIPE, text=True, cwd=ctx.scratch)))
    cases, files, worker_errs = [], [], []
    for k, (out, pr) in enumerate(procs):
        so, se = pr.communicate(timeout=3000)
        if pr.returncode != 0 or not os.path.exists(out):
            worker_errs.append(se[-1500:])
            continue
        cs = json.load(open(out))
        vf = os.path.join(ctx.scratch, f"cases_{tag}_{k}.v")
        open(vf, "w").write(coqgen.cases_file(cs))
        files.append((vf, len(cases)))
        cases.extend(cs)
    res = common.eval_cases_files([f for f, _ in files])
    bad, coq_errs = [], []
    for vf, off in files:
        r = res[vf]
        if "error" in r:
            coq_errs.append(r["error"])
        else:
            bad += [(off + i, a, s_, x) for (i, a, s_, x) in r["bad"]]
    return cases, bad, worker_errs, coq_errs


def run(ctx):
    pid = ctx.pid
    conf = CONF[pid]
    n = conf["n"][0 if ctx.tier == "quick" else 1]
    shards = 4 if ctx.tier == "quick" else 12
    per = (n + shards - 1) // shards
    import subprocess
    procs = []
    env_root = ctx.ensure_overlay()
    import overlay
    env = overlay.env_for(env_root)
    env["PYTHONPATH"] = env_root + os.pathsep + common.HARNESS
    corpus = os.path.join(common.ROOT, "corpus", f"{pid}.json")
    for k in range(shards):
        out = os.path.join(ctx.scratch, f"cases_{k}.json")
        args = [common.PY, os.path.join(common.HARNESS, "worker_gfi.py"), out,
                str(ctx.seed * 1000 + k), str(per), conf["kinds"]] + conf["opts"]
        if k == 0 and os.path.exists(corpus):
            args.append(f"corpus={corpus}")
        procs.append((out, subprocess.Popen(args, env=env, stdout=subprocess.PIPE,
                                            stderr=subprocess.PIPE, text=True, cwd=ctx.scratch)))
    all_cases, files, worker_errs = [], [], []
    for k, (out, pr) in enumerate(procs):
        so, se = pr.communicate(timeout=3000)
        if pr.returncode != 0 or not os.path.exists(out):
            worker_errs.append(se[-1500:])
            continue
        cases = json.load(open(out))
        vf = os.path.join(ctx.scratch, f"cases_{pid}_{k}.v")
        open(vf, "w").write(coqgen.cases_file(cases))
        files.append((vf, len(all_cases)))
        all_cases.extend(cases)
    res = common.eval_cases_files([f for f, _ in files])
    bad, coq_errs = [], []
    for vf, off in files:
        r = res[vf]
        if "error" in r:
            coq_errs.append(r["error"])
            continue
        for (i, a, s, rlx) in r["bad"]:
            bad.append((off + i, a, s, rlx))
    # law under seed (C01 / C02): consecutive stochastic sub-calls get pairwise distinct site keys
    indep = []
    if pid in ("C01", "C02"):
        iout = os.path.join(ctx.scratch, "indep.json")
        pr = subprocess.run([common.PY, os.path.join(common.HARNESS, "worker_indep.py"), iout, str(ctx.seed * 10 + (1 if pid == "C01" else 2)),
                             str(10 if ctx.tier == "quick" else 100)], env=env, capture_output=True, text=True, cwd=ctx.scratch)
        if pr.returncode != 0 or not os.path.exists(iout):
            worker_errs.append(pr.stderr[-1500:])
        else:
            indep = json.load(open(iout))
    # histories that contain MCMC kernel applications (C05): mala / hmc / mh steps on Gaussian programs with
    # scripted noise - frame (never-selected addresses keep their values), accept rule and coherence of the result
    kern = []
    if pid == "C05":
        import p_mcmc
        kcases, kbad, kerrs, kcoq = p_mcmc.kernel_stream(ctx, 40 if ctx.tier == "quick" else 400, 2 if ctx.tier == "quick" else 8,
                                                          tag="c05k", seed_shift=50)
        for kc in kcases:
            kc["gkind"], kc["kind"] = kc["kind"], "kernel"
        kern = kcases
        worker_errs += kerrs
        coq_errs += kcoq
    # coverage statistics
    seen, distinct_nt = set(), 0
    feat, kinds, errk, opsk = Counter(), Counter(), Counter(), Counter()
    for c in all_cases:
        h = hashlib.sha256(json.dumps([c["g"], c["args"], c.get("x"), c.get("ops")], sort_keys=True).encode()).hexdigest()
        kinds[c["kind"]] += 1
        for k, v in c.get("feat", {}).items():
            feat[k] += 1
        obs = c["obs"] if isinstance(c["obs"], list) else [c["obs"]]
        for o in obs:
            if "err" in o:
                errk[o["err"]] += 1
        for op in c.get("ops", []):
            opsk[op["op"]] += 1
        if h not in seen:
            seen.add(h)
            if nontrivial(c):
                distinct_nt += 1
    if kern:
        offk = len(all_cases)
        all_cases = all_cases + kern
        bad = bad + [(offk + i, a, s_, x) for (i, a, s_, x) in kbad]
        distinct_nt += len({json.dumps([c.get("model"), c.get("sel"), c.get("xs")], sort_keys=True) for c in kern if "err" not in c})
    off = len(all_cases)
    all_cases = all_cases + indep
    bad = bad + [(off + i, False, False, False) for i, c in enumerate(indep) if not c.get("ok")]
    distinct_nt += len({json.dumps([c["shapes"], c["between"], c["mode"]]) for c in indep if c.get("ok")})
    return {
        "cases": all_cases, "bad": bad, "worker_errs": worker_errs, "coq_errs": coq_errs,
        "coverage": {
            "evaluations": len(all_cases), "distinct_nontrivial": distinct_nt,
            "rule": "kernel steps (C05 only): mala / hmc / mh applications with scripted noise on Gaussian programs (nested, vectorised, site inside a Cond) judged by Model/CorrMcmc.v - "
                    "final values of every site (frame), accept rule, and coherence of the returned trace (score = -assess of its choices under the recorded arguments, return value).  "
                    "law under seed (C01/C02 only): @gen programs of 2-4 consecutive stochastic sub-calls (Scan, nested fn, plain site; optionally a site that generate constrains "
                    "in between) over a key-echo distribution, seeded simulate / generate (eager and jit): all site keys pairwise distinct.  "
                    "random programs over {stub dist, @gen fn, Cond, Vmap, Scan} (depth<=2, <=4 sites per fn) with "
                    "random integer arguments/constraints/selections; each case is run on the implementation "
                    "(through the overlay) and on the Coq model (vm_compute) and judged against the spec semantics; "
                    "non-trivial = distinct (program,args,constraint,ops) with >=2 sites (and >=1 successful op / a non-None constraint)",
            "histogram": {"kinds": kinds, "programs_containing": feat, "impl_errors": errk, "ops": opsk,
                          "seeded_independence": {"cases": len(indep), "keys": sum(c.get("nkeys", 0) for c in indep)},
                                       "kernel_steps": Counter(c.get("gkind") for c in kern)},
            "samples": [{k: c[k] for k in c if k != "feat"} for c in all_cases[:2]],
        },
    }


def signature(case, agree, strict, relaxed):
    """Known-finding signatures for GFI cases."""
    if case["kind"] == "hist" and agree and not strict and relaxed:
        return "K1-cond-flip-values"
    return None


def replay(ctx, payload):
    """Re-run one recorded case on the current implementation and model."""
    import subprocess
    import overlay
    case = payload.get("case", payload)
    if case.get("kind") in ("indep", "kernel"):
        # the seeded-independence stream is regenerated from the run's seed: re-run the whole quick check
        return run(ctx)
    corpus = os.path.join(ctx.scratch, "replay_corpus.json")
    json.dump([case], open(corpus, "w"))
    root = ctx.ensure_overlay()
    env = overlay.env_for(root)
    env["PYTHONPATH"] = root + os.pathsep + common.HARNESS
    out = os.path.join(ctx.scratch, "replay_cases.json")
    pr = subprocess.run([common.PY, os.path.join(common.HARNESS, "worker_gfi.py"), out, "0", "0",
                         case["kind"], f"corpus={corpus}"], env=env, capture_output=True, text=True)
    if pr.returncode != 0:
        return {"cases": [], "bad": [], "worker_errs": [pr.stderr[-1500:]], "coq_errs": [],
                "coverage": {"evaluations": 0, "distinct_nontrivial": 0, "rule": "replay", "samples": []}}
    cases = json.load(open(out))
    vf = os.path.join(ctx.scratch, "replay_cases.v")
    open(vf, "w").write(coqgen.cases_file(cases))
    res = common.eval_cases_files([vf])[vf]
    bad = res.get("bad", [])
    return {"cases": cases, "bad": bad, "worker_errs": [], "coq_errs": [res["error"]] if "error" in res else [],
            "coverage": {"evaluations": len(cases), "distinct_nontrivial": len(cases), "rule": "replay of one recorded case",
                         "samples": [{k: c[k] for k in c if k != "feat"} for c in cases]}}
