"""C01 / C02 (law under seed): consecutive stochastic sub-calls of a generative function draw from
separate random streams.  A key-echo distribution makes the key of every site visible in the trace;
all site keys of a seeded simulate / generate must be pairwise distinct (C07's theorem then gives
independence).  Deterministic judgement, no statistics.
usage: worker_indep.py OUT.json SEED N"""
from __future__ import annotations

import json
import random
import sys

import jax
import jax.numpy as jnp
import numpy as np

from genjax import Scan, const, gen, seed
from genjax.core import distribution
from genjax.pjax import wrap_logpdf, wrap_sampler


def _echo(key, x, sample_shape=()):
    kd = jax.random.key_data(key).astype(jnp.uint32)
    return jnp.broadcast_to(kd, tuple(sample_shape) + kd.shape)


echo = distribution(wrap_sampler(_echo, name="kecho"), wrap_logpdf(lambda v, x: jnp.float32(0.0)), name="kecho")
fixed = distribution(wrap_sampler(lambda key, x, sample_shape=(): jnp.float32(0.0) + x, name="fixed"),
                     wrap_logpdf(lambda v, x: -jnp.abs(v - x)), name="fixed")


def leaves_keys(ch):
    out = []
    for leaf in jax.tree_util.tree_leaves(ch):
        a = np.asarray(leaf)
        if a.dtype == np.uint32 and a.shape and a.shape[-1] == 2:
            out += [tuple(int(v) for v in r) for r in a.reshape(-1, 2)]
    return out


def make(rng):
    """@gen program: several sub-calls in a row (Scan, Vmap, plain site, nested fn), optionally separated by a
    site that the generate case constrains (a constrained site draws nothing)"""
    n1, n2 = rng.choice([2, 3]), rng.choice([2, 3])
    # (a vectorised site draws all its lanes from one key, so key echoes cannot tell lanes apart: Vmap is left to C08)
    shapes = [rng.choice(["scan", "scan", "site", "fn"]) for _ in range(rng.choice([2, 3, 4]))]
    between = rng.random() < 0.6

    @gen
    def step(c, x):
        k = echo(x) @ "k"
        return c + 1.0, k

    @gen
    def inner(x):
        a = echo(x) @ "p"
        b = echo(x) @ "q"
        return a

    @gen
    def model(x):
        for i, sh in enumerate(shapes):
            if sh == "scan":
                Scan(step, length=const(n1 if i % 2 == 0 else n2))(jnp.float32(0.0), jnp.zeros(n1 if i % 2 == 0 else n2)) @ f"s{i}"
            elif sh == "site":
                echo(x) @ f"s{i}"
            else:
                inner(x) @ f"s{i}"
            if between and i == 0:
                fixed(x) @ "m"
        return x
    return model, shapes, between


def main():
    out, sd, n = sys.argv[1], int(sys.argv[2]), int(sys.argv[3])
    rng = random.Random(sd)
    cases = []
    for _ in range(n):
        model, shapes, between = make(rng)
        mode = rng.choice(["simulate", "generate", "generate_jit"])
        c = {"kind": "indep", "shapes": shapes, "between": between, "mode": mode}
        try:
            key = jax.random.key(rng.randrange(10 ** 6))
            x = jnp.float32(1.0)
            if mode == "simulate":
                tr = seed(model.simulate)(key, x)
            else:
                cons = {"m": jnp.float32(1.0)} if between else {}
                f = seed(lambda xx: model.generate(cons, xx)[0])
                tr = (jax.jit(f) if mode == "generate_jit" else f)(key, x)
            ks = leaves_keys(tr.get_choices())
            c["nkeys"], c["distinct"] = len(ks), len(set(ks))
            c["ok"] = bool(len(ks) >= 2 and len(set(ks)) == len(ks))
        except Exception as e:  # noqa: BLE001
            c["err"] = type(e).__name__ + ": " + str(e)[:200]
            c["ok"] = False
        cases.append(c)
    json.dump(cases, open(out, "w"))


if __name__ == "__main__":
    main()
