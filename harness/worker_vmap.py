"""C08 cases: modular_vmap on deterministic code, density sites and sample sites.
usage: worker_vmap.py OUT.json SEED N"""
from __future__ import annotations

import json
import random
import sys

import jax
import jax.numpy as jnp
import numpy as np

from genjax import modular_vmap, normal, seed
from genjax.pjax import wrap_sampler


def _pecho(key, a, b, sample_shape=()):
    """sampler contract: output shape = sample_shape + broadcast(shape a, shape b); here the
    'draw' at each position reveals the parameter elements it was drawn with"""
    bs = jnp.broadcast_shapes(jnp.shape(a), jnp.shape(b))
    return jnp.broadcast_to(a + 1000.0 * b, tuple(sample_shape) + bs)


pecho = wrap_sampler(_pecho, name="pecho")
KEY = jax.random.key(0)


def ids(shape, mult=1.0):
    n = int(np.prod(shape)) if shape else 1
    return (jnp.arange(1, n + 1, dtype=jnp.float32) * mult).reshape(shape)


def sample_case(rng):
    n = rng.choice([1, 2, 3])
    R = rng.choice([0, 1, 1, 2])                 # per-lane rank of the output
    pl = [rng.choice([1, 2, 3]) for _ in range(R)]
    S = [rng.choice([2, 3]) for _ in range(rng.choice([0, 0, 1, 1, 2]))]      # the site's own sample_shape (rank 0-2)
    mismatch = rng.random() < 0.15              # known finding K3: differing per-lane ranks

    def mk(batched_p=0.7):
        batched = rng.random() < batched_p
        if batched:
            r = R
            per = [d if rng.random() < 0.7 else 1 for d in pl[len(pl) - r:]] if r else []
            ax = rng.randint(0, len(per))        # where the lane axis sits in the argument
            return {"batched": True, "per": per, "axis": ax}
        r = rng.randint(0, R)
        per = [d if rng.random() < 0.7 else 1 for d in pl[len(pl) - r:]] if r else []
        return {"batched": False, "per": per, "axis": None}
    xa, xb = mk(), mk()
    if mismatch and R >= 1:
        # both batched, one with a smaller per-lane rank (known finding K3)
        r = rng.randint(0, R - 1)
        xa = {"batched": True, "per": list(pl), "axis": rng.randint(0, R)}
        xb = {"batched": True, "per": list(pl[len(pl) - r:]) if r else [], "axis": rng.randint(0, r)}
        if rng.random() < 0.5:
            xa, xb = xb, xa
    given = rng.random() < 0.5 or not (xa["batched"] or xb["batched"])
    c = {"kind": "sample", "n": n, "S": S, "pl": pl, "a": xa, "b": xb, "axis_size": n if given else None,
         "mismatch": mismatch}

    def build(x, mult):
        front = ([n] if x["batched"] else []) + x["per"]
        arr = ids(tuple(front), mult)
        if x["batched"] and x["axis"]:
            arr = jnp.moveaxis(arr, 0, x["axis"])
        return arr, front
    A, fa = build(xa, 1.0)
    B, fb = build(xb, 1.0)
    c["sa"], c["sb"] = fa, fb
    in_axes = (xa["axis"], xb["axis"])
    site = (lambda a, b: pecho(a, b, sample_shape=tuple(S))) if S else (lambda a, b: pecho(a, b))
    try:
        out = seed(modular_vmap(site, in_axes=in_axes, axis_size=c["axis_size"]))(KEY, A, B)
        ref = jax.vmap(lambda a, b: _pecho(None, a, b, sample_shape=tuple(S)), in_axes=in_axes,
                       axis_size=c["axis_size"])(A, B)
        c["shape"] = list(out.shape)
        c["ref_shape"] = list(ref.shape)
        o = np.asarray(out)
        if list(o.shape) == [n] + S + [int(d) for d in np.broadcast_shapes(tuple(xa["per"]), tuple(xb["per"]))] or True:
            flat = o.reshape(-1)
            c["obs"] = [[int(round(v)) % 1000 - 1, int(round(v)) // 1000 - 1] for v in flat]
        c["equals_vmap"] = bool(out.shape == ref.shape and jnp.all(out == ref))
        c["out_pl"] = list(o.shape[1 + len(S):]) if o.ndim >= 1 + len(S) else None
    except Exception as e:  # noqa: BLE001
        c["err"] = type(e).__name__ + ": " + str(e)[:160]
    return c


# ---- deterministic / density / nested cases compared against jax.vmap ----------


def det_functions():
    return [
        ("affine", lambda x, y: x * 2.0 + y, 2),
        ("sum_axis", lambda x, y: jnp.sum(x, axis=-1) + jnp.sum(y), 2),
        ("matvec", lambda x, y: x @ y if (x.ndim == 2 and y.ndim == 1) else jnp.sum(x) * y, 2),
        ("index", lambda x, y: x[..., 0] * y[..., -1], 2),
        ("scan", lambda x, y: jax.lax.scan(lambda c, v: (c + v, c * v), jnp.sum(y), x.reshape(-1))[1], 2),
        ("cond", lambda x, y: jax.lax.cond(jnp.sum(x) > jnp.sum(y), lambda: x * 2.0, lambda: x - 1.0), 2),
        ("pytree", lambda x, y: {"u": x + 1.0, "v": (y * 3.0, jnp.sum(x))}, 2),
        # control flow handled by the ModularVmap interpreter's own scan / cond branches
        ("scan_reverse", lambda x, y: jax.lax.scan(lambda c, v: (c * 0.5 + v, c - v), jnp.sum(y), x.reshape(-1), reverse=True), 2),
        ("scan_carry_pytree", lambda x, y: jax.lax.scan(lambda c, v: ((c[0] + v, c[1] * 0.5 + c[0]), c[1] - v),
                                                        (jnp.sum(y), jnp.float32(1.0)), x.reshape(-1)), 2),
        ("scan_length_only", lambda x, y: jax.lax.scan(lambda c, _: (c * 0.5 + jnp.sum(x), c), jnp.sum(y), None, length=3), 2),
        ("scan_unroll", lambda x, y: jax.lax.scan(lambda c, v: (c + v, c * v), jnp.sum(y), x.reshape(-1), unroll=2)[1], 2),
        ("fori_loop", lambda x, y: jax.lax.fori_loop(0, 3, lambda i, c: c * 0.5 + x.reshape(-1)[i], jnp.sum(y)), 2),
        ("cond_in_scan", lambda x, y: jax.lax.scan(lambda c, v: (jax.lax.cond(v > c, lambda: c + v, lambda: c - 1.0), c), jnp.sum(y) * 0.1,
                                                   x.reshape(-1))[1], 2),
        ("switch3", lambda x, y: jax.lax.switch(jnp.asarray(jnp.sum(x) > 20.0, jnp.int32) + jnp.asarray(jnp.sum(y) > 4.0, jnp.int32),
                                                [lambda: x * 2.0, lambda: x - 1.0, lambda: x * 0.0]), 2),
        ("nested_scan", lambda x, y: jax.lax.scan(lambda c, row: (c + jax.lax.scan(lambda d, v: (d + v, d), 0.0, row, reverse=True)[0], c),
                                                  jnp.sum(y), x)[1], 2),
    ]


COUNTER = [0]


def tree_equal(a, b):
    la, ta = jax.tree_util.tree_flatten(a)
    lb, tb = jax.tree_util.tree_flatten(b)
    return ta == tb and all(x.shape == y.shape and bool(jnp.all(x == y)) for x, y in zip(la, lb))


_CONST = jnp.asarray([10.0, 20.0, 30.0], dtype=jnp.float32)


def _closure_keyful(key, mu, sample_shape=()):
    return mu + jnp.sum(_CONST) + jax.random.normal(key, tuple(sample_shape) + jnp.shape(mu))


CLOSURE_SAMPLER = wrap_sampler(_closure_keyful, name="closure")


def flag_case(rng):
    r = rng.random()
    n = rng.choice([2, 3])
    c = {"kind": "flag"}
    try:
        if r < 0.5:
            fs = det_functions()
            COUNTER[0] += 1
            name, f, _ = fs[COUNTER[0] % len(fs)]          # every template in turn
            ax0 = rng.choice([0, 1, -1, None])
            ax1 = rng.choice([0, None]) if ax0 is not None else 0
            shx = [2, 3]
            x = ids(tuple(shx))
            if ax0 is not None:
                x = ids((n, 2, 3)) if ax0 == 0 else jnp.moveaxis(ids((n, 2, 3)), 0, ax0 if ax0 != -1 else 2)
            y = ids((n, 3), 0.5) if ax1 == 0 else ids((3,), 0.5)
            c["what"] = f"det:{name}:{ax0}:{ax1}"
            got = modular_vmap(f, in_axes=(ax0, ax1))(x, y)
            want = jax.vmap(f, in_axes=(ax0, ax1))(x, y)
            c["ok"] = tree_equal(got, want)
        elif r < 0.65:
            # density site: batched density equals the per-lane densities stacked
            ax = rng.choice([0, 1])
            v = ids((n, 2)) * 0.25 if ax == 0 else (ids((n, 2)) * 0.25).T
            mu = rng.choice([None, 0])
            m = ids((n,), 0.5) if mu == 0 else jnp.float32(0.5)
            c["what"] = f"density:{ax}:{mu}"
            got = modular_vmap(lambda vv, mm: normal.logpdf(vv, mm, 1.0), in_axes=(ax, mu))(v, m)
            rows = [normal.logpdf(v[i] if ax == 0 else v[:, i], m[i] if mu == 0 else m, 1.0) for i in range(n)]
            c["ok"] = bool(got.shape == (n, 2) and jnp.allclose(got, jnp.stack(rows), atol=1e-6))
        elif r < 0.8:
            # nested modular_vmap / scan / cond around an echo site: same pairing and layout as jax.vmap
            kind = rng.choice(["nested", "scan", "cond", "scan_reverse"])
            c["what"] = f"site-in:{kind}"
            x = ids((n, 2))
            y = ids((2,), 1.0)
            if kind == "nested":
                f = lambda a, b: modular_vmap(lambda aa, bb: pecho(aa, bb), in_axes=(0, 0))(a, b)  # noqa: E731
                g = lambda a, b: jax.vmap(lambda aa, bb: _pecho(None, aa, bb), in_axes=(0, 0))(a, b)  # noqa: E731
            elif kind in ("scan", "scan_reverse"):
                rv = kind == "scan_reverse"
                f = lambda a, b: jax.lax.scan(lambda c0, t: (c0 * 2.0 + 1.0, pecho(t[0] + c0, t[1])), 0.0, (a, b), reverse=rv)[1]  # noqa: E731
                g = lambda a, b: jax.lax.scan(lambda c0, t: (c0 * 2.0 + 1.0, _pecho(None, t[0] + c0, t[1])), 0.0, (a, b), reverse=rv)[1]  # noqa: E731
            else:
                f = lambda a, b: jax.lax.cond(jnp.sum(a) > 4.0, lambda: pecho(a, b), lambda: pecho(b, a))  # noqa: E731
                g = lambda a, b: jax.lax.cond(jnp.sum(a) > 4.0, lambda: _pecho(None, a, b), lambda: _pecho(None, b, a))  # noqa: E731
            got = seed(modular_vmap(f, in_axes=(0, None)))(KEY, x, y)
            want = jax.vmap(g, in_axes=(0, None))(x, y)
            c["ok"] = tree_equal(got, want)
        else:
            # real sampler: one independent draw per lane, never one draw broadcast
            mode = rng.choice(["axis_size", "mapped", "mapped_ax1", "closure_mapped", "closure_axis_size"])
            c["what"] = f"real:{mode}"
            k = jax.random.key(rng.randrange(10 ** 6))
            if mode.startswith("closure"):
                # a sampler that closes over an array constant (staged as a constant of the site)
                out = (seed(modular_vmap(lambda m: CLOSURE_SAMPLER(m), in_axes=(0,)))(k, jnp.zeros(4)) if mode == "closure_mapped"
                       else seed(modular_vmap(lambda: CLOSURE_SAMPLER(0.0), axis_size=4))(k))
                o0 = np.asarray(out)
                if not (o0.shape == (4,) and bool(np.all(o0 > 50.0))):      # the constant's sum is 60
                    raise ValueError(f"closure constant not applied: {o0.tolist()}")
            elif mode == "axis_size":
                out = seed(modular_vmap(lambda m: normal.sample(m, 1.0), in_axes=(None,), axis_size=4))(k, 0.0)
            elif mode == "mapped":
                out = seed(modular_vmap(lambda m: normal.sample(m, 1.0), in_axes=(0,)))(k, jnp.zeros(4))
            else:
                out = seed(modular_vmap(lambda m: normal.sample(m, 1.0), in_axes=(1,)))(k, jnp.zeros((2, 4)))
            o = np.asarray(out)
            c["ok"] = bool(o.shape[0] == 4 and len(set(np.round(o.reshape(4, -1)[:, 0], 6).tolist())) == 4)
    except Exception as e:  # noqa: BLE001
        c["err"] = type(e).__name__ + ": " + str(e)[:160]
        c["ok"] = False
    return c


def main():
    out, sd, n = sys.argv[1], int(sys.argv[2]), int(sys.argv[3])
    rng = random.Random(sd)
    COUNTER[0] = sd * 4          # shards start at different templates
    cases = []
    for i in range(n):
        cases.append(sample_case(rng) if i % 2 == 0 else flag_case(rng))
    json.dump(cases, open(out, "w"))


if __name__ == "__main__":
    main()
