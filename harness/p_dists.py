"""C13: distributions.  Model: coq/Model/Dists.v; theorems: coq/Properties/C13.v;
correspondence: worker_dists.py + coq/Model/CorrDists.v (log densities decided by the Interval
tactic inside Coq; shapes / dtypes by computation; sampler law by goodness of fit against scipy)."""
from __future__ import annotations

import json
import os
import re
import subprocess
from collections import Counter

import common
import overlay
from coqgen import n

SRC = ["src/genjax/distributions.py", "src/genjax/core.py", "src/genjax/pjax.py"]
TRUSTED_EXTRA = [
    "standard-library axioms of the classical real numbers reported by Print Assumptions for the C13 theorems: ClassicalDedekindReals.sig_not_dec, "
    "ClassicalDedekindReals.sig_forall_dec, FunctionalExtensionality.functional_extensionality_dep, Classical_Prop.classic (via Reals / Coquelicot)",
    "coq-interval 4 (Interval.Tactic): the per-case goals |obs - den spec| <= tol are closed by its reflexive interval arithmetic (checked by the kernel through vm_compute)",
    "harness/dist_translate.py: translator (Python ast, fail-closed, ~90 lines) from src/genjax/distributions.py to the Gallina table of wrappers; "
    "Model/DistTable.v:tfp_sig_table (positional parameter order of the TFP constructors) is a trusted statement about the TFP API",
    "scipy.stats reference CDFs / PMFs for the goodness-of-fit part of the correspondence (sampler law); statistical, rejection threshold p < 1e-6 with fixed keys",
]
ASSUMPTIONS = ["model = implementation is checked on the generated cases only",
               "Gamma-function families are specified (and compared) on integer / half-integer shape parameters only; zipf at powers 2 and 4 only; multivariate_normal in 2 dimensions",
               "that the TFP samplers draw from the specified density is checked statistically, not proved"]


def q(x):
    return f"({x[0]} # {x[1]})"


def qs(l):
    return "[" + "; ".join(q(x) for x in l) + "]" if l else "(@nil Q)"


def strs(l):
    return "[" + "; ".join(f'"{s}"' for s in l) + "]" if l else "(@nil string)"


def nl(l):
    return "[" + "; ".join(n(x) for x in l) + "]" if l else "(@nil nat)"


def nll(l):
    return "[" + "; ".join(nl(x) for x in l) + "]" if l else "(@nil (list nat))"


def lp_line(i, c):
    return f'lp_case {n(i)} "{c["name"]}" {strs(c["kws"])} {qs(c["params"])} {qs(c["value"])} {q(c["obs"])} {q(c["tol"])}.'


def shcase(c):
    if "err" in c:
        return "CFlagD false"
    if c["kind"] == "layout":
        return f"CFlagD {'true' if c['ok'] else 'false'}"
    if c["kind"] == "law":
        return f"CFlagD {'true' if c['ok'] and c['distinct'] >= 2 else 'false'}"
    return (f'CShape "{c["name"]}" {nl(c["lanes"])} {nl(c["ss"])} {nll(c["batches"])} {nl(c["event"])} '
            f'{nl(c["shape"])} {n(c["dtype"])}')


def run_lp_file(vf):
    p = subprocess.run(["timeout", "1500", "coqc", "-Q", common.COQ, "GV", vf], capture_output=True, text=True)
    out = p.stdout + p.stderr
    res = {int(i): v for i, v in re.findall(r"CASE (\d+)(?:%nat)? (OK|BAD|UNDECIDED|NOSPEC)", out)}
    return p.returncode, out, res


def run(ctx):
    nn = 320 if ctx.tier == "quick" else 3200
    shards = 8 if ctx.tier == "quick" else 14
    root = ctx.ensure_overlay()
    env = overlay.env_for(root)
    env["PYTHONPATH"] = root + os.pathsep + common.HARNESS
    procs = []
    for k in range(shards):
        out = os.path.join(ctx.scratch, f"d_{k}.json")
        procs.append((out, subprocess.Popen([common.PY, "-W", "ignore", os.path.join(common.HARNESS, "worker_dists.py"), out,
                                             str(ctx.seed * 100 + k), str((nn + shards - 1) // shards)],
                                            env=env, stdout=subprocess.PIPE, stderr=subprocess.PIPE, text=True,
                                            cwd=ctx.scratch)))
    cases, worker_errs, exported_ok = [], [], True
    for out, pr in procs:
        so, se = pr.communicate(timeout=6000)
        if pr.returncode != 0 or not os.path.exists(out):
            worker_errs.append(se[-1500:])
            continue
        d = json.load(open(out))
        cases.extend(d["cases"])
        exported_ok = exported_ok and d["exported"] == d["expected_exported"]
    bad, coq_errs = [], []
    if not exported_ok:
        worker_errs.append("the set of exported distributions differs from the 24 documented ones")
    # --- log-density cases: one Ltac call per case, files of 120
    lp_idx = [i for i, c in enumerate(cases) if c["kind"] == "lp"]
    pre_bad = set()
    todo = []
    for i in lp_idx:
        c = cases[i]
        if "err" in c or isinstance(c.get("obs"), str) or not c.get("jit_same", False) or c.get("assess_same") is False:
            bad.append((i, False, False, False))      # error / nan / inf inside the support / jit or assess differ
            pre_bad.add(i)
        else:
            todo.append(i)
    files = []
    per = 120
    for k in range(0, len(todo), per):
        vf = os.path.join(ctx.scratch, f"cases_lp_{k // per}.v")
        open(vf, "w").write("From Coq Require Import Reals QArith List ZArith String.\n"
                            "From GV Require Import Model.Dists Model.CorrDists.\nImport ListNotations.\nOpen Scope string_scope.\n"
                            "Goal True.\n" + "\n".join(lp_line(i, cases[i]) for i in todo[k:k + per]) + "\nexact I.\nQed.\n")
        files.append((vf, todo[k:k + per]))
    from concurrent.futures import ThreadPoolExecutor
    verdicts = Counter()
    with ThreadPoolExecutor(max_workers=12) as ex:
        for (vf, idxs), (rc, out, res) in zip(files, ex.map(run_lp_file, [f for f, _ in files])):
            if rc != 0:
                coq_errs.append(out[-1500:])
                continue
            for i in idxs:
                v = res.get(i)
                verdicts[v] += 1
                if v == "OK":
                    continue
                if v == "BAD":
                    bad.append((i, False, False, False))
                elif v == "UNDECIDED":
                    bad.append((i, False, True, True))
                else:
                    coq_errs.append(f"case {i}: {v}: {json.dumps(cases[i])[:300]}")
    # --- source-level tie: the wrapper table regenerated from distributions.py
    import dist_translate
    table_verdict = None
    try:
        rows = dist_translate.translate(os.path.join(common.REPO, "src", "genjax", "distributions.py"))
        tf = os.path.join(ctx.scratch, "code_table.v")
        open(tf, "w").write("From Coq Require Import List String.\nFrom GV Require Import Model.Dists Model.DistTable.\nImport ListNotations.\nOpen Scope string_scope.\n"
                            "Definition code_table : list code_row := " + dist_translate.gallina(rows) + ".\n"
                            "Definition verdict := Eval vm_compute in judge_code_table code_table.\nPrint verdict.\n")
        pr = subprocess.run(["timeout", "300", "coqc", "-Q", common.COQ, "GV", tf], capture_output=True, text=True)
        m = re.search(r"verdict\s*=\s*\((true|false),\s*(true|false)\)", pr.stdout + pr.stderr)
        if pr.returncode != 0 or not m:
            coq_errs.append("code table did not evaluate: " + (pr.stdout + pr.stderr)[-800:])
        else:
            table_verdict = (m.group(1) == "true", m.group(2) == "true")
            if not table_verdict[1]:
                coq_errs.append("Model/DistTable.v:doc_consistent fails on the table regenerated from distributions.py "
                                "(a wrapper no longer denotes its documented call signatures): " + dist_translate.gallina(rows)[:1500])
            elif not table_verdict[0]:
                coq_errs.append("the table regenerated from distributions.py differs from Model/DistTable.v:expected_code_table "
                                "(theorem C13_wrappers_denote_documented_signatures no longer applies): " + dist_translate.gallina(rows)[:1500])
    except dist_translate.Unrecognised as e:
        coq_errs.append(f"harness/dist_translate.py does not recognise the shape of a wrapper in distributions.py: {e}")
    # --- shape / law cases
    sh_idx = [i for i, c in enumerate(cases) if c["kind"] != "lp"]
    vf = os.path.join(ctx.scratch, "cases_sh.v")
    open(vf, "w").write("From Coq Require Import List String.\nFrom GV Require Import Model.Dists Model.CorrDists.\nImport ListNotations.\nOpen Scope string_scope.\n"
                        "Definition cases : list shcase := [\n" + ";\n".join("  " + shcase(cases[i]) for i in sh_idx)
                        + "].\nDefinition result := Eval vm_compute in shreport cases.\nPrint result.\n")
    res = common.eval_cases_files([vf])[vf]
    if "error" in res:
        coq_errs.append(res["error"])
    else:
        bad += [(sh_idx[i], a, s, r) for (i, a, s, r) in res["bad"]]
    bad.sort()
    sig_seen = Counter((c["name"], tuple(c["kws"]), c["kind"]) for c in cases if "err" not in c and "kws" in c)
    nt = len({(c["name"], tuple(c["kws"]), json.dumps(c.get("params")), json.dumps(c.get("value"))) for c in cases
              if c["kind"] == "lp" and "err" not in c}) + \
        len({(c["name"], tuple(c["kws"]), json.dumps([c["ss"], c["lanes"], c.get("batches"), c["mapped"]])) for c in cases
             if c["kind"] == "shape" and "err" not in c and (c["ss"] or c["lanes"] or any(c.get("batches", [])))}) + \
        len([c for c in cases if c["kind"] == "layout" and "err" not in c]) + \
        len([c for c in cases if c["kind"] == "law" and "err" not in c])
    pv = sorted(c["pvalue"] for c in cases if c["kind"] == "law" and "pvalue" in c)
    return {"cases": cases, "bad": bad, "worker_errs": worker_errs, "coq_errs": coq_errs,
            "coverage": {"evaluations": len(cases), "distinct_nontrivial": nt,
                         "rule": "source tie: harness/dist_translate.py regenerates from distributions.py the table (name, TFP constructor, parameter passing, fixed keywords) and Coq compares it "
                                 "with Model/DistTable.v:expected_code_table and re-checks doc_consistent on it.  Behaviour: every documented call signature (positional and keyword) of the 24 exported distributions, plus two user tfp_distribution wrappers and one "
                                 "user distribution(wrap_sampler, wrap_logpdf), visited in turn.  lp: logpdf at random float32 parameters and in-support values (Gamma-function "
                                 "families on integer / half-integer shapes, zipf at powers 2 and 4), eager == jit == assess weight, and |logpdf - closed form| <= 1e-3 + 1e-4|logpdf| "
                                 "proved by the Interval tactic on the model's reflected real expression (BAD = the strict converse proved).  shape: result shape and dtype of seeded draws with "
                                 "sample_shape in {(), (1,), (3,), (2,3)}, modular_vmap nests {(), (2,), (4,), (3,2)} by axis_size or over a parameter, and a batched parameter, compared "
                                 "with lanes ++ sample_shape ++ broadcast batch ++ event and the documented dtype.  layout: normal / laplace / categorical / multivariate_normal with a parameter mapped along axis 0, 1 or 2 and near-deterministic parameters: lane i equals lane i's parameters.  law: 4000 seeded draws by sample_shape, by modular_vmap, by a 2-D "
                                 "sample_shape and by vmap x sample_shape against the scipy reference (KS for continuous, chi-square for discrete, whitening for multivariate normal, "
                                 "marginals for dirichlet / multinomial); a case fails only if p < 1e-6 or draws repeat across lanes.  non-trivial = distinct lp input, non-scalar shape "
                                 "configuration, or law case",
                         "histogram": {"kinds": Counter(c["kind"] for c in cases),
                                       "wrapper_table": {"equals_expected": None if table_verdict is None else table_verdict[0],
                                                         "consistent_with_documented_signatures": None if table_verdict is None else table_verdict[1]},
                                       "signatures_covered": len({(k[0], k[1]) for k in sig_seen}),
                                       "lp_verdicts": verdicts,
                                       "lp_by_name": Counter(c["name"] for c in cases if c["kind"] == "lp"),
                                       "law_modes": Counter(c["mode"] for c in cases if c["kind"] == "law"),
                                       "law_min_pvalues": pv[:5],
                                       "layout": Counter(f"{c['name']}:axis{c.get('axis')}" for c in cases if c["kind"] == "layout"),
                                       "shape_configs": Counter(f"ss{len(c['ss'])}/lanes{len(c['lanes'])}/{'mapped' if c['mapped'] else 'axis_size'}"
                                                                for c in cases if c["kind"] == "shape"),
                                       "errors": Counter(c.get("err", "")[:90] for c in cases if "err" in c)},
                         "samples": [c for c in cases if c["kind"] == "lp"][:1] + [c for c in cases if c["kind"] == "shape"][:1]
                         + [c for c in cases if c["kind"] == "law"][:1]}}
