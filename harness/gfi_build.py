"""AST -> genjax program, canonicalisation of implementation values, random generators.

Runs inside the overlay interpreter (/venv/bin/python with PYTHONPATH = overlay).
The same AST is printed as Gallina data by harness/coqgen.py and compiled to the
model's [gf] by coq/Model/Ast.v:compile.
"""
from __future__ import annotations

import random

import jax
import jax.numpy as jnp
import numpy as np

import genjax
from genjax import Cond, Scan, const, gen, sel
from genjax.core import distribution

# --------------------------------------------------------------------------
# stub distributions: sampler echoes its tape argument; integer log densities


def _mk_stub(kind):
    a, b = [(1, 0), (2, 1), (3, 2)][kind]

    def sampler(t, p):
        return t

    def logpdf(v, t, p):
        return -(a * jnp.abs(v - p)) - b

    return distribution(sampler, logpdf, name=f"stub{kind}")


STUBS = [_mk_stub(k) for k in range(3)]

# kind 3: real dyadic categorical over {0,1,2}, masses (1/2,1/4,1/4) rotated by the parameter
LN2 = float(np.log(2.0))
_DY_LOGITS = jnp.asarray([-1.0, -2.0, -2.0]) * LN2


def _dy_logits(p):
    return jnp.roll(_DY_LOGITS, jnp.asarray(p, dtype=jnp.int32))


def _mk_dy():
    from genjax import categorical
    return distribution(lambda p: categorical.sample(_dy_logits(p)),
                        lambda v, p: categorical.logpdf(v, _dy_logits(p)), name="dy")


STUBS.append(_mk_dy())


def _mk_bs():
    # kind 4: bounded support {v >= p}; sampler max(tape, p); density -(v-p) inside, -inf outside
    return distribution(lambda t, p: jnp.maximum(t, p),
                        lambda v, t, p: jnp.where(v >= p, -(v - p), -jnp.inf), name="bs")


STUBS.append(_mk_bs())
INF_SENTINEL = 10 ** 9
NAN_MARKER = 777777777777


def name(a):
    return f"a{a}"


# --------------------------------------------------------------------------
# expressions


class Env(list):
    """environment of a function body; [kw] is the value of its keyword parameter, if it has one"""
    kw = None


def ev(e, env):
    t = e[0]
    if t == "k":
        return jnp.float32(e[1])
    if t == "kwv":
        return env.kw
    if t == "v":
        return env[e[1]]
    if t == "add":
        return ev(e[1], env) + ev(e[2], env)
    if t == "sub":
        return ev(e[1], env) - ev(e[2], env)
    if t == "mul":
        return ev(e[1], env) * ev(e[2], env)
    if t == "gt":
        return jnp.asarray(ev(e[1], env) > ev(e[2], env))
    if t == "tup":
        return tuple(ev(x, env) for x in e[1])
    if t == "arr":
        if not e[1]:
            return jnp.zeros((0,), dtype=jnp.float32)
        return jnp.stack([jnp.asarray(ev(x, env), dtype=jnp.float32) for x in e[1]])
    if t == "idx":
        return ev(e[1], env)[e[2]]
    raise ValueError(t)


def kw_site(a, sub, argexprs):
    """call sites that pass their last argument by keyword (to a callee declaring a default for it):
    every directly called @gen function at an odd address"""
    return sub[0] == "fn" and len(argexprs) >= 1 and a % 2 == 1


def build(g, kw=False):
    t = g[0]
    if t == "dist":
        return STUBS[g[1]]
    if t == "fn":
        body = g[1]

        kwc = g[2]["kw"] if len(g) > 2 else None      # literal passed for the function's own keyword parameter

        def run(env):
            p = body
            while p[0] == "call":
                _, a, sub, argexprs, k = p
                vals = [ev(x, env) for x in argexprs]
                extra = {}
                callee = sub[2] if sub[0] == "scan" else sub     # a Scan forwards keyword arguments to its callee
                if callee[0] == "fn" and len(callee) > 2:
                    extra["kwv"] = jnp.float32(callee[2]["kw"])
                if sub[0] == "cond" and all(b[0] == "fn" and len(b) > 2 for b in sub[1:3]):
                    extra["kwv"] = jnp.float32(sub[1][2]["kw"])       # a Cond forwards keyword arguments to both branches
                if kw_site(a, sub, argexprs):
                    r = build(sub, kw=True)(*vals[:-1], kwlast=vals[-1], **extra) @ name(a)
                else:
                    r = build(sub)(*vals, **extra) @ name(a)
                env.append(r)
                p = k
            return ev(p[1], env)

        def mkenv(vals, kwv):
            env = Env(vals)
            env.kw = kwv
            return env

        if kw and kwc is not None:
            def src_kw2(*args, kwlast=7.0, kwv=7.0):      # defaults the call site always overrides
                return run(mkenv(list(args) + [kwlast], kwv))
            return gen(src_kw2)
        if kw:
            def src_kw(*args, kwlast=7.0):
                return run(mkenv(list(args) + [kwlast], None))
            return gen(src_kw)
        if kwc is not None:
            def src_kwv(*args, kwv=7.0):
                return run(mkenv(list(args), kwv))
            return gen(src_kwv)

        def src(*args):
            return run(mkenv(list(args), None))

        return gen(src)
    if t == "cond":
        return Cond(build(g[1]), build(g[2]))
    if t == "vmap":
        _, n, axes, sub, given = g
        in_axes = tuple(0 if b else None for b in axes)
        if not any(axes):
            return build(sub).vmap(in_axes=None if given else in_axes, axis_size=n)
        return build(sub).vmap(in_axes=in_axes, axis_size=n if given else None)
    if t == "scan":
        return Scan(build(g[2]), length=const(g[1]))
    raise ValueError(t)


# --------------------------------------------------------------------------
# canonicalisation (implementation values -> JSON for the model)


class NotIntegral(Exception):
    pass


def canon_val(x):
    if x is None:
        return None
    if isinstance(x, (bool, np.bool_)):
        return bool(x)
    if isinstance(x, (tuple, list)):
        return [canon_val(y) for y in x]
    a = np.asarray(x)
    if a.dtype == np.bool_:
        return a.tolist() if a.ndim else bool(a)
    if a.ndim == 0:
        f = float(a)
        if f != f:
            return NAN_MARKER
        if f in (float("inf"), float("-inf")):
            return INF_SENTINEL if f > 0 else -INF_SENTINEL
        if f != int(f):
            raise NotIntegral(f)
        return int(f)
    return [canon_val(y) for y in a]


def calls_of(p):
    out = []
    while p[0] == "call":
        out.append((p[1], p[2]))
        p = p[4]
    return out


def slice_tree(x, i):
    return jax.tree_util.tree_map(lambda y: y[i], x)


def canon_cm(g, x, none_ok=False):
    """AST-directed: choice map / constraint / discard of program g -> model form.
    Leaves that are None (discards) become {"none": 1}."""
    t = g[0]
    if x is None:
        return {"none": 1}
    if t == "dist":
        return {"leaf": canon_val(x)}
    if t == "fn":
        out = []
        if not isinstance(x, dict):
            raise TypeError("expected dict choice map")
        seen = set()
        for a, sub in calls_of(g[1]):
            if name(a) in x and a not in seen:
                seen.add(a)
                out.append([["n", a], canon_cm(sub, x[name(a)])])
        return {"node": out}
    if t == "cond":
        g1, g2 = g[1], g[2]
        if g1[0] == "fn" and g2[0] == "fn":
            out, seen = [], set()
            for a, sub in calls_of(g1[1]) + calls_of(g2[1]):
                if name(a) in x and a not in seen:
                    seen.add(a)
                    out.append([["n", a], canon_cm(sub, x[name(a)])])
            return {"node": out}
        return canon_cm(g1, x)
    if t == "vmap":
        n = g[1]
        return {"node": [[["l", i], canon_cm(g[3], slice_lane(x, i))] for i in range(n)]}
    if t == "scan":
        n = g[1]
        return {"node": [[["l", i], canon_cm(g[2], slice_lane(x, i))] for i in range(n)]}
    raise ValueError(t)


def slice_lane(x, i):
    # None leaves (discards) are empty pytrees and stay None
    return jax.tree_util.tree_map(lambda y: y[i], x)


class NonScalarScore(Exception):
    pass


def obs_trace(g, tr):
    sc = tr.get_score()
    if np.shape(sc) != ():
        # the score of a trace is a scalar (C01): reported as a failed operation of the implementation
        raise NonScalarScore(f"trace score has shape {np.shape(sc)}")
    return {
        "choices": canon_cm(g, tr.get_choices()),
        "score": canon_val(sc),
        "ret": canon_val(tr.get_retval()),
    }


def err_kind(e):
    s = str(e)
    if isinstance(e, ValueError) and "Address collision" in s:
        return "collision"
    if isinstance(e, KeyError):
        return "key"
    if isinstance(e, NotIntegral):
        raise e
    return type(e).__name__


# --------------------------------------------------------------------------
# selections


def build_sel(s):
    t = s[0]
    if t == "all":
        return sel(())
    if t == "none":
        return sel()
    if t == "str":
        return sel(name(s[1]))
    if t == "tup":
        return sel(tuple(name(a) for a in s[1]))
    if t == "dict":
        return sel({name(a): build_sel(x) for a, x in s[1]})
    if t == "compl":
        return ~build_sel(s[1])
    if t == "in":
        return build_sel(s[1]) ^ build_sel(s[2])
    if t == "or":
        return build_sel(s[1]) | build_sel(s[2])
    raise ValueError(t)


def gen_sel(rng, depth, alphabet):
    r = rng.random()
    if depth <= 0 or r < 0.45:
        c = rng.random()
        if c < 0.1:
            return ["all"]
        if c < 0.2:
            return ["none"]
        if c < 0.6:
            return ["str", rng.choice(alphabet)]
        if c < 0.85:
            return ["tup", [rng.choice(alphabet) for _ in range(rng.choice([1, 2, 2, 3]))]]
        ks = rng.sample(alphabet, k=min(len(alphabet), rng.choice([1, 2])))
        return ["dict", [[a, gen_sel(rng, depth - 1, alphabet)] for a in ks]]
    if r < 0.6:
        return ["compl", gen_sel(rng, depth - 1, alphabet)]
    if r < 0.8:
        return ["or", gen_sel(rng, depth - 1, alphabet), gen_sel(rng, depth - 1, alphabet)]
    return ["in", gen_sel(rng, depth - 1, alphabet), gen_sel(rng, depth - 1, alphabet)]


# --------------------------------------------------------------------------
# program generator.  Types: "S" scalar, ("A", n) array of n scalars,
# ("P", n) the (carry, outs) pair returned by a scan of length n.


class ProgGen:
    def __init__(self, rng, max_depth=3, allow=("dist", "fn", "cond", "vmap", "scan"),
                 collide=0.0, naddr=4, dkinds=(0, 1, 2)):
        self.dkinds = list(dkinds)
        self.rng = rng
        self.max_depth = max_depth
        self.allow = allow
        self.collide = collide
        self.naddr = naddr

    # -- expressions -------------------------------------------------------
    def sexpr(self, env, depth=2):
        rng = self.rng
        slots = [i for i, t in enumerate(env) if t == "S"]
        pairs = [i for i, t in enumerate(env) if isinstance(t, tuple) and t[0] == "P"]
        arrs = [(i, t[1]) for i, t in enumerate(env) if isinstance(t, tuple) and t[0] == "A"]
        r = rng.random()
        if depth <= 0 or r < 0.5:
            c = rng.random()
            if slots and c < 0.65:
                return ["v", rng.choice(slots)]
            if pairs and c < 0.75:
                return ["idx", ["v", rng.choice(pairs)], 0]
            if arrs and c < 0.85:
                i, n = rng.choice(arrs)
                return ["idx", ["v", i], rng.randrange(n)]
            return ["k", rng.randint(-2, 3)]
        op = rng.choice(["add", "sub", "add", "mulk"])
        if op == "mulk":
            return ["mul", ["k", rng.choice([-1, 2])], self.sexpr(env, depth - 1)]
        return [op, self.sexpr(env, depth - 1), self.sexpr(env, depth - 1)]

    def aexpr(self, env, n):
        rng = self.rng
        arrs = [i for i, t in enumerate(env) if t == ("A", n)]
        pairs = [i for i, t in enumerate(env) if t == ("P", n)]
        c = rng.random()
        if arrs and c < 0.6:
            return ["v", rng.choice(arrs)]
        if pairs and c < 0.8:
            return ["idx", ["v", rng.choice(pairs)], 1]
        return ["arr", [self.sexpr(env, 1) for _ in range(n)]]

    # -- generative functions ---------------------------------------------
    def fn(self, argtypes, depth, ret="S", nsites=None):
        """A @gen function over the given argument types returning `ret`
        ("S", or "CO" = (carry, out) pair for scan bodies)."""
        rng = self.rng
        env = list(argtypes)
        nsites = nsites or rng.choice([1, 2, 2, 3, 3, 4])
        used = []
        calls = []
        for _ in range(nsites):
            if used and getattr(self, 'collide_now', False) and depth == self.max_depth and rng.random() < self.collide:
                a = rng.choice(used)
            else:
                free = [x for x in range(self.naddr) if x not in used]
                if not free:
                    break
                a = rng.choice(free)
            used.append(a)
            sub, args, rty = self.call(env, depth - 1)
            calls.append((a, sub, args))
            env.append(rty)
        if ret == "S":
            rete = self.sexpr(env, 2)
        else:
            rete = ["tup", [self.sexpr(env, 2), self.sexpr(env, 1)]]
        p = ["ret", rete]
        for a, sub, args in reversed(calls):
            p = ["call", a, sub, args, p]
        return ["fn", p]

    def call(self, env, depth):
        """Pick a callee with argument expressions over env; returns (gast, args, result type)."""
        rng = self.rng
        kinds = ["dist"] * 4
        if depth > 0:
            for k in ("fn", "cond", "vmap", "scan"):
                if k in self.allow:
                    kinds += [k] * 2
        k = rng.choice(kinds)
        if k == "dist":
            return ["dist", rng.choice(self.dkinds)], [self.sexpr(env, 1), self.sexpr(env, 2)], "S"
        if k == "fn":
            m = rng.choice([1, 2, 3])
            f = self.fn(["S"] * m, depth)
            if rng.random() < 0.25:
                f = self.with_kw(f)
            return f, [self.sexpr(env, 2) for _ in range(m)], "S"
        if k == "cond":
            g, m = self.cond(depth)
            if g[1][0] == "fn" and g[2][0] == "fn" and rng.random() < 0.4:
                # the call site passes one keyword argument that both branches declare (with a default)
                c = rng.choice([-2, -1, 1, 2, 3])
                b1, b2 = self.with_kw(g[1], c), self.with_kw(g[2], c)
                if len(b1) > 2 and len(b2) > 2:
                    g = ["cond", b1, b2]
            chk = ["gt", self.sexpr(env, 1), self.sexpr(env, 1)]
            return g, [chk] + [self.sexpr(env, 2) for _ in range(m)], "S"
        if k == "vmap":
            if rng.random() < 0.3:
                g, n, axes, kinds_ = self.vmap_nested(depth)
                args = []
                for b, ty in zip(axes, kinds_):
                    if ty == "S":
                        args.append(self.aexpr(env, n) if b else self.sexpr(env, 1))
                    else:
                        args.append(self.aexpr(env, ty[1]))
                return g, args, ("X",)          # a nested array result: not used by later expressions
            g, n, axes = self.vmap(depth)
            args = [self.aexpr(env, n) if b else self.sexpr(env, 1) for b in axes]
            return g, args, ("A", n)
        if k == "scan":
            g, n = self.scan(depth, allow_kw=True)      # a call site in a function body: it passes the keyword
            return g, [self.sexpr(env, 1), self.aexpr(env, n)], ("P", n)
        raise ValueError(k)

    def cond(self, depth):
        rng = self.rng
        m = rng.choice([1, 2])
        if rng.random() < 0.15:
            # two distributions directly (args: tape, param)
            return ["cond", ["dist", rng.choice(self.dkinds)], ["dist", rng.choice(self.dkinds)]], 2
        if rng.random() < 0.35 and depth > 0:
            # both branches from one skeleton: shared addresses may be sub-calls
            # (hierarchical addresses) with the same inner address structure
            k = rng.choice([1, 2, 3])
            addrs = rng.sample(range(self.naddr), min(self.naddr, k))
            skel = []
            for a in addrs:
                if rng.random() < 0.5:
                    inner = rng.sample(range(self.naddr), rng.choice([1, 2]))
                    skel.append((a, inner, rng.choice([1, 2])))
                else:
                    skel.append((a, None, 0))
            return ["cond", self.fn_from_skel(["S"] * m, skel), self.fn_from_skel(["S"] * m, skel)], m
        # branches with overlapping address sets; an address shared by both
        # branches is a distribution site in both (the implementation cannot
        # merge a leaf with a sub-map)
        g1 = self.fn(["S"] * m, depth)
        d1 = [a for a, sub in calls_of(g1[1]) if sub[0] == "dist"]
        a1 = [a for a, sub in calls_of(g1[1])]
        pool = d1 + [a for a in range(self.naddr + 2) if a not in a1]
        k = rng.choice([1, 2, 3])
        if rng.random() < 0.5 and d1:
            addrs = list(dict.fromkeys(d1 + rng.sample(pool, min(len(pool), 1))))
        else:
            addrs = rng.sample(pool, min(len(pool), k))
        g2 = self.fn_with_addrs(["S"] * m, depth, addrs)
        if rng.random() < 0.5:
            g1, g2 = g2, g1
        return ["cond", g1, g2], m

    def fn_from_skel(self, argtypes, skel):
        env = list(argtypes)
        calls = []
        for a, inner, m_in in skel:
            if inner is None:
                sub = ["dist", self.rng.choice(self.dkinds)]
                args = [self.sexpr(env, 1), self.sexpr(env, 2)]
            else:
                sub = self.fn_with_addrs(["S"] * m_in, 0, inner)
                args = [self.sexpr(env, 2) for _ in range(m_in)]
            calls.append((a, sub, args))
            env.append("S")
        p = ["ret", self.sexpr(env, 2)]
        for a, sub, args in reversed(calls):
            p = ["call", a, sub, args, p]
        return ["fn", p]

    def fn_with_addrs(self, argtypes, depth, addrs):
        env = list(argtypes)
        calls = []
        for a in addrs:
            sub = ["dist", self.rng.choice(self.dkinds)]
            args = [self.sexpr(env, 1), self.sexpr(env, 2)]
            calls.append((a, sub, args))
            env.append("S")
        p = ["ret", self.sexpr(env, 2)]
        for a, sub, args in reversed(calls):
            p = ["call", a, sub, args, p]
        return ["fn", p]

    def vmap_nested(self, depth):
        """a Vmap whose callee is itself a combinator (the per-lane traces then carry stacked scores):
        repeat of a distribution, or a Scan.  Returns (gast, n, axes, argument kinds)."""
        rng = self.rng
        n, n2 = rng.choice([2, 3]), rng.choice([2, 3])
        if rng.random() < 0.5:
            inner = ["vmap", n2, [False, False], ["dist", rng.choice(self.dkinds)], True]      # dist.repeat(n2)
            axes = [rng.random() < 0.6, rng.random() < 0.6]
            given = rng.random() < 0.5 or not any(axes)
            return ["vmap", n, axes, inner, given], n, axes, ["S", "S"]
        inner = ["scan", n2, self.fn(["S", "S"], max(depth - 1, 0), ret="CO")]
        axes = [rng.random() < 0.7, False]          # initial carry per lane or shared; the scanned inputs are shared
        given = rng.random() < 0.5 or not any(axes)
        return ["vmap", n, axes, inner, given], n, axes, ["S", ("A", n2)]

    def vmap(self, depth):
        rng = self.rng
        n = rng.choice([1, 2, 2, 3])
        m = rng.choice([2, 2, 3])
        axes = [rng.random() < 0.6 for _ in range(m)]
        given = rng.random() < 0.5 or not any(axes)
        if rng.random() < 0.25 and m == 2:
            callee = ["dist", rng.choice(self.dkinds)]
        else:
            callee = self.fn(["S"] * m, depth)
        return ["vmap", n, axes, callee, given], n, axes

    def with_kw(self, fn, c=None):
        """give the function a keyword parameter (call sites pass a literal != the default 7) that shifts the
        parameter of its first distribution site, or its return value"""
        if c is None:
            c = self.rng.choice([-2, -1, 1, 2, 3])
        p = fn[1]
        if p[0] == "call" and p[2][0] == "dist" and len(p[3]) == 2:
            p = ["call", p[1], p[2], [p[3][0], ["add", p[3][1], ["kwv"]]], p[4]]
        elif p[0] == "ret" and p[1][0] not in ("tup",):
            p = ["ret", ["add", p[1], ["kwv"]]]
        else:
            return fn
        return ["fn", p, {"kw": c}]

    def scan(self, depth, allow_kw=False):
        rng = self.rng
        n = rng.choice([0, 1, 2, 2, 3])
        callee = self.fn(["S", "S"], depth, ret="CO")
        if allow_kw and rng.random() < 0.35:
            callee = self.with_kw(callee)
        return ["scan", n, callee], n

    def mixture(self):
        """A mixture-shaped program: fn(a0, a1): z@0 and mu@1 are sites whose values follow the arguments,
        y@2 = Cond(brT, brF)(z > K, mu): the indicator z decides the branch, mu is the branch argument and
        both branches score the same (shared) addresses with different dependence on mu.  Moves that change
        z and mu together flip the branch while changing its arguments."""
        rng = self.rng
        dk = [k for k in self.dkinds if k in (0, 1, 2)] or [0]

        def branch(coef):
            calls = []
            env_n = 1
            for a in rng.sample(range(self.naddr), rng.choice([1, 2])):
                # tape fixed (the value stays put when unselected), parameter follows the branch argument
                param = ["add", ["mul", ["k", coef], ["v", 0]], ["k", rng.randint(-1, 1)]]
                calls.append((a, ["dist", rng.choice(dk)], [["k", rng.randint(-2, 2)], param]))
                env_n += 1
            p = ["ret", ["v", rng.randrange(env_n)]]
            for a, sub, args in reversed(calls):
                p = ["call", a, sub, args, p]
            return ["fn", p]
        bt, bf = branch(rng.choice([1, 2])), branch(rng.choice([-1, 0, 3]))
        if rng.random() < 0.5:
            # same address skeleton in both branches
            bf = ["fn", self._reparam(bt[1], rng.choice([-1, 0, 3]))]
        calls = [
            (0, ["dist", rng.choice(dk)], [["add", ["v", 0], ["k", rng.randint(-1, 1)]], ["k", rng.randint(-1, 1)]]),
            (1, ["dist", rng.choice(dk)], [["sub", ["v", 1], ["k", rng.randint(-1, 1)]], ["v", 0]]),
            (2, ["cond", bt, bf], [["gt", ["v", 2], ["k", rng.randint(-1, 1)]], ["v", 3]]),
        ]
        p = ["ret", ["add", ["v", 2], ["v", 4]]]
        for a, sub, args in reversed(calls):
            p = ["call", a, sub, args, p]
        self.collide_now = False
        return ["fn", p], ["S", "S"]

    def _reparam(self, p, coef):
        if p[0] == "ret":
            return p
        _, a, sub, args, k = p
        param = ["add", ["mul", ["k", coef], ["v", 0]], ["k", self.rng.randint(-1, 1)]]
        return ["call", a, ["dist", self.rng.choice([x for x in self.dkinds if x in (0, 1, 2)] or [0])], [args[0], param],
                self._reparam(k, coef)]

    def top(self):
        """A top-level program with its argument types."""
        rng = self.rng
        kinds = [k for k in ("fn", "fn", "cond", "vmap", "scan") if k in self.allow]
        k = rng.choice(kinds)
        d = self.max_depth
        self.collide_now = (k == "fn")
        if k == "fn":
            m = rng.choice([2, 3])
            tys = ["S"] * m
            if rng.random() < 0.3:
                tys.append(("A", rng.choice([2, 3])))
            return self.fn(tys, d), tys
        if k == "cond":
            g, m = self.cond(d)
            return g, ["B"] + ["S"] * m
        if k == "vmap":
            g, n, axes = self.vmap(d)
            return g, [("A", n) if b else "S" for b in axes]
        g, n = self.scan(d)
        return g, ["S", ("A", n)]

    def args_for(self, tys):
        rng = self.rng
        out = []
        for t in tys:
            if t == "S":
                out.append(rng.randint(-3, 4))
            elif t == "B":
                out.append(rng.random() < 0.5)
            else:
                out.append([rng.randint(-3, 4) for _ in range(t[1])])
        return out


def to_impl_args(vals):
    out = []
    for v in vals:
        if isinstance(v, bool):
            out.append(jnp.asarray(v))
        elif isinstance(v, list):
            out.append(jnp.asarray(v, dtype=jnp.float32).reshape((len(v),)))
        else:
            out.append(jnp.float32(v))
    return tuple(out)


def sub_constraint(rng, x, p=0.5):
    """A random sub-map of an implementation-side choice map (dict of dicts / leaves)."""
    if not isinstance(x, dict):
        return x
    out = {}
    for k, v in x.items():
        if rng.random() < p:
            if isinstance(v, dict):
                if rng.random() < 0.3:
                    out[k] = v
                else:
                    s = sub_constraint(rng, v, p)
                    out[k] = s
            else:
                out[k] = v
    return out


def perturb(rng, x):
    """Change leaf values of an implementation-side choice map by small integers."""
    return jax.tree_util.tree_map(
        lambda y: y + float(rng.randint(-2, 2)) if np.ndim(y) == 0
        else y + jnp.asarray([float(rng.randint(-2, 2)) for _ in range(np.shape(y)[0])]
                             ).reshape((np.shape(y)[0],) + (1,) * (np.ndim(y) - 1)),
        x)


def addresses(g, acc=None):
    acc = set() if acc is None else acc
    t = g[0]
    if t == "fn":
        for a, sub in calls_of(g[1]):
            acc.add(a)
            addresses(sub, acc)
    elif t == "cond":
        addresses(g[1], acc)
        addresses(g[2], acc)
    elif t == "vmap":
        addresses(g[3], acc)
    elif t == "scan":
        addresses(g[2], acc)
    return acc


def features(g, acc=None):
    acc = {} if acc is None else acc
    acc[g[0]] = acc.get(g[0], 0) + 1
    t = g[0]
    if t == "fn":
        for a, sub in calls_of(g[1]):
            features(sub, acc)
    elif t == "cond":
        features(g[1], acc)
        features(g[2], acc)
    elif t == "vmap":
        features(g[3], acc)
    elif t == "scan":
        features(g[2], acc)
    return acc
