"""C12: resampling.  Model: coq/Model/Resample.v; theorems: coq/Properties/C12.v;
correspondence: worker_resample.py + coq/Model/CorrResample.v."""
from __future__ import annotations

import json
import os
from collections import Counter

import common
from coqgen import n, z

SRC = ["src/genjax/inference/smc.py"]


def zl(l):
    return "[" + "; ".join(z(v) for v in l) + "]"


def nl(l):
    return "[" + "; ".join(n(v) for v in l) + "]"


def q(fr):
    return f"({fr[0]} # {fr[1]})%Q"


def rcase(c):
    if c["kind"] == "sys":
        if "err" in c:
            return f"RSys {zl(c['ws'])} {n(c['N'])} {z(c['a'])} {z(c['b'])} []"
        return f"RSys {zl(c['ws'])} {n(c['N'])} {z(c['a'])} {z(c['b'])} {nl(c['idx'])}"
    if "err" in c:
        return "RRes [] [] false (0#1)%Q (0#1)%Q false [] None"
    fi = "[" + "; ".join(zl(f) for f in c["fin"]) + "]"
    fo = "[" + "; ".join(zl(f) for f in c["fout"]) + "]"
    b = lambda x: "true" if x else "false"  # noqa: E731
    sysv = f"(Some ({z(c['a'])}, {z(c['b'])}))" if "a" in c else "None"
    return f"RRes {fi} {fo} {b(c['wz'])} {q(c['lml0'])} {q(c['lml1'])} {b(c['diag_ok'])} {zl(c['ws'])} {sysv}"


def run(ctx):
    out = os.path.join(ctx.scratch, "res_cases.json")
    pr = ctx.run_worker("worker_resample.py", [out, ctx.seed, ctx.tier])
    if pr.returncode != 0:
        return {"cases": [], "bad": [], "worker_errs": [pr.stderr[-2000:]], "coq_errs": [],
                "coverage": {"evaluations": 0, "distinct_nontrivial": 0, "rule": "", "samples": []}}
    cases = json.load(open(out))
    files, per = [], 400
    for k in range(0, len(cases), per):
        vf = os.path.join(ctx.scratch, f"cases_res_{k // per}.v")
        open(vf, "w").write("From Coq Require Import ZArith List QArith. Import ListNotations.\n"
                            "From GV Require Import Model.CorrResample.\nDefinition cases : list rcase := [\n"
                            + ";\n".join("  " + rcase(c) for c in cases[k:k + per])
                            + "].\nDefinition result := Eval vm_compute in rreport cases.\nPrint result.\n")
        files.append((vf, k))
    res = common.eval_cases_files([f for f, _ in files])
    bad, coq_errs = [], []
    for vf, off in files:
        r = res[vf]
        if "error" in r:
            coq_errs.append(r["error"])
        else:
            bad += [(off + i, a, s, x) for (i, a, s, x) in r["bad"]]
    nt = len({json.dumps([c["kind"], c["ws"], c.get("N"), c.get("a"), c.get("b"), c.get("method")]) for c in cases
              if "err" not in c and len(c["ws"]) >= 2})
    return {"cases": cases, "bad": bad, "worker_errs": [], "coq_errs": coq_errs,
            "coverage": {"evaluations": len(cases), "distinct_nontrivial": nt,
                         "rule": "weight vectors (dyadic, small integers, degenerate one-hot, partly zero = -inf, uniform, near-uniform, equal weights with a dead tail) of 1-8 particles, "
                                 "log weights shifted by a common offset (0 ... -1000, +120), offsets at the ends of (0,1) (1-2^-24 ...), "
                                 "scripted offsets a/b in (0,1) (exact ties between a position and a cumulative weight skipped), number of draws equal to or "
                                 "different from the number of weights; resample() with both methods on vectorized traces with distinct leaves; "
                                 "non-trivial = distinct case with >=2 particles",
                         "histogram": {"kinds": Counter(c["kind"] for c in cases),
                                       "weights": Counter(c.get("wkind") for c in cases),
                                       "log_weight_shift": Counter(str(c.get("shift")) for c in cases),
                                       "methods": Counter(c.get("method") for c in cases if c["kind"] == "res"),
                                       "errors": Counter(c.get("err", "")[:60] for c in cases if "err" in c)},
                         "samples": cases[:2] + [c for c in cases if c["kind"] == "res"][:1]}}
