#!/usr/bin/env python3
"""Regenerate MANIFEST.json from the table below."""
import json, os
ROOT = os.path.dirname(os.path.dirname(os.path.abspath(__file__)))

GFI_NOTE = ("Trusted: Coq kernel; hand-written Gallina model coq/Model/Gfi.v of core.py's Distribution/Fn+handlers/Cond "
            "(Vmap and Scan modelled as lane-wise / step-wise calls over ALane addresses, coq/Model/Ast.v); the model is tied to "
            "/repo by the correspondence check (harness/worker_gfi.py runs the implementation through the JAX-0.11 API-rename overlay; "
            "coq/Model/Corr.v evaluates model and spec on the same cases with vm_compute). Log densities are integers (Z); "
            "JAX vmap/scan/where and float arithmetic are oracles. No axioms (Print Assumptions: closed).")
CLAIMED = {
    # pid: (level text, level note, technique, design_ref)
    "C01": ("Theorems for ALL programs of the HOAS model (any nesting of dist/@gen/Cond, Vmap/Scan via compile), all arguments, all outcomes of all draws: "
            "assess = sum of site log-probabilities + return value (C01_assess_is_density); every trace of simulate has score = -density of its choices and the right "
            "return value (C01_simulate_coherent); address collisions raise. The law clause is mechanised for finite discrete Cond-free programs (any nesting of dist/@gen/Vmap/Scan): "
            "simulate produces the values of a run-determining choice map with probability 2^assess (C01_simulate_law, via the importance identity of Lemmas/Law.v); for Cond programs it is not (partial). "
            "Correspondence: random programs run on implementation and model, eager and jit.",
            GFI_NOTE, "Coq proof by mutual induction over program syntax + differential correspondence (vm_compute)", "5/C01"),
    "C02": ("Theorem C02_generate for all programs/constraints/outcomes: coherent trace, every constrained visited site holds its constrained value, "
            "weight = sum of log-probabilities of exactly the constrained sites; corollaries none=>0, all=>density, unbound sub-call contributes 0. "
            "Proper weighting (C02_importance_identity, C02_weight_unbiased): for every Cond-free program, every constraint over a finite outcome universe and every test function G, "
            "E_generate[exp(w) G(trace)] = E_simulate[1{constraints hold} G(trace)] in a finite-support expectation semantics of the sampling monad (exact rationals); Cond programs are excluded (partial).",
            GFI_NOTE, "Coq proof by mutual induction over program syntax + differential correspondence (vm_compute)", "5/C02"),
    "C03": ("Theorems for all programs: the updated trace is coherent under the new arguments; weight = log p(new) - log p(old) (static address skeleton), "
            "including Cond flips (after the fix commit); telescoping. The frame clause is proved for Cond-free programs (C03_update_frame); discard / round trip are judged per case by the correspondence "
            "(upd_spec); the full frame statement is refuted for Cond flips (known finding K1, witness theorem C03_frame_full_refuted).",
            GFI_NOTE, "Coq proof by mutual induction over program syntax + differential correspondence (vm_compute)", "5/C03"),
    "C04": ("Theorems for all programs/selections/outcomes: regenerated trace coherent; weight = density change minus selected-prior change when no Cond flips; "
            "all-selected => 0; none-selected => plain ratio; frame for Cond-free programs (C04_regenerate_frame). Frame with Cond, discard and definedness are judged per case by the correspondence (regen_spec).",
            GFI_NOTE, "Coq proof by mutual induction over program syntax + differential correspondence (vm_compute)", "5/C04"),
    "C16": ("Theorems for ALL selection expressions and paths (structural induction over sel, nested dicts included): the match-chain + '() in' probe used by "
            "regenerate/filter equals the Boolean-algebra denotation sem (or/and/not, str = head, tuple = prefix, dict delegation); filter splits the leaves of "
            "every choice map into exactly the selected and the unselected ones (C16_filter_partition). merge(a,b)=x is judged per case by the correspondence. "
            "Correspondence runs natively: all atoms and depth-1 combinations, random depth-3 expressions, all paths of length<=3, filter/merge on nested dict shapes.",
            "Trusted: Coq kernel; hand model of *Sel.match / Selection / sel / Fn.filter / Distribution.filter / Fn.merge in coq/Model/Gfi.v tied to /repo by "
            "harness/worker_sel.py + coq/Model/CorrSel.v (runs natively, no overlay). No axioms.",
            "Coq proof by structural induction over selection syntax and choice maps + exhaustive/differential correspondence (vm_compute)", "5/C16"),
    "C06": ("Theorems: the keys a seeded call hands to its sites (hence its result) do not depend on the global key counter or the staging cache (C06_seed_pure, C06_repeatable); a seeded call "
            "only advances the counter; incomparable root keys give pairwise incomparable site keys. eager = jit = vmap-over-keys is JAX's contract, exercised by the correspondence "
            "(same key terms in all three modes, across interleavings with unseeded sampling, other seeded runs and counter jumps).",
            "Trusted: Coq kernel; hand model coq/Model/Seed.v of Seed.eval_jaxpr_seed (split per site, sub-key per cond, fold_in per scan iteration, fall-through for uninterpreted "
            "higher-order primitives), of the lowering rule and of the JVP rule (raises for traced primals); keys are terms of the key algebra with split(k)[i] identified with fold_in(k,i) (true for "
            "partitionable threefry, observed by the harness); distinct terms = independent streams is the PRNG idealisation (JAX's contract), not proved; harness/worker_seed.py maps raw key "
            "data back to terms by BFS over real split/fold_in. No axioms.",
            "Coq proof over a mini-Jaxpr model + key-echo census correspondence (vm_compute)", "5/C06"),
    "C07": ("Theorem C07_sites_get_distinct_streams: for EVERY program shape (sequences, conds, nested scans, cond in scan), every root key and every branch choice, the keys of all "
            "sample-site instances of one seeded run are pairwise incomparable terms (none equal to or derived from another) strictly derived from the root (induction over the Jaxpr). "
            "Statistical independence / correct marginal law additionally need the PRNG idealisation and TFP's samplers (not proved); vectorized lanes get one key + extended sample_shape (C08).",
            "Trusted: Coq kernel; hand model coq/Model/Seed.v of Seed.eval_jaxpr_seed (split per site, sub-key per cond, fold_in per scan iteration, fall-through for uninterpreted "
            "higher-order primitives), of the lowering rule and of the JVP rule (raises for traced primals); keys are terms of the key algebra with split(k)[i] identified with fold_in(k,i) (true for "
            "partitionable threefry, observed by the harness); distinct terms = independent streams is the PRNG idealisation (JAX's contract), not proved; harness/worker_seed.py maps raw key "
            "data back to terms by BFS over real split/fold_in. No axioms.",
            "Coq proof by induction over the mini-Jaxpr + key-echo census correspondence (vm_compute)", "5/C07"),
    "C14": ("Theorems: compiling any traced program containing a sample primitive at any depth raises (C14_lowering_raises, by the model of JAX's recursive lowering); seed either removes "
            "every site or leaves sites only under constructs it does not interpret, and then compiling raises (C14_seed_removes_or_raises); the full property - every program containing a site, also under grad / jvp / value_and_grad, raises when "
            "staged - holds for the model (C14_full_holds; it was refuted before fix F25, the former known finding K2); seed over a differentiated block raises too (C14_seed_over_grad_raises).",
            "Trusted: Coq kernel; hand model coq/Model/Seed.v of Seed.eval_jaxpr_seed (split per site, sub-key per cond, fold_in per scan iteration, fall-through for uninterpreted "
            "higher-order primitives), of the lowering rule and of the JVP rule (raises for traced primals); keys are terms of the key algebra with split(k)[i] identified with fold_in(k,i) (true for "
            "partitionable threefry, observed by the harness); distinct terms = independent streams is the PRNG idealisation (JAX's contract), not proved; harness/worker_seed.py maps raw key "
            "data back to terms by BFS over real split/fold_in. No axioms.",
            "Coq proof over a mini-Jaxpr model + outcome-class correspondence (vm_compute)", "5/C14"),
    "C19": ("Theorem C19_state_collects: for EVERY program of named/leaf-mode saves, namespaces, scans (forward or reverse, nested, under namespaces), vmaps and deterministic code, the State interpreter "
            "(flat equation list + namespace stack + fresh interpreter per scan body + leafwise stacking + merge at the current namespace) collects exactly the specification's dictionary "
            "and restores the namespace stack (structural induction over programs); a save is found under path/name, later writes win, other names are untouched. Transparency "
            "(state does not change the result) and jit/seed are checked by the correspondence only. Saves inside cond are outside the claim.",
            "Trusted: Coq kernel; hand model coq/Model/StateM.v of State.eval_jaxpr_state / save / tag_state / namespace and of tracing (namespace -> push/pop, vmap -> batched saved values); "
            "harness/worker_state.py encodes site and dynamic instance into each saved value and compares the collected dictionaries structurally. No axioms.",
            "Coq refinement proof (interpreter = specification, induction over program syntax) + differential correspondence (vm_compute)", "5/C19"),
    "C08": ("Theorems over a model of numpy/TFP parameter broadcasting: for any site sample_shape, any number of lanes and batched parameters of equal per-lane rank (unbatched ones of "
            "smaller or equal rank), every output element [lane, s, j] of the vectorized site is drawn with exactly that lane's parameter elements, lanes laid out after the site's own "
            "sample_shape (C08_sample_rule_lanewise); distinct lanes are distinct draws with batched parameters and with axis_size alone (never one draw broadcast); the statement without the "
            "rank hypothesis is REFUTED (C08_full_refuted = known finding K3). Deterministic code and density sites are jax.vmap itself (oracle) and are only checked by the correspondence "
            "against jax.vmap; the Vmap combinator is exercised by C01-C05 on AVmap programs (lane-wise compile).",
            "Trusted: Coq kernel; hand model coq/Model/Vmap.v of VmapBatchHandler._handle_modular_vmap after batch axes are moved to the front, and of right-aligned size-1 broadcasting; TFP's "
            "'one independent draw per output element' contract is an oracle; harness/worker_vmap.py decodes the parameter elements behind each output element of a parameter-echo sampler. No axioms.",
            "Coq proof over a broadcasting model + parameter-echo correspondence (vm_compute) + comparison with jax.vmap", "5/C08"),
    "C11": ("Theorem C11_adev_unbiased: for EVERY expectation program of flip sites with enumeration / REINFORCE / measure-valued estimators composed in any order with arbitrary "
            "deterministic dual-number code (HOAS), all parameters in the open domain: mean primal = E[f], mean tangent = derivative of E[f] (tangent of the exact dual expectation), by "
            "induction over the program over canonical rationals; enumeration is exact with zero variance (C11_enum_exact); reparameterised sites give the pathwise derivative for the noise drawn. "
            "NOT mechanised (partial): continuous score-function sites (normal/uniform REINFORCE), geometric, multivariate normal; batched (lane Rao-Blackwellised) sites; "
            "seed/jit/modular_vmap invariance is exercised only by the correspondence on enumeration-only programs.",
            "Trusted: Coq kernel; hand model coq/Model/Adev.v of the CPS interpreter's sample branch and of FlipEnum / REINFORCE / FlipMVD.prim_jvp_estimate (the pure continuation "
            "modelled as a fresh primal sample); dual arithmetic stands for differentiation (sound for the rational programs generated); harness/worker_adev.py scripts site outcomes by replacing "
            "adev.flip and building a REINFORCE primitive around a scripted sampler with the public reinforce(); tolerance 5e-5. No axioms.",
            "Coq proof by induction over HOAS expectation programs (field identities in Qc) + scripted-outcome correspondence (vm_compute)", "5/C11"),
    "C15": ("Theorems: for every primitive whose JVP rule meets JAX's contract and every mix of symbolic-zero / float0 / materialised tangents, the interpreter's default branch "
            "(canonicalise, all-zero shortcut, instantiate) returns jax.jvp's primal and tangent (C15_default_is_jvp); cond hands lax.cond the reversed branch list, selecting the same branch "
            "as cond_p's index (C15_cond_either_branch); estimate returns the value. The per-primitive JVP rules are JAX's (oracle); whole-program agreement with jax.jvp / jax.grad / f on "
            "scalar, array and pytree arguments is checked by the correspondence.",
            "Trusted: Coq kernel; small hand model coq/Model/AdevDet.v of the default branch, tangent helpers and cond branch; harness/worker_adev.py compares 15 deterministic program "
            "templates with jax.jvp/jax.grad (tolerance 1e-5) and the canonicalisation helpers with the model. No axioms.",
            "Coq proof over an abstract-primitive model + differential comparison with jax.jvp/jax.grad", "5/C15"),
    "C17": ("Theorems for ALL targets, families, constraints, arguments and draws: objective = log p(merged choices) - log q(z) (C17_elbo_value); equal to log p(x) for every draw when q is the "
            "exact posterior (C17_elbo_tight); on overlapping addresses the family's choice wins in the merge; optimize_vi applies params + lr*gradient at every iteration, the history holds every "
            "iterate and the final parameters are the last one, for every gradient estimator, learning rate and iteration count (C17_vi_rule, induction over iterations). "
            "For latents of finite support the expected objective lies below the log evidence, sum_i q_i ln(p_i/q_i) <= ln sum_i p_i, with equality at the exact posterior "
            "(C17_elbo_below_log_evidence, C17_elbo_tight_at_posterior_real; Gibbs' inequality over the reals). "
            "NOT mechanised (partial): unbiasedness of the objective and of its gradient (C11's theorem for finite flip programs), the bound for continuous latents, the two Gaussian families.",
            "Trusted: Coq kernel; model coq/Model/Vi.v on top of the GFI model; harness/worker_vi.py builds the family from a REINFORCE primitive with scripted outcomes (public reinforce()), "
            "values divided by ln 2; optimize_vi compared on deterministic quadratic objectives with tolerance 1e-4. Axioms: none for the program-level theorems; the two real-valued bound theorems "
            "depend on the standard library's real-number axioms (sig_not_dec, sig_forall_dec, functional_extensionality_dep, classic).",
            "Coq proof (corollaries of the GFI theorems; induction over iterations) + differential correspondence (vm_compute)", "5/C17"),
    "C20": ("HMM, fully mechanised for every number of states, every table and every observation sequence of length >= 1 (exact rationals): the forward message is the sum of the joint over "
            "all earlier state paths, the marginal likelihood equals brute-force summation over all state sequences, the filtering distribution is normalised, compute_sequence_log_prob "
            "is the joint of the path, and forward-filtering backward-sampling assigns every reachable path probability joint/marginal (induction over the sequence). "
            "Linear-Gaussian (partial): only the scalar one-step update is mechanised; kalman_filter / kalman_smoother / the log marginal likelihood are tied to an exact-rational "
            "recursion model and JUDGED case by case against dense joint-Gaussian conditioning (d_state, d_obs in 1..3, d_obs != d_state included, T <= 4); the step models "
            "(discrete_hmm / linear_gaussian @gen functions) iterated over time through assess are compared with the HMM joint resp. the chain-rule Gaussian density (exact rationals) and their carry is checked; "
            "long HMM sequences (T = 75-180) are compared in log space by the Interval tactic (theorem C20_iterative_forward_exact ties the vector recursion to the brute-force sum).",
            "Trusted: Coq kernel; hand models coq/Model/Hmm.v and coq/Model/Kalman.v (with the small matrix library coq/Model/Mat.v: Gauss-Jordan inverse/determinant over Q); "
            "harness/worker_ssm.py runs natively (no overlay), exponentiates float32 log outputs in float64 and records backward_sample's logits under scripted draws (jit disabled); "
            "the Kalman log marginal likelihood is checked through rational enclosures of exp with a literal enclosure of ln(2 pi); tolerance 2e-4. No axioms.",
            "Coq proof by induction over the observation sequence (HMM) + differential correspondence and dense-conditioning judgement (vm_compute)", "5/C20"),
    "C13": ("Model: for each of the 24 exported distributions and each documented call signature (positional and keyword: probs vs logits, rate vs log_rate, covariance, ...) the log "
            "density / log mass as a reflected real expression of rational parameters and value (coq/Model/Dists.v: spec, doc_table). Theorems (all parameters, all sizes): total mass 1 for "
            "flip, bernoulli (probs and logits), categorical over any non-empty logits, binomial for every n; geometric counts failures from 0 with mass p(1-p)^k, partial masses "
            "1-(1-p)^n and limit 1; poisson masses sum to 1 as a series; exponential takes a rate: density = CDF', integral over [0,b] = F(b)-F(0), F -> 1; uniform integrates to 1; density = CDF' for laplace, "
            "cauchy, weibull and two user-wrapped families; sample_shape / vectorisation only prepend dimensions; a wrapper table regenerated from distributions.py by a translator (Python ast) that equals the expected "
            "one denotes exactly the documented call signatures (C13_wrappers_denote_documented_signatures). Correspondence on every run: implementation logpdf (eager = jit = "
            "assess weight) vs the denotation of the specification, decided INSIDE Coq by the Interval tactic per case; shapes and dtypes by computation; sampler law by goodness of fit "
            "against scipy (4000 draws; sample_shape, modular_vmap, 2-D sample_shape, vmap x sample_shape). NOT mechanised (partial): normalisation of the families whose constant needs "
            "the Gaussian integral or Gamma/Beta/zeta as integrals (validated point-wise only, on integer / half-integer shapes), and that the TFP samplers draw from the density (statistical).",
            "Trusted: Coq kernel; coq-interval's reflexive tactic (kernel-checked via vm_compute); the standard library's classical real-number axioms (sig_not_dec, sig_forall_dec, "
            "functional_extensionality_dep, classic) as reported by Print Assumptions; hand model coq/Model/Dists.v; harness/worker_dists.py (overlay; parameters and values rounded to "
            "float32 and passed as exact rationals; tolerance 1e-3 + 1e-4|logpdf|); scipy.stats as the reference for the sampler law (fixed keys, rejection below p = 1e-6).",
            "Coq proof over the reals (normalisation identities, induction over supports) + per-case certified interval arithmetic (Interval) + goodness-of-fit validation", "5/C13"),
    "C09": ("Theorems: accept iff log u < min(0, log_alpha) (all kernels); the MH balance identity a*min(1,b/a) = b*min(1,a/b); the weight mh uses is the MH log ratio of the "
            "regenerate-from-prior proposal (via C04); mala's log_alpha is the MH log ratio of the Langevin proposal with drift eps^2/2*grad, scale eps, one noise per coordinate; "
            "n leapfrog steps are reversible under momentum flip for ANY gradient function over ANY commutative ring; rejected moves return the input; unselected coordinates untouched. "
            "leapfrog volume preservation for affine gradients (C09_leapfrog_volume_affine: n steps are an affine map with determinant 1) and, for an arbitrary gradient in one coordinate, "
            "at the level of tangent maps (C09_leapfrog_volume_tangent: the chain-rule Jacobian of n steps has determinant 1). "
            "NOT mechanised (partial): volume preservation in several coordinates / detailed balance on R^n; the assembled finite-support detailed-balance statement for mh; Cond-indicator moves "
            "are covered only through the regenerate theorems.",
            "Trusted: Coq kernel; model coq/Model/Mcmc.v over exact rationals with dual-number gradients for Gaussian programs (affine means); jax.grad is an oracle validated by the "
            "correspondence; harness/worker_mcmc.py scripts noise/momentum/threshold by replacing module globals mcmc.normal/uniform and reads log_alpha through a jnp.minimum proxy that "
            "calls state.save; tolerance 2e-4, decisions within 1e-3 of the threshold are not judged. No axioms.",
            "Coq proof (ring/field identities, induction on leapfrog count) + differential correspondence on scripted kernels (vm_compute)", "5/C09"),
    "C10": ("Theorems for ALL targets/proposals/constraints/outcomes: per-particle log weight of init/extend = log p(choices, obs) - log q(proposed or unconstrained choices) "
            "(default proposal: C10_default_weight; custom proposal with merge precedence: C10_custom_weight / C10_extend_custom_weight), rejuvenation keeps weights for any kernel, "
            "resampling keeps exp(lml) for any index vector. Unbiasedness of the evidence estimate is mechanised for init with the default proposal (C10_init_estimate_unbiased: N independent particles, "
            "finite discrete Cond-free targets, E[mean exp(w_i)] = P(observations)); for extend / resample / rejuvenate pipelines and custom proposals it is NOT (partial). Correspondence: hand-composed pipelines under seed with real dyadic categorical sites (custom proposals over all or a strict subset of the latents), "
            "and rejuvenation_smc itself with return_all_particles=True (every time step judged as resampled / not resampled).",
            "Trusted: Coq kernel; model coq/Model/Smc.v (particle-level init/extend/rejuvenate) + Model/Resample.v; harness/worker_smc.py (log weights divided by ln 2 and rounded; "
            "exp(lml) compared within 5e-4 relative in exact rationals). No axioms.",
            "Coq proof (corollaries of the generate theorem; field identity for resampling) + specification judgement of implementation snapshots (vm_compute)", "5/C10"),
    "C12": ("Theorem C12_systematic_floor_ceil: for EVERY non-negative weight vector with positive total (0 = -inf log weight), every N>=1 and EVERY offset u=a/b in (0,1), "
            "particle i gets floor(N w_i) or ceil(N w_i) copies (exact integer model of cumsum/searchsorted; proof by counting positions below each cumulative weight); zero weight => no copies; "
            "resample: each output particle is the whole input particle at its index, weights reset, diagnostics = pre-resampling normalised weights, exp(lml) unchanged (field identity in Q). "
            "Unbiasedness (C12_systematic_unbiased_on_grid): over the uniform grid of c*sum(w) offsets the copies of particle i sum to c*N*w_i, for every weight vector, N and resolution c "
            "(the continuous expectation is the limit of these exact Riemann averages, not itself mechanised); every systematic index names an input particle (C12_systematic_indices_in_range); over the same grids the sum of any test function over the resampled particles sums to "
            "c*N*sum_i f(i) w_i (C12_systematic_estimate_on_grid). "
            "Categorical method, modelled as N independent draws with probabilities w_i/W: E[copies_i] = N w_i / W and the resampled equal-weight average of any test function has the expectation of "
            "the weighted average before resampling (C12_categorical_expected_copies, C12_categorical_estimate_preserved; exact finite expectations over Qc).",
            "Trusted: Coq kernel; hand model coq/Model/Resample.v of systematic_resample/resample_vectorized_trace/resample/log_marginal_likelihood over exact integers/rationals; "
            "correspondence harness/worker_resample.py scripts the offset (monkeypatching smc.uniform), skips exact float ties (the total weight is not one: offsets at the ends of (0,1) are scripted on weight vectors whose float32 cumulative sum ends below 1, and every index must name an input particle), compares indices exactly and lml within 5e-5; the float32 cumulative sum itself is modelled (exact arithmetic), not verified; "
            "the diagnostic-weight clause is compared in the harness with tolerance 1e-5. No axioms.",
            "Coq proof (counting argument over all offsets) + differential correspondence (vm_compute)", "5/C12"),
    "C18": ("Theorems for ANY kernel, any per-step randomness, all n_steps/burn_in/thinning>=1: traces[i] = state after burn+i*thin+1 kernel applications, accepts[i] = that step's flag, "
            "result = the slice burn::thin of the un-thinned run with the same randomness, n_steps = ceil((n-burn)/thin), accepted count = number of true retained flags. "
            "Multi-chain: the model maps the single-chain computation over the chains (C18_chains_lanewise: leading chain axis, chain c = single-chain result on its randomness); that the "
            "implementation does so is checked by the correspondence, independence of the chains' randomness rests on C06-C08.",
            "Trusted: Coq kernel; hand model coq/Model/Chain.v (scan + arange + index selection); correspondence harness/worker_chain.py runs chain() with scripted deterministic "
            "kernels (incl. one saving a second diagnostic) for 1 and 3 chains and the real mh kernel under seed (thinned vs un-thinned with the same key, float bit patterns). No axioms.",
            "Coq proof by induction over the step list + differential correspondence (vm_compute)", "5/C18"),
    "C05": ("Theorem C05_history_coherent: after ANY finite history of update/regenerate/mh-shaped/mala-hmc-shaped moves (accepted or rejected) and identity round trips "
            "the trace is coherent w.r.t. its recorded arguments (induction over the history); update weights telescope. 'Observed addresses keep their values' is judged "
            "per case by the correspondence only (random edit histories, and real mala / hmc / mh kernel steps with scripted noise: frame, accept rule, coherence of the returned trace).",
            GFI_NOTE, "Coq proof by induction over histories (fold over ops) + differential correspondence (vm_compute)", "5/C05"),
}
PENDING_REASON = "check not built yet in this session (planned; see DESIGN.md section 7)"

def main():
    props = [json.loads(l) for l in open(os.path.join(ROOT, "properties.jsonl"))]
    checks, na = [], []
    for p in props:
        pid = p["id"]
        if pid in CLAIMED:
            text, note, tech, ref = CLAIMED[pid]
            checks.append({
                "property_id": pid,
                "quick_cmd": f"./check {pid} --tier quick",
                "thorough_cmd": f"./check {pid} --tier thorough",
                "evidence_file": f"/verif/evidence/{pid}.json",
                "replay_cmd_template": f"./check {pid} --replay {{path}}",
                "engine": "rocq-model+correspondence",
                "level_claimed": {"category": "proof", "text": text, "design_ref": ref},
                "level_note": note,
                "technique": tech,
            })
        else:
            na.append({"property_id": pid, "reason": PENDING_REASON})
    m = {
        "version": 1,
        "setup_cmd": "./check --setup",
        "hooks": {
            "guard": "GENJAX_VERIF",
            "enable": "no source hooks: the harness runs /repo/src/genjax through an in-scratch API-rename overlay (harness/overlay.py) selected by the harness itself",
            "baseline_off_cmd": "cd /repo && /venv/bin/python -m pytest -ra -q -p no:cacheprovider --timeout=900 --continue-on-collection-errors",
            "source_commits": [],
            "add_only": True,
        },
        "engines": [{
            "name": "rocq-model+correspondence", "path": "/verif/check",
            "serves_properties": sorted(CLAIMED),
            "kind_free_text": "Coq 8.16 theorems over an executable Gallina model (coq/), tied to /repo by differential execution of model (vm_compute) and implementation (JAX-0.11 overlay) on generated cases",
        }],
        "checks": checks,
        "not_applicable": na,
        "notes": "See DESIGN.md. Known findings: known_findings.json.",
    }
    json.dump(m, open(os.path.join(ROOT, "MANIFEST.json"), "w"), indent=1)

if __name__ == "__main__":
    main()
