#!/usr/bin/env python3
"""Regenerate MANIFEST.json from the table below."""
import json, os
ROOT = os.path.dirname(os.path.dirname(os.path.abspath(__file__)))

CLAIMED = {
    # pid: (level text, level note, technique, design_ref)
}
PENDING_REASON = "check not built yet in this session (planned; see DESIGN.md section 7)"

def main():
    props = [json.loads(l) for l in open(os.path.join(ROOT, "properties.jsonl"))]
    checks, na = [], []
    for p in props:
        pid = p["id"]
        if pid in CLAIMED:
            text, note, tech, ref = CLAIMED[pid]
            checks.append({
                "property_id": pid,
                "quick_cmd": f"./check {pid} --tier quick",
                "thorough_cmd": f"./check {pid} --tier thorough",
                "evidence_file": f"/verif/evidence/{pid}.json",
                "replay_cmd_template": f"./check {pid} --replay {{path}}",
                "engine": "rocq-model+correspondence",
                "level_claimed": {"category": "proof", "text": text, "design_ref": ref},
                "level_note": note,
                "technique": tech,
            })
        else:
            na.append({"property_id": pid, "reason": PENDING_REASON})
    m = {
        "version": 1,
        "setup_cmd": "./check --setup",
        "hooks": {
            "guard": "GENJAX_VERIF",
            "enable": "no source hooks: the harness runs /repo/src/genjax through an in-scratch API-rename overlay (harness/overlay.py) selected by the harness itself",
            "baseline_off_cmd": "cd /repo && /venv/bin/python -m pytest -ra -q -p no:cacheprovider --timeout=900 --continue-on-collection-errors",
            "source_commits": [],
            "add_only": True,
        },
        "engines": [{
            "name": "rocq-model+correspondence", "path": "/verif/check",
            "serves_properties": sorted(CLAIMED),
            "kind_free_text": "Coq 8.16 theorems over an executable Gallina model (coq/), tied to /repo by differential execution of model (vm_compute) and implementation (JAX-0.11 overlay) on generated cases",
        }],
        "checks": checks,
        "not_applicable": na,
        "notes": "See DESIGN.md. Known findings: known_findings.json.",
    }
    json.dump(m, open(os.path.join(ROOT, "MANIFEST.json"), "w"), indent=1)

if __name__ == "__main__":
    main()
