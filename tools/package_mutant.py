#!/usr/bin/env python3
"""package_mutant.py <pid> <worktree> <caught:yes|no|after-strengthening> <note>  -> /verif/seeded/<pid>/"""
import json, os, shutil, sys
pid, wt, caught, note = sys.argv[1:5]
name = sys.argv[5] if len(sys.argv) > 5 else pid
dst = f"/verif/seeded/{name}"
os.makedirs(dst, exist_ok=True)
for f in ("patch.diff", "demo.py"):
    shutil.copy(os.path.join(wt, "MUTANT", f), os.path.join(dst, f))
meta = json.load(open(os.path.join(wt, "MUTANT", "meta.json")))
conf = open(f"/tmp/confirm_{pid}.log").read() if os.path.exists(f"/tmp/confirm_{pid}.log") else ""
meta.update({
    "property": pid,
    "confirmed_by_me": {
        "ran": [f"tools/confirm_mutant.sh {pid} {wt}  (demo with change, full pytest baseline with change vs BASELINE.json, demo without change)",
                f"tools/try_mutant.sh patch.diff {pid}  (git -C /repo apply; ./check {pid}; git -C /repo checkout -- .)"],
        "confirm_log": conf.strip().splitlines(),
    },
    "caught_by_check": caught,
    "check_note": note,
})
json.dump(meta, open(os.path.join(dst, "meta.json"), "w"), indent=1)
print("packaged", dst)
