#!/bin/bash
# usage: try_mutant.sh <patch.diff> <pid> [pid...]  — apply to /repo, run the checks, revert.
PATCH="$1"; shift
cd /repo || exit 2
if ! git -C /repo diff --quiet; then echo "repo dirty"; exit 2; fi
git -C /repo apply "$PATCH" || { echo "patch does not apply"; exit 2; }
for pid in "$@"; do
  (cd /verif && timeout 1500 ./check "$pid" 2>&1 | tail -n 3 | cut -c1-400)
  echo "[$pid exit=${PIPESTATUS[0]}]"
done
git -C /repo checkout -- .
