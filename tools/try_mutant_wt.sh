#!/bin/bash
# usage: try_mutant_wt.sh <patch.diff> <pid> [pid...] — like try_mutant.sh, but on a scratch git worktree
# (GENJAX_VERIF_REPO) so that /repo itself is never touched; the worktree is created on demand under /tmp.
PATCH="$1"; shift
WT=${TRY_WT:-/tmp/trywt}
[ -d "$WT/src" ] || git -C /repo worktree add --detach "$WT" HEAD >/dev/null 2>&1
git -C "$WT" checkout -q --detach "$(git -C /repo rev-parse HEAD)" 2>/dev/null
git -C "$WT" checkout -q -- .
git -C "$WT" apply "$PATCH" || { echo "patch does not apply"; exit 2; }
for pid in "$@"; do
  (cd /verif && GENJAX_VERIF_REPO="$WT" timeout 1500 ./check "$pid" 2>&1 | grep -v "^KNOWN" | tail -n 1 | cut -c1-300)
done
git -C "$WT" checkout -q -- .
