#!/usr/bin/env python3
"""Compare a junit xml with BASELINE.json stable_pass."""
import json, sys, xml.etree.ElementTree as ET
base = set(json.load(open('/root/.vp/BASELINE.json'))['stable_pass'])
t = ET.parse(sys.argv[1]).getroot()
passed = set()
for tc in t.iter('testcase'):
    if not any(c.tag in ('failure', 'error', 'skipped') for c in tc):
        passed.add(f"{tc.get('classname')}::{tc.get('name')}")
print("passed", len(passed), "missing from baseline:", sorted(base - passed), "extra:", len(passed - base))
sys.exit(0 if base <= passed else 1)
