#!/bin/bash
# usage: confirm_mutant.sh <pid> <worktree>   — confirm demo FAILs with the change and PASSes without; run the 41-test baseline with the change
PID="$1"; WT="$2"; OUT=/tmp/confirm_$PID.log
{
cd "$WT" || exit 2
git -C "$WT" diff --quiet -- src && { echo "no change applied; applying patch"; git -C "$WT" apply MUTANT/patch.diff; }
/tmp/mutools/run.sh "$WT" "$WT/MUTANT/demo.py" > /tmp/confirm_${PID}_with.out 2>&1; echo "demo_with_change_exit=$?"
cd "$WT" && PYTHONPATH="$WT/src" timeout 1800 /venv/bin/python -m pytest -q -p no:cacheprovider --timeout=900 --continue-on-collection-errors --junitxml=/tmp/junit_mut_$PID.xml > /tmp/pytest_mut_$PID.log 2>&1
python3 /verif/tools/baseline_cmp.py /tmp/junit_mut_$PID.xml; echo "baseline_cmp_exit=$?"
git -C "$WT" apply -R MUTANT/patch.diff
/tmp/mutools/run.sh "$WT" "$WT/MUTANT/demo.py" > /tmp/confirm_${PID}_without.out 2>&1; echo "demo_without_change_exit=$?"
git -C "$WT" apply MUTANT/patch.diff
} > $OUT 2>&1
