#!/usr/bin/env python3
"""Print a python file without docstrings/comments/blank lines, keeping line numbers (reading aid)."""
import ast, sys
src = open(sys.argv[1]).read()
lo = int(sys.argv[2]) if len(sys.argv) > 2 else 1
hi = int(sys.argv[3]) if len(sys.argv) > 3 else 10**9
tree = ast.parse(src)
skip = set()
for n in ast.walk(tree):
    if isinstance(n, (ast.FunctionDef, ast.ClassDef, ast.Module, ast.AsyncFunctionDef)):
        b = n.body
        if b and isinstance(b[0], ast.Expr) and isinstance(b[0].value, ast.Constant) and isinstance(b[0].value.value, str):
            for l in range(b[0].lineno, b[0].end_lineno + 1):
                skip.add(l)
for i, line in enumerate(src.splitlines(), 1):
    if i < lo or i > hi or i in skip: continue
    s = line.strip()
    if not s or s.startswith('#'): continue
    print(f"{i}\t{line}")
